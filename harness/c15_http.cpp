// /verif/harness/c15_http.cpp — C15: HTTP/1.1 message framing is exact, segmentation-independent
// and bounded. The driver only *drives* iora and reports what it observed; the verdict is
// computed in lib/props/c15.py against the generator's own message list (lib/c15_httpgen.py).
//
// modes (--mode):
//   server-inproc  subclass of HttpServer; every session is primed through a real loopback
//                  connection (handler reports req.sid); afterwards the exact segmentation is fed
//                  through the protected handleIncomingData(sid, …) from this thread, which stands
//                  where the engine's I/O thread stands (exceptions are caught here, a watchdog
//                  measures the CPU time of a single call).
//   server-socket  the same streams from a raw TCP_NODELAY socket over loopback, paced segments
//                  or kernel-legal short reads forced by the recv shim (maxLen).
//   client-socket  a scripted raw-socket server plays the response bytes in the chosen
//                  segmentation to a real HttpClient (public API only).
//   client-inproc  (only in the optional c15_http_priv build, -fno-access-control) calls
//                  HttpClient::frameResponse directly with exact segmentations.
//
// case file (--cases FILE), one case per line, TAB separated:
//   id  kind  expectN  method  end  segspec  streamHex  [floodUnitHex  floodTotal]
//   kind: v valid | h hostile (expectN = valid prefix messages) | m mutated (robustness only) | f flood
//   segspec: items joined by ';' :  A (all single cuts) | L:3,9,12 (listed single cuts) |
//            M:<k> (k seeded random multi-cuts) | X:3,9|4,8,20 (explicit multi-cuts) |
//            Z:1,2,7 (socket mode: whole stream, every recv of the endpoint capped at z bytes)
#define VF_SHIM_SOCKIO
#include "shim/shims.hpp"
#include "vf.hpp"

#include <arpa/inet.h>
#include <condition_variable>
#include <malloc.h>
#include <netinet/in.h>
#include <netinet/tcp.h>
#include <new>
#include <openssl/sha.h>
#include <poll.h>
#include <sys/eventfd.h>
#include <sys/resource.h>
#include <sys/socket.h>
#include <typeinfo>

#include "iora/network/http_client.hpp"
#include "iora/network/http_server.hpp"

// ============================================================================ counting allocator
namespace mem
{
static std::atomic<int64_t> live{0}, peak{0};
static inline void add(size_t n)
{
  int64_t v = live.fetch_add((int64_t)n, std::memory_order_relaxed) + (int64_t)n;
  int64_t p = peak.load(std::memory_order_relaxed);
  while (v > p && !peak.compare_exchange_weak(p, v, std::memory_order_relaxed)) {}
}
static inline void sub(size_t n) { live.fetch_sub((int64_t)n, std::memory_order_relaxed); }
static inline int64_t begin()
{
  int64_t l = live.load();
  peak.store(l);
  return l;
}
static inline int64_t peakSince(int64_t base) { return peak.load() - base; }
} // namespace mem

void *operator new(std::size_t n)
{
  void *p = std::malloc(n ? n : 1);
  if (!p) throw std::bad_alloc();
  mem::add(malloc_usable_size(p));
  return p;
}
void *operator new[](std::size_t n) { return operator new(n); }
void *operator new(std::size_t n, const std::nothrow_t &) noexcept
{
  void *p = std::malloc(n ? n : 1);
  if (p) mem::add(malloc_usable_size(p));
  return p;
}
void *operator new[](std::size_t n, const std::nothrow_t &t) noexcept { return operator new(n, t); }
void operator delete(void *p) noexcept
{
  if (!p) return;
  mem::sub(malloc_usable_size(p));
  std::free(p);
}
void operator delete[](void *p) noexcept { operator delete(p); }
void operator delete(void *p, std::size_t) noexcept { operator delete(p); }
void operator delete[](void *p, std::size_t) noexcept { operator delete(p); }
void operator delete(void *p, const std::nothrow_t &) noexcept { operator delete(p); }
void operator delete[](void *p, const std::nothrow_t &) noexcept { operator delete(p); }
void *operator new(std::size_t n, std::align_val_t a)
{
  void *p = nullptr;
  size_t al = (size_t)a < sizeof(void *) ? sizeof(void *) : (size_t)a;
  if (posix_memalign(&p, al, n ? n : 1) != 0 || !p) throw std::bad_alloc();
  mem::add(malloc_usable_size(p));
  return p;
}
void *operator new[](std::size_t n, std::align_val_t a) { return operator new(n, a); }
void operator delete(void *p, std::align_val_t) noexcept { operator delete(p); }
void operator delete[](void *p, std::align_val_t) noexcept { operator delete(p); }
void operator delete(void *p, std::size_t, std::align_val_t) noexcept { operator delete(p); }
void operator delete[](void *p, std::size_t, std::align_val_t) noexcept { operator delete(p); }

using namespace iora::network;

// ============================================================================ small helpers
static std::string sha1hex(const std::string &s)
{
  unsigned char d[SHA_DIGEST_LENGTH];
  SHA1(reinterpret_cast<const unsigned char *>(s.data()), s.size(), d);
  return vf::hex(d, sizeof d);
}
static std::vector<std::string> split(const std::string &s, char sep)
{
  std::vector<std::string> r;
  size_t a = 0;
  while (true)
  {
    size_t b = s.find(sep, a);
    if (b == std::string::npos) { r.push_back(s.substr(a)); break; }
    r.push_back(s.substr(a, b - a));
    a = b + 1;
  }
  return r;
}
static std::string cutsJson(const std::vector<size_t> &c)
{
  std::string o = "[";
  for (size_t i = 0; i < c.size(); i++) { if (i) o += ","; o += std::to_string(c[i]); }
  return o + "]";
}

struct Case
{
  std::string id, kind, method, end, segspec, stream, floodUnit;
  long expectN = 0;
  size_t floodTotal = 0;
  size_t cap = 0; // client side: response cap for this case (0 = process default)
};
static std::vector<Case> loadCases(const std::string &path)
{
  std::vector<Case> cs;
  std::string all = vf::readFile(path);
  for (auto &ln : split(all, '\n'))
  {
    if (ln.empty()) continue;
    auto f = split(ln, '\t');
    if (f.size() < 7) continue;
    Case c;
    c.id = f[0]; c.kind = f[1]; c.expectN = atol(f[2].c_str()); c.method = f[3]; c.end = f[4];
    c.segspec = f[5]; c.stream = vf::unhex(f[6]);
    if (f.size() >= 9) { c.floodUnit = vf::unhex(f[7]); c.floodTotal = strtoull(f[8].c_str(), nullptr, 10); }
    if (f.size() >= 10) c.cap = strtoull(f[9].c_str(), nullptr, 10);
    cs.push_back(std::move(c));
  }
  return cs;
}

struct Seg
{
  std::vector<size_t> cuts; // sorted single/multi cut positions (0 < c < len)
  unsigned z = 0;           // socket mode: cap every endpoint recv at z bytes (0 = off)
};
// expand a segspec into concrete segmentations (the whole-stream reference is always first)
static std::vector<Seg> expandSegs(const Case &c, uint64_t seed)
{
  std::vector<Seg> r;
  r.push_back(Seg{});
  size_t L = c.stream.size();
  vf::Rng rng(seed, vf::fnv(c.id));
  for (auto &item : split(c.segspec, ';'))
  {
    if (item.empty()) continue;
    if (item == "A")
    {
      for (size_t i = 1; i < L; i++) r.push_back(Seg{{i}, 0});
    }
    else if (item[0] == 'L' && item.size() > 2)
    {
      for (auto &t : split(item.substr(2), ','))
      {
        size_t v = strtoull(t.c_str(), nullptr, 10);
        if (v > 0 && v < L) r.push_back(Seg{{v}, 0});
      }
    }
    else if (item[0] == 'M' && item.size() > 2)
    {
      size_t k = strtoull(item.c_str() + 2, nullptr, 10);
      for (size_t j = 0; j < k && L > 2; j++)
      {
        size_t n = 2 + rng.below(std::min<size_t>(14, L - 2));
        std::set<size_t> s;
        // every third multi-cut is a run of tiny segments somewhere in the stream
        if (j % 3 == 2)
        {
          size_t start = 1 + rng.below(L - 1);
          for (size_t q = 0; q < n && start + q < L; q++) s.insert(start + q);
        }
        else
          for (size_t q = 0; q < n; q++) s.insert(1 + rng.below(L - 1));
        r.push_back(Seg{std::vector<size_t>(s.begin(), s.end()), 0});
      }
    }
    else if (item[0] == 'X' && item.size() > 2)
    {
      for (auto &grp : split(item.substr(2), '|'))
      {
        std::set<size_t> s;
        for (auto &t : split(grp, ','))
        {
          size_t v = strtoull(t.c_str(), nullptr, 10);
          if (v > 0 && v < L) s.insert(v);
        }
        if (!s.empty()) r.push_back(Seg{std::vector<size_t>(s.begin(), s.end()), 0});
      }
    }
    else if (item[0] == 'Z' && item.size() > 2)
    {
      for (auto &t : split(item.substr(2), ','))
      {
        unsigned v = (unsigned)strtoul(t.c_str(), nullptr, 10);
        if (v) r.push_back(Seg{{}, v});
      }
    }
  }
  return r;
}
static std::vector<std::pair<size_t, size_t>> pieces(size_t L, const std::vector<size_t> &cuts)
{
  std::vector<std::pair<size_t, size_t>> r;
  size_t a = 0;
  for (size_t c : cuts) { if (c > a && c < L) { r.emplace_back(a, c - a); a = c; } }
  r.emplace_back(a, L - a);
  return r;
}

// ============================================================================ watchdog
// One framing call at a time is "in progress"; the watchdog measures the CPU time the calling
// thread burnt inside that single call (immune to machine load) plus a generous wall limit.
struct Watch
{
  std::atomic<uint64_t> startNs{0};
  std::atomic<uint64_t> startCpuNs{0};
  std::atomic<bool> stop{false};
  clockid_t cpuClock{};
  uint64_t cpuLimitNs = 4000000000ull, wallLimitNs = 60000000000ull;
  std::string curCase, curSeg, mode;
  std::mutex m;
  std::thread th;
  static uint64_t cpuNow(clockid_t c)
  {
    struct timespec ts;
    clock_gettime(c, &ts);
    return uint64_t(ts.tv_sec) * 1000000000ull + uint64_t(ts.tv_nsec);
  }
  void start(const std::string &mode_)
  {
    mode = mode_;
    pthread_getcpuclockid(pthread_self(), &cpuClock);
    th = std::thread([this] {
      while (!stop.load())
      {
        vf::sleepMs(50);
        uint64_t s = startNs.load();
        if (!s) continue;
        uint64_t wall = vf::nowNs() - s;
        uint64_t cpu = cpuNow(cpuClock) - startCpuNs.load();
        if (startNs.load() != s) continue; // call finished meanwhile
        if (cpu > cpuLimitNs || wall > wallLimitNs)
        {
          std::string id, sg;
          { std::lock_guard<std::mutex> g(m); id = curCase; sg = curSeg; }
          vf::out().line("{\"t\":\"hang\",\"mode\":" + vf::jstr(mode) + ",\"id\":" + vf::jstr(id) + ",\"cuts\":" + sg +
                         ",\"cpu_ms\":" + std::to_string(cpu / 1000000) + ",\"wall_ms\":" + std::to_string(wall / 1000000) +
                         ",\"spinning\":" + (cpu > cpuLimitNs ? "true" : "false") + "}");
          vf::out().flush();
          _exit(97);
        }
      }
    });
  }
  void setCase(const std::string &id, const std::string &seg)
  {
    std::lock_guard<std::mutex> g(m);
    curCase = id; curSeg = seg;
  }
  void enter() { startCpuNs.store(cpuNow(cpuClock)); startNs.store(vf::nowNs()); }
  void leave() { startNs.store(0); }
  void finish() { stop.store(true); if (th.joinable()) th.join(); }
};
static Watch g_watch;

// ============================================================================ server side
struct Rec
{
  uint64_t sid = 0;
  std::string m, p;
  std::vector<std::pair<std::string, std::string>> h;
  size_t bl = 0;
  std::string bs, bx;
  std::string json() const
  {
    std::string o = "{\"m\":" + vf::jstr(m) + ",\"p\":" + vf::jstr(p) + ",\"h\":[";
    for (size_t i = 0; i < h.size(); i++)
    {
      if (i) o += ",";
      o += "[" + vf::jstr(h[i].first) + "," + vf::jstr(h[i].second) + "]";
    }
    o += "],\"bl\":" + std::to_string(bl) + ",\"bs\":" + vf::jstr(bs) + ",\"bx\":" + vf::jstr(bx) + "}";
    return o;
  }
};

struct Recorder
{
  std::mutex m;
  std::vector<Rec> recs;
  std::map<uint64_t, uint64_t> primeSid; // prime token -> sid
  uint64_t syncSeen = 0;
  int evfd = -1;
  void signal() { uint64_t one = 1; (void)!::write(evfd, &one, sizeof one); }
};
static Recorder g_rec;

class Srv : public HttpServer
{
public:
  Srv(const std::string &a, int port) : HttpServer(a, port) {}
  void feed(SessionId sid, const std::uint8_t *d, std::size_t n) { handleIncomingData(sid, d, n); }
};

static int freePort()
{
  int fd = ::socket(AF_INET, SOCK_STREAM, 0);
  sockaddr_in a{};
  a.sin_family = AF_INET;
  a.sin_addr.s_addr = htonl(INADDR_LOOPBACK);
  a.sin_port = 0;
  ::bind(fd, (sockaddr *)&a, sizeof a);
  socklen_t l = sizeof a;
  ::getsockname(fd, (sockaddr *)&a, &l);
  int p = ntohs(a.sin_port);
  ::close(fd);
  return p;
}

static std::unique_ptr<Srv> startServer(int &portOut)
{
  for (int attempt = 0; attempt < 30; attempt++)
  {
    int port = freePort();
    auto s = std::make_unique<Srv>("127.0.0.1", port);
    s->setDefaultHandler([](const HttpServer::Request &req, HttpServer::Response &res) {
      Rec r;
      r.sid = (uint64_t)req.sid;
      r.m = toString(req.method);
      r.p = req.path;
      for (auto &kv : req.headers) r.h.emplace_back(kv.first, kv.second);
      r.bl = req.body.size();
      r.bs = sha1hex(req.body);
      r.bx = vf::hex(req.body.data(), std::min<size_t>(req.body.size(), 96));
      {
        std::lock_guard<std::mutex> g(g_rec.m);
        if (r.p.rfind("/__prime/", 0) == 0) g_rec.primeSid[strtoull(r.p.c_str() + 9, nullptr, 10)] = r.sid;
        else if (r.p.rfind("/__sync/", 0) == 0) g_rec.syncSeen = std::max<uint64_t>(g_rec.syncSeen, strtoull(r.p.c_str() + 8, nullptr, 10));
        else g_rec.recs.push_back(std::move(r));
      }
      g_rec.signal();
      res.status = 200;
      res.set_content("", "text/plain");
    });
    try
    {
      s->start();
      portOut = port;
      return s;
    }
    catch (...)
    {
      s.reset();
    }
  }
  return nullptr;
}

struct Conn
{
  int fd = -1;
  uint64_t sid = 0;
  bool eof = false;
  std::string rx; // first 64 KiB of what the server sent on this connection
  uint64_t rxTotal = 0;
  bool open() const { return fd >= 0; }
  void closeFd() { if (fd >= 0) { ::close(fd); fd = -1; } }
};

static int rawConnect(int port)
{
  int fd = ::socket(AF_INET, SOCK_STREAM, 0);
  if (fd < 0) return -1;
  sockaddr_in a{};
  a.sin_family = AF_INET;
  a.sin_addr.s_addr = htonl(INADDR_LOOPBACK);
  a.sin_port = htons((uint16_t)port);
  if (::connect(fd, (sockaddr *)&a, sizeof a) != 0) { ::close(fd); return -1; }
  int one = 1;
  ::setsockopt(fd, IPPROTO_TCP, TCP_NODELAY, &one, sizeof one);
  return fd;
}
static bool sendAll(int fd, const char *p, size_t n)
{
  size_t off = 0;
  while (off < n)
  {
    ssize_t r = ::send(fd, p + off, n - off, MSG_NOSIGNAL);
    if (r <= 0) { if (r < 0 && errno == EINTR) continue; return false; }
    off += (size_t)r;
  }
  return true;
}
// wait up to timeoutMs for a handler event or socket data; drains both
static void pump(Conn *c, int timeoutMs)
{
  struct pollfd pf[2];
  int n = 0;
  pf[n].fd = g_rec.evfd; pf[n].events = POLLIN; pf[n].revents = 0; n++;
  if (c && c->open() && !c->eof) { pf[n].fd = c->fd; pf[n].events = POLLIN; pf[n].revents = 0; n++; }
  int r = ::poll(pf, n, timeoutMs);
  if (r <= 0) return;
  if (pf[0].revents & POLLIN) { uint64_t v; (void)!::read(g_rec.evfd, &v, sizeof v); }
  if (n == 2 && (pf[1].revents & (POLLIN | POLLHUP | POLLERR)))
  {
    char buf[16384];
    for (;;)
    {
      ssize_t k = ::recv(c->fd, buf, sizeof buf, MSG_DONTWAIT);
      if (k > 0)
      {
        c->rxTotal += (uint64_t)k;
        if (c->rx.size() < 65536) c->rx.append(buf, std::min<size_t>((size_t)k, 65536 - c->rx.size()));
        continue;
      }
      if (k == 0) { c->eof = true; break; }
      if (errno == EINTR) continue;
      if (errno == EAGAIN || errno == EWOULDBLOCK) break;
      c->eof = true;
      break;
    }
  }
}
static std::string statusesOf(const std::string &rx)
{
  std::string o = "[";
  size_t pos = 0;
  bool first = true;
  while ((pos = rx.find("HTTP/1.1 ", pos)) != std::string::npos)
  {
    if (pos + 12 <= rx.size() && isdigit((unsigned char)rx[pos + 9]) && isdigit((unsigned char)rx[pos + 10]) && isdigit((unsigned char)rx[pos + 11]))
    {
      if (!first) o += ",";
      o += rx.substr(pos + 9, 3);
      first = false;
    }
    pos += 9;
  }
  return o + "]";
}

struct Obs
{
  std::vector<Rec> reqs;
  bool sync = false, closed = false;
  std::string statuses = "[]";
  std::string exc;     // exception escaped from the data callback ("" = none)
  int64_t peak = 0;
  uint64_t fed = 0;    // bytes offered before the session was seen closed (flood)
  // message index encoded in the generator's request paths: /c/<stream id>/<index>[/...]
  static long pathIndex(const std::string &p)
  {
    if (p.rfind("/c/", 0) != 0) return -1;
    size_t a = p.find('/', 3);
    if (a == std::string::npos || a + 1 >= p.size() || !isdigit((unsigned char)p[a + 1])) return -1;
    return atol(p.c_str() + a + 1);
  }
  // For a hostile stream (validPrefix >= 0) the valid messages in front of the hostile one may or
  // may not be served before the connection is rejected (the property does not say); only what
  // is delivered from the hostile message onwards must not depend on the segmentation.
  std::string canon(long validPrefix = -1) const
  {
    std::vector<std::string> v;
    for (auto &r : reqs)
    {
      long idx = pathIndex(r.p);
      if (validPrefix >= 0 && idx >= 0 && idx < validPrefix) continue;
      v.push_back(r.json());
    }
    std::sort(v.begin(), v.end());
    std::string o = sync ? "S|" : "s|";
    o += exc.empty() ? "" : "E|";
    for (auto &s : v) { o += s; o += "\n"; }
    return o;
  }
  std::string json() const
  {
    std::vector<std::string> v;
    for (auto &r : reqs) v.push_back(r.json());
    std::sort(v.begin(), v.end());
    std::string o = "{\"reqs\":[";
    for (size_t i = 0; i < v.size() && i < 24; i++) { if (i) o += ","; o += v[i]; }
    o += "],\"nreq\":" + std::to_string(v.size()) + ",\"sync\":" + (sync ? "true" : "false") + ",\"closed\":" + (closed ? "true" : "false") +
         ",\"st\":" + statuses + ",\"exc\":" + vf::jstr(exc) + ",\"peak\":" + std::to_string(peak) + ",\"fed\":" + std::to_string(fed) + "}";
    return o;
  }
};

struct ServerDriver
{
  std::unique_ptr<Srv> srv;
  int port = 0;
  bool socketMode = false;
  Conn conn;           // in-proc: the primed session; socket: the per-framing connection
  uint64_t primeCtr = 0, syncCtr = 0;
  int waitMs = 250, longWaitMs = 1500, graceMs = 60, longGraceMs = 500, paceUs = 300;
  uint64_t framings = 0, feeds = 0, reprimes = 0, lateRecords = 0, separated = 0, socketFramings = 0;
  bool shortWait = false;

  bool init()
  {
    g_rec.evfd = ::eventfd(0, EFD_NONBLOCK);
    srv = startServer(port);
    return srv != nullptr;
  }
  // connect a raw socket and learn the session id the server gave it (handlers receive req.sid)
  bool prime()
  {
    conn.closeFd();
    conn = Conn{};
    conn.fd = rawConnect(port);
    if (conn.fd < 0) return false;
    uint64_t tok = ++primeCtr;
    std::string req = "GET /__prime/" + std::to_string(tok) + " HTTP/1.1\r\nHost: prime\r\n\r\n";
    if (!sendAll(conn.fd, req.data(), req.size())) return false;
    uint64_t t0 = vf::nowNs();
    while (vf::nowNs() - t0 < 20000000000ull)
    {
      {
        std::lock_guard<std::mutex> g(g_rec.m);
        auto it = g_rec.primeSid.find(tok);
        if (it != g_rec.primeSid.end()) { conn.sid = it->second; g_rec.primeSid.erase(it); break; }
      }
      pump(&conn, 50);
      if (conn.eof) return false;
    }
    if (!conn.sid) return false;
    reprimes++;
    // swallow the prime response so that rx only shows what the case produced
    for (int i = 0; i < 40 && conn.rx.find("\r\n\r\n") == std::string::npos; i++) pump(&conn, 25);
    conn.rx.clear();
    return true;
  }

  // guarded call of the protected entry point
  void guardedFeed(uint64_t sid, const char *p, size_t n, Obs &o)
  {
    feeds++;
    g_watch.enter();
    try
    {
      srv->feed((SessionId)sid, reinterpret_cast<const std::uint8_t *>(p), n);
    }
    catch (const std::exception &e)
    {
      if (o.exc.empty()) o.exc = std::string(typeid(e).name()) + ": " + e.what();
    }
    catch (...)
    {
      if (o.exc.empty()) o.exc = "non-std exception";
    }
    g_watch.leave();
  }

  // records of other sessions (stragglers of an earlier framing whose pool task ran late) are
  // never attributed to the current framing
  size_t countMine()
  {
    size_t n = 0;
    for (auto &r : g_rec.recs) if (r.sid == conn.sid) n++;
    return n;
  }
  void waitQuiescent(const Case &c, Obs &o, uint64_t syncId, bool careful)
  {
    uint64_t t0 = vf::nowNs();
    uint64_t limit = uint64_t(careful ? longWaitMs : waitMs) * 1000000ull;
    uint64_t grace = uint64_t(careful ? longGraceMs : graceMs) * 1000000ull;
    if (c.kind == "m") { limit = std::min<uint64_t>(limit, 60000000ull); grace = std::min<uint64_t>(grace, 20000000ull); }
    // non-reference segmentations of a hostile stream: a short first look is enough, because any
    // difference from the (carefully established) reference is re-run with the long limits
    if (c.kind == "h" && shortWait && !careful) limit = std::min<uint64_t>(limit, uint64_t(waitMs) * 1000000ull / 3);
    uint64_t syncAt = 0;
    for (;;)
    {
      size_t n;
      bool s;
      {
        std::lock_guard<std::mutex> g(g_rec.m);
        n = countMine();
        s = g_rec.syncSeen >= syncId;
      }
      uint64_t now = vf::nowNs();
      if (s && !syncAt) syncAt = now;
      if (s && c.expectN >= 0 && (long)n >= c.expectN && c.kind == "v") break;
      if (s && now - syncAt > grace) break;
      if (conn.eof && !s)
      {
        // session closed: requests already handed to the pool may still be running
        if (!syncAt) syncAt = now;
        if (now - syncAt > grace) break;
      }
      if (now - t0 > limit) break;
      pump(&conn, 5);
    }
    // one last drain so that `closed`/statuses are as fresh as possible (informational only)
    pump(&conn, 0);
    {
      std::lock_guard<std::mutex> g(g_rec.m);
      for (auto &r : g_rec.recs)
      {
        if (r.sid == conn.sid) o.reqs.push_back(r);
        else lateRecords++;
      }
      g_rec.recs.clear(); // anything recorded from now on is "late" (counted, never attributed)
      o.sync = g_rec.syncSeen >= syncId;
    }
    o.closed = conn.eof;
    o.statuses = statusesOf(conn.rx);
  }

  Obs runInproc(const Case &c, const Seg &sg, bool careful)
  {
    Obs o;
    if (careful || !conn.open() || conn.eof)
    {
      if (!prime() && !prime()) { o.exc = "HARNESS: cannot prime a session"; return o; }
    }
    {
      std::lock_guard<std::mutex> g(g_rec.m);
      if (!g_rec.recs.empty()) lateRecords += g_rec.recs.size();
      g_rec.recs.clear();
    }
    conn.rx.clear();
    uint64_t syncId = ++syncCtr;
    int64_t base = mem::begin();
    g_watch.setCase(c.id, cutsJson(sg.cuts));
    for (auto &pc : pieces(c.stream.size(), sg.cuts)) { guardedFeed(conn.sid, c.stream.data() + pc.first, pc.second, o); o.fed += pc.second; }
    if (c.kind == "f" && !c.floodUnit.empty())
    {
      while (o.fed < c.floodTotal)
      {
        guardedFeed(conn.sid, c.floodUnit.data(), c.floodUnit.size(), o);
        o.fed += c.floodUnit.size();
        if ((o.fed / c.floodUnit.size()) % 8 == 0) { pump(&conn, 0); if (conn.eof) break; }
      }
    }
    std::string sentinel = "GET /__sync/" + std::to_string(syncId) + " HTTP/1.1\r\nHost: sync\r\n\r\n";
    guardedFeed(conn.sid, sentinel.data(), sentinel.size(), o);
    waitQuiescent(c, o, syncId, careful);
    o.peak = mem::peakSince(base);
    framings++;
    // reuse the session only after a clean, complete framing of a valid stream; anything else
    // (residue in the buffer, a close under way, stragglers possible) gets a fresh session
    if (!o.sync || o.closed || c.kind != "v" || (long)o.reqs.size() != c.expectN || !o.exc.empty()) conn.closeFd();
    return o;
  }

  Obs runSocket(const Case &c, const Seg &sg, bool careful)
  {
    Obs o;
    {
      std::lock_guard<std::mutex> g(g_rec.m);
      if (!g_rec.recs.empty()) lateRecords += g_rec.recs.size();
      g_rec.recs.clear();
    }
    uint64_t syncId = ++syncCtr;
    auto &sp = vf::shim::sockPolicy();
    sp.maxLen.store(sg.z);
    sp.targetKind.store(0);
    sp.mode.store(2); // counting (+ maxLen cap when z != 0); never shortens a targeted call
    uint64_t recv0 = sp.recvCalls.load();
    int64_t base = mem::begin();
    g_watch.setCase(c.id, sg.z ? ("[\"z\"," + std::to_string(sg.z) + "]") : cutsJson(sg.cuts));
    if (!prime() && !prime()) { o.exc = "HARNESS: connect/prime failed"; sp.mode.store(0); sp.maxLen.store(0); return o; }
    recv0 = sp.recvCalls.load();
    base = mem::begin();
    auto ps = pieces(c.stream.size(), sg.cuts);
    bool ok = true;
    for (size_t i = 0; i < ps.size() && ok; i++)
    {
      ok = sendAll(conn.fd, c.stream.data() + ps[i].first, ps[i].second);
      o.fed += ps[i].second;
      if (ps.size() > 1) vf::sleepMs((careful ? 4 : 1) * paceUs / 1000.0);
    }
    if (ok && c.kind == "f" && !c.floodUnit.empty())
    {
      while (o.fed < c.floodTotal && ok)
      {
        ok = sendAll(conn.fd, c.floodUnit.data(), c.floodUnit.size());
        o.fed += c.floodUnit.size();
        pump(&conn, 0);
        if (conn.eof) break;
      }
    }
    std::string sentinel = "GET /__sync/" + std::to_string(syncId) + " HTTP/1.1\r\nHost: sync\r\n\r\n";
    if (ok) sendAll(conn.fd, sentinel.data(), sentinel.size());
    waitQuiescent(c, o, syncId, careful);
    o.peak = mem::peakSince(base);
    uint64_t calls = sp.recvCalls.load() - recv0;
    if (ps.size() > 1 && calls >= 2 * ps.size()) separated++;
    if (ps.size() > 1 || sg.z) socketFramings++;
    sp.mode.store(0);
    sp.maxLen.store(0);
    conn.closeFd();
    framings++;
    return o;
  }

  Obs run(const Case &c, const Seg &sg, bool careful) { return socketMode ? runSocket(c, sg, careful) : runInproc(c, sg, careful); }

  // liveness probe used after a case in socket mode: a fresh connection must still be served
  bool probeAlive(int ms)
  {
    Conn pc;
    pc.fd = rawConnect(port);
    if (pc.fd < 0) return false;
    uint64_t syncId = ++syncCtr;
    std::string q = "GET /__sync/" + std::to_string(syncId) + " HTTP/1.1\r\nHost: probe\r\n\r\n";
    sendAll(pc.fd, q.data(), q.size());
    uint64_t t0 = vf::nowNs();
    bool seen = false;
    while (vf::nowNs() - t0 < uint64_t(ms) * 1000000ull)
    {
      { std::lock_guard<std::mutex> g(g_rec.m); seen = g_rec.syncSeen >= syncId; }
      if (seen) break;
      pump(&pc, 20);
    }
    pc.closeFd();
    return seen;
  }
};

static double processCpuSec()
{
  struct rusage ru;
  getrusage(RUSAGE_SELF, &ru);
  return ru.ru_utime.tv_sec + ru.ru_utime.tv_usec / 1e6 + ru.ru_stime.tv_sec + ru.ru_stime.tv_usec / 1e6;
}

static int runServer(const vf::Args &args, bool socketMode)
{
  auto cases = loadCases(args.s("cases"));
  uint64_t seed = args.u("seed", 1);
  size_t from = args.u("from", 0);
  const char *modeName = socketMode ? "server-socket" : "server-inproc";
  ServerDriver d;
  d.socketMode = socketMode;
  d.waitMs = (int)args.u("wait-ms", 250);
  d.longWaitMs = (int)args.u("long-wait-ms", 1500);
  d.graceMs = (int)args.u("grace-ms", 60);
  d.longGraceMs = (int)args.u("long-grace-ms", 500);
  d.paceUs = (int)args.u("pace-us", 300);
  if (!d.init()) { vf::out().inconclusive("C15 harness: could not start HttpServer on a free loopback port"); vf::out().flush(); return 2; }
  g_watch.cpuLimitNs = args.u("cpu-limit-ms", 4000) * 1000000ull;
  g_watch.wallLimitNs = args.u("wall-limit-ms", 90000) * 1000000ull;
  g_watch.start(modeName);
  uint64_t rerunOk = 0;
  size_t diffCases = 0, maxDiffCases = args.u("max-diff-cases", 8);
  for (size_t ci = from; ci < cases.size(); ci++)
  {
    const Case &c = cases[ci];
    vf::out().line("{\"t\":\"begin\",\"mode\":" + vf::jstr(modeName) + ",\"id\":" + vf::jstr(c.id) + ",\"idx\":" + std::to_string(ci) + "}");
    uint64_t t0 = vf::nowNs();
    auto segs = expandSegs(c, seed);
    const long vp = (c.kind == "h") ? c.expectN : -1;
    Obs ref = d.run(c, segs[0], false);
    bool refSuspicious = !ref.exc.empty() || !ref.sync || (c.expectN >= 0 && (long)ref.reqs.size() != c.expectN);
    if (refSuspicious && c.kind != "f")
    {
      // re-run the reference once on a fresh session with generous waits: only a reproduced
      // observation is reported
      Obs again = d.run(c, segs[0], true);
      if (again.canon(vp) != ref.canon(vp)) { rerunOk++; ref = again; }
    }
    if (socketMode && c.kind != "v" && (!ref.sync))
    {
      // hostile input over the real engine: is the I/O thread still alive for other connections?
      double cpu0 = processCpuSec();
      uint64_t w0 = vf::nowNs();
      if (!d.probeAlive((int)args.u("probe-ms", 6000)))
      {
        double cpu = processCpuSec() - cpu0;
        double wall = (vf::nowNs() - w0) / 1e9;
        vf::out().line("{\"t\":\"hang\",\"mode\":" + vf::jstr(modeName) + ",\"id\":" + vf::jstr(c.id) + ",\"cuts\":[],\"cpu_ms\":" +
                       std::to_string((long)(cpu * 1000)) + ",\"wall_ms\":" + std::to_string((long)(wall * 1000)) +
                       ",\"spinning\":" + (cpu > std::min(5.0, 0.25 * wall) ? "true" : "false") + ",\"probe\":\"fresh connection not served\"}");
        vf::out().flush();
        _exit(97);
      }
    }
    std::string diffs;
    size_t ndiff = 0;
    int64_t peak = ref.peak;
    std::string refCanon = ref.canon(vp);
    // A reference that already lost/gained requests or killed the session is a primary finding;
    // exploring every cut of such a stream only re-measures the race between the asynchronous
    // session close and the later feeds. Keep a small evenly spread sample of segmentations.
    bool capped = false;
    if (diffCases >= maxDiffCases && segs.size() > 1)
    {
      // enough segmentation-dependent cases were already found by this process: do not spend the
      // remaining budget re-measuring a broken tree (only the reference is judged from here on)
      segs.resize(1);
      capped = true;
    }
    if (c.kind == "v" && (!ref.sync || ref.closed || (long)ref.reqs.size() != c.expectN) && segs.size() > 13)
    {
      std::vector<Seg> keep;
      keep.push_back(segs[0]);
      for (size_t k = 0; k < 12; k++) keep.push_back(segs[1 + k * (segs.size() - 1) / 12]);
      segs.swap(keep);
      capped = true;
    }
    for (size_t si = 1; si < segs.size(); si++)
    {
      d.shortWait = true;
      Obs o = d.run(c, segs[si], false);
      d.shortWait = false;
      peak = std::max(peak, o.peak);
      if (c.kind == "m")
      {
        // mutated streams: robustness only (hang / exception / memory / sanitizers); what a garbage
        // stream yields is not compared across segmentations
        if (ref.exc.empty() && !o.exc.empty()) ref.exc = o.exc;
        continue;
      }
      if (o.canon(vp) == refCanon) continue;
      Obs o2 = d.run(c, segs[si], true);
      peak = std::max(peak, o2.peak);
      if (o2.canon(vp) == refCanon)
      {
        if (rerunOk++ < 4)
          vf::out().line("{\"t\":\"flaky\",\"mode\":" + vf::jstr(modeName) + ",\"id\":" + vf::jstr(c.id) + ",\"cuts\":" + cutsJson(segs[si].cuts) + ",\"first\":" + o.json() + "}");
        continue;
      }
      // the reference itself may have been the odd one out: confirm it once more
      Obs r2 = d.run(c, segs[0], true);
      if (r2.canon(vp) == o2.canon(vp)) { rerunOk++; ref = r2; refCanon = r2.canon(vp); continue; }
      ndiff++;
      if (ndiff <= 4)
      {
        if (!diffs.empty()) diffs += ",";
        diffs += "{\"cuts\":" + cutsJson(segs[si].cuts) + ",\"z\":" + std::to_string(segs[si].z) + ",\"obs\":" + o2.json() + "}";
      }
      if (ndiff >= 6) { capped = true; break; }
    }
    if (ndiff) diffCases++;
    vf::out().line("{\"t\":\"c15\",\"mode\":" + vf::jstr(modeName) + ",\"id\":" + vf::jstr(c.id) + ",\"nseg\":" + std::to_string(segs.size()) +
                   ",\"ref\":" + ref.json() + ",\"ndiff\":" + std::to_string(ndiff) + ",\"diffs\":[" + diffs + "],\"peak\":" + std::to_string(peak) +
                   ",\"capped\":" + (capped ? "true" : "false") +
                   ",\"len\":" + std::to_string(c.stream.size()) + ",\"ms\":" + std::to_string((vf::nowNs() - t0) / 1000000) + "}");
    vf::out().obsMax("peak_live_bytes_per_case", (uint64_t)std::max<int64_t>(0, peak));
  }
  g_watch.finish();
  vf::out().obs(std::string(modeName) + ":framings", d.framings);
  vf::out().obs(std::string(modeName) + ":cases", cases.size() > from ? cases.size() - from : 0);
  if (!socketMode)
  {
    vf::out().obs("server-inproc:data_callbacks_fed", d.feeds);
    vf::out().obs("server-inproc:sessions_primed", d.reprimes);
  }
  else
  {
    vf::out().obs("server-socket:multi_segment_framings", d.socketFramings);
    vf::out().obs("server-socket:segments_read_separately", d.separated);
  }
  vf::out().obs(std::string(modeName) + ":late_records", d.lateRecords);
  vf::out().obs(std::string(modeName) + ":mismatch_not_reproduced_on_rerun", rerunOk);
  vf::out().flush();
  d.conn.closeFd();
  // a hung I/O thread would block stop(); hangs were already turned into _exit above
  d.srv->stop();
  d.srv.reset();
  return 0;
}

// ============================================================================ client side
struct Script
{
  std::string bytes;
  std::vector<size_t> cuts;
  int paceUs = 300;
  char end = 'k';
  bool unpaced = false; // flood at full speed (to see which bound fires: client cap or transport sync buffer)
  bool slow = false;    // flood at ~4 MB/s: the client keeps up even on a loaded machine, so the bytes sent
                        // before it stops reading measure what it consumed (nothing is dropped by the transport)
  std::string floodUnit;
  size_t floodTotal = 0;
  uint64_t gen = 0;
};

struct ScriptedServer
{
  int lfd = -1, port = 0;
  std::thread th;
  std::atomic<bool> stop{false};
  std::mutex m;
  std::condition_variable cv;
  Script cur;
  uint64_t armedGen = 0, servedGen = 0;
  std::atomic<uint64_t> abortGen{0};
  std::atomic<uint64_t> bytesSent{0}, connections{0}, requestsSeen{0};
  std::string lastRequestHead;

  bool start()
  {
    lfd = ::socket(AF_INET, SOCK_STREAM, 0);
    int one = 1;
    ::setsockopt(lfd, SOL_SOCKET, SO_REUSEADDR, &one, sizeof one);
    sockaddr_in a{};
    a.sin_family = AF_INET;
    a.sin_addr.s_addr = htonl(INADDR_LOOPBACK);
    a.sin_port = 0;
    if (::bind(lfd, (sockaddr *)&a, sizeof a) != 0) return false;
    socklen_t l = sizeof a;
    ::getsockname(lfd, (sockaddr *)&a, &l);
    port = ntohs(a.sin_port);
    if (::listen(lfd, 64) != 0) return false;
    th = std::thread([this] { vf::shim::tlsSockExempt = true; loop(); });
    return true;
  }
  void arm(const Script &s)
  {
    std::lock_guard<std::mutex> g(m);
    cur = s;
    armedGen = s.gen;
    cv.notify_all();
  }
  void shutdown()
  {
    stop.store(true);
    { std::lock_guard<std::mutex> g(m); cv.notify_all(); }
    if (th.joinable()) th.join();
    if (lfd >= 0) ::close(lfd);
  }
  // returns 1 request read, 0 EOF/err, -1 stop
  int readRequest(int fd)
  {
    std::string acc;
    char buf[8192];
    size_t need = std::string::npos;
    for (;;)
    {
      if (stop.load()) return -1;
      struct pollfd pf{fd, POLLIN, 0};
      int r = ::poll(&pf, 1, 50);
      if (r == 0) continue;
      if (r < 0) { if (errno == EINTR) continue; return 0; }
      ssize_t k = ::recv(fd, buf, sizeof buf, 0);
      if (k <= 0) return 0;
      acc.append(buf, (size_t)k);
      if (need == std::string::npos)
      {
        size_t he = acc.find("\r\n\r\n");
        if (he == std::string::npos) continue;
        size_t cl = 0;
        std::string low = acc.substr(0, he);
        for (auto &ch : low) ch = (char)tolower((unsigned char)ch);
        size_t p = low.find("\r\ncontent-length:");
        if (p != std::string::npos) cl = strtoull(low.c_str() + p + 17, nullptr, 10);
        need = he + 4 + cl;
        { std::lock_guard<std::mutex> g(m); lastRequestHead = acc.substr(0, std::min<size_t>(he, 300)); }
      }
      if (acc.size() >= need) return 1;
    }
  }
  // serve one request that is readable on fd; returns false when the connection must be closed
  bool serveOne(int fd)
  {
    int rr = readRequest(fd);
    if (rr <= 0) return false;
    requestsSeen++;
    Script s;
    {
      std::unique_lock<std::mutex> g(m);
      cv.wait_for(g, std::chrono::seconds(5), [&] { return stop.load() || armedGen > servedGen; });
      if (stop.load() || armedGen <= servedGen) return false;
      s = cur;
      servedGen = armedGen;
    }
    bool ok = true, aborted = false;
    auto ps = pieces(s.bytes.size(), s.cuts);
    for (size_t i = 0; i < ps.size() && ok; i++)
    {
      if (abortGen.load() >= s.gen) { aborted = true; break; }
      ok = sendAll(fd, s.bytes.data() + ps[i].first, ps[i].second);
      if (ok) bytesSent += ps[i].second;
      if (ps.size() > 1 && i + 1 < ps.size()) vf::sleepMs(s.paceUs / 1000.0);
    }
    if (ok && !aborted && !s.floodUnit.empty())
    {
      size_t sent = s.bytes.size();
      while (sent < s.floodTotal && ok)
      {
        if (abortGen.load() >= s.gen || stop.load()) { aborted = true; break; }
        // poll for writability so that an abort is noticed
        struct pollfd wf{fd, POLLOUT, 0};
        int pr = ::poll(&wf, 1, 50);
        if (pr == 0) continue;
        if (pr < 0 || (wf.revents & (POLLERR | POLLHUP))) { ok = false; break; }
        ssize_t k = ::send(fd, s.floodUnit.data(), s.floodUnit.size(), MSG_NOSIGNAL | MSG_DONTWAIT);
        if (k < 0) { if (errno == EAGAIN || errno == EINTR) continue; ok = false; break; }
        sent += (size_t)k;
        bytesSent += (size_t)k;
        // paced, so that the client keeps up and only *its own* cap (not the transport's
        // sync-buffer overflow) decides when the flood is cut off
        if (!s.unpaced) vf::sleepMs(s.slow ? 1.0 : 0.08);
      }
    }
    if (!ok || aborted || s.end == 'c')
    {
      if (ok && !aborted)
      {
        ::shutdown(fd, SHUT_WR);
        // wait for the peer to close (bounded), so that our close never turns into a reset
        char b[512];
        for (int i = 0; i < 60 && !stop.load(); i++)
        {
          struct pollfd rf{fd, POLLIN, 0};
          if (::poll(&rf, 1, 50) > 0) { ssize_t k = ::recv(fd, b, sizeof b, 0); if (k <= 0) break; }
          if (abortGen.load() >= s.gen && i > 2) break;
        }
      }
      return false;
    }
    return true;
  }
  // several keep-alive connections can be open at once (one HttpClient per configured cap)
  void loop()
  {
    std::vector<int> conns;
    while (!stop.load())
    {
      std::vector<struct pollfd> pf;
      pf.push_back({lfd, POLLIN, 0});
      for (int fd : conns) pf.push_back({fd, POLLIN, 0});
      if (::poll(pf.data(), pf.size(), 50) <= 0) continue;
      if (pf[0].revents & POLLIN)
      {
        int fd = ::accept(lfd, nullptr, nullptr);
        if (fd >= 0)
        {
          connections++;
          int one = 1;
          ::setsockopt(fd, IPPROTO_TCP, TCP_NODELAY, &one, sizeof one);
          int snd = 65536; // bounds what can sit in the kernel beyond what the client has consumed
          ::setsockopt(fd, SOL_SOCKET, SO_SNDBUF, &snd, sizeof snd);
          conns.push_back(fd);
        }
      }
      for (size_t i = 1; i < pf.size(); i++)
      {
        if (!(pf[i].revents & (POLLIN | POLLHUP | POLLERR))) continue;
        int fd = pf[i].fd;
        if (!serveOne(fd))
        {
          ::close(fd);
          conns.erase(std::remove(conns.begin(), conns.end(), fd), conns.end());
        }
      }
    }
    for (int fd : conns) ::close(fd);
  }
};

struct CObs
{
  bool ok = false;
  int status = 0;
  std::string reason, ver, err, etype;
  std::vector<std::pair<std::string, std::string>> h;
  size_t bl = 0;
  std::string bs, bx;
  int64_t peak = 0;
  uint64_t sent = 0;
  double ms = 0;
  std::string canon() const
  {
    if (!ok) return "ERR";
    std::string o = "OK|" + std::to_string(status) + "|" + reason + "|" + ver + "|";
    for (auto &kv : h) o += kv.first + ":" + kv.second + "\n";
    o += std::to_string(bl) + "|" + bs;
    return o;
  }
  std::string json() const
  {
    std::string o = std::string("{\"ok\":") + (ok ? "true" : "false") + ",\"st\":" + std::to_string(status) + ",\"rs\":" + vf::jstr(reason) +
                    ",\"ver\":" + vf::jstr(ver) + ",\"err\":" + vf::jstr(err.substr(0, 200)) + ",\"et\":" + vf::jstr(etype) + ",\"h\":[";
    for (size_t i = 0; i < h.size(); i++)
    {
      if (i) o += ",";
      o += "[" + vf::jstr(h[i].first) + "," + vf::jstr(h[i].second) + "]";
    }
    o += "],\"bl\":" + std::to_string(bl) + ",\"bs\":" + vf::jstr(bs) + ",\"bx\":" + vf::jstr(bx) + ",\"peak\":" + std::to_string(peak) +
         ",\"sent\":" + std::to_string(sent) + ",\"ms\":" + std::to_string((long)ms) + "}";
    return o;
  }
};

static void fillFromResponse(CObs &o, const HttpClient::Response &r)
{
  o.ok = true;
  o.status = r.statusCode;
  o.reason = r.statusText;
  o.ver = r.httpVersion;
  for (auto &kv : r.headers) o.h.emplace_back(kv.first, kv.second);
  o.bl = r.body.size();
  o.bs = sha1hex(r.body);
  o.bx = vf::hex(r.body.data(), std::min<size_t>(r.body.size(), 96));
}

struct ClientDriver
{
  ScriptedServer ss;
  std::map<size_t, std::unique_ptr<HttpClient>> clients; // one client per configured response cap
  uint64_t gen = 0, exchanges = 0;
  int paceUs = 400, reqTimeoutMs = 6000;
  size_t cap = 1024 * 1024;

  bool init() { return ss.start(); }
  HttpClient &clientFor(size_t capBytes)
  {
    auto &p = clients[capBytes];
    if (!p)
    {
      HttpClient::Config cfg;
      cfg.connectTimeout = std::chrono::milliseconds(3000);
      cfg.requestTimeout = std::chrono::milliseconds(reqTimeoutMs);
      cfg.maxResponseBytes = capBytes;
      cfg.jsonConfig.maxPayloadSize = capBytes;
      p = std::make_unique<HttpClient>(cfg);
    }
    return *p;
  }
  CObs run(const Case &c, const Seg &sg, bool careful)
  {
    CObs o;
    Script s;
    s.bytes = c.stream;
    s.cuts = sg.cuts;
    s.paceUs = careful ? paceUs * 5 : paceUs;
    s.end = c.end.empty() ? 'k' : c.end[0];
    s.unpaced = c.end.find('u') != std::string::npos;
    s.slow = c.end.find('s') != std::string::npos;
    s.floodUnit = c.floodUnit;
    s.floodTotal = c.floodTotal;
    s.gen = ++gen;
    ss.arm(s);
    uint64_t sent0 = ss.bytesSent.load();
    std::string url = "http://127.0.0.1:" + std::to_string(ss.port) + "/c/" + c.id + "/" + std::to_string(gen);
    g_watch.setCase(c.id, cutsJson(sg.cuts));
    int64_t base = mem::begin();
    uint64_t t0 = vf::nowNs();
    g_watch.enter();
    try
    {
      HttpClient &cl = clientFor(c.cap ? c.cap : cap);
      HttpClient::Response r;
      if (c.method == "HEAD") r = cl.head(url);
      else if (c.method == "POST") r = cl.post(url, "payload-" + c.id);
      else if (c.method == "DELETE") r = cl.deleteRequest(url);
      else r = cl.get(url);
      fillFromResponse(o, r);
    }
    catch (const HttpFramingError &e) { o.err = e.what(); o.etype = "framing"; }
    catch (const HttpRequestNotSentError &e) { o.err = e.what(); o.etype = "notsent"; }
    catch (const std::runtime_error &e) { o.err = e.what(); o.etype = "runtime"; }
    catch (const std::exception &e) { o.err = std::string(typeid(e).name()) + ": " + e.what(); o.etype = "other"; }
    catch (...) { o.err = "non-std exception"; o.etype = "other"; }
    g_watch.leave();
    o.ms = (vf::nowNs() - t0) / 1e6;
    o.peak = mem::peakSince(base);
    ss.abortGen.store(s.gen);
    o.sent = ss.bytesSent.load() - sent0;
    exchanges++;
    return o;
  }
};

static int runClient(const vf::Args &args)
{
  auto cases = loadCases(args.s("cases"));
  uint64_t seed = args.u("seed", 1);
  size_t from = args.u("from", 0);
  ClientDriver d;
  d.paceUs = (int)args.u("pace-us", 400);
  d.reqTimeoutMs = (int)args.u("req-timeout-ms", 6000);
  d.cap = args.u("cap", 1024 * 1024);
  vf::shim::tlsSockExempt = true;
  if (!d.init()) { vf::out().inconclusive("C15 harness: could not start the scripted server"); vf::out().flush(); return 2; }
  g_watch.cpuLimitNs = args.u("cpu-limit-ms", 4000) * 1000000ull;
  g_watch.wallLimitNs = (uint64_t(d.reqTimeoutMs) * 4 + 60000) * 1000000ull;
  g_watch.start("client-socket");
  uint64_t rerunOk = 0;
  size_t diffCases = 0, maxDiffCases = args.u("max-diff-cases", 8);
  for (size_t ci = from; ci < cases.size(); ci++)
  {
    const Case &c = cases[ci];
    vf::out().line("{\"t\":\"begin\",\"mode\":\"client-socket\",\"id\":" + vf::jstr(c.id) + ",\"idx\":" + std::to_string(ci) + "}");
    uint64_t t0 = vf::nowNs();
    auto segs = expandSegs(c, seed);
    bool capped = false;
    if (diffCases >= maxDiffCases && segs.size() > 1) { segs.resize(1); capped = true; }
    CObs ref = d.run(c, segs[0], false);
    std::string refCanon = ref.canon();
    int64_t peak = ref.peak;
    std::string diffs;
    size_t ndiff = 0;
    for (size_t si = 1; si < segs.size(); si++)
    {
      if (segs[si].z) continue;
      if (ndiff >= 3) { capped = true; break; }
      CObs o = d.run(c, segs[si], false);
      peak = std::max(peak, o.peak);
      if (c.kind == "m") continue; // robustness only
      if (o.canon() == refCanon) continue;
      CObs o2 = d.run(c, segs[si], true);
      peak = std::max(peak, o2.peak);
      if (o2.canon() == refCanon)
      {
        if (rerunOk++ < 4)
          vf::out().line("{\"t\":\"flaky\",\"mode\":\"client-socket\",\"id\":" + vf::jstr(c.id) + ",\"cuts\":" + cutsJson(segs[si].cuts) + ",\"first\":" + o.json() + "}");
        continue;
      }
      CObs r2 = d.run(c, segs[0], true);
      if (r2.canon() == o2.canon())
      {
        if (rerunOk++ < 4)
          vf::out().line("{\"t\":\"flaky\",\"mode\":\"client-socket\",\"id\":" + vf::jstr(c.id) + ",\"cuts\":[],\"first\":" + ref.json() + "}");
        ref = r2; refCanon = r2.canon();
        continue;
      }
      ndiff++;
      if (ndiff <= 4)
      {
        if (!diffs.empty()) diffs += ",";
        diffs += "{\"cuts\":" + cutsJson(segs[si].cuts) + ",\"obs\":" + o2.json() + "}";
      }
    }
    if (ndiff) diffCases++;
    vf::out().line("{\"t\":\"c15\",\"mode\":\"client-socket\",\"id\":" + vf::jstr(c.id) + ",\"nseg\":" + std::to_string(segs.size()) + ",\"ref\":" +
                   ref.json() + ",\"ndiff\":" + std::to_string(ndiff) + ",\"diffs\":[" + diffs + "],\"peak\":" + std::to_string(peak) +
                   ",\"capped\":" + (capped ? "true" : "false") +
                   ",\"len\":" + std::to_string(c.stream.size()) + ",\"ms\":" + std::to_string((vf::nowNs() - t0) / 1000000) + "}");
    vf::out().obsMax("peak_live_bytes_per_case", (uint64_t)std::max<int64_t>(0, peak));
  }
  g_watch.finish();
  vf::out().obs("client-socket:exchanges", d.exchanges);
  vf::out().obs("client-socket:cases", cases.size() > from ? cases.size() - from : 0);
  vf::out().obs("client-socket:connections_accepted", d.ss.connections.load());
  vf::out().obs("client-socket:mismatch_not_reproduced_on_rerun", rerunOk);
  vf::out().flush();
  d.clients.clear();
  d.ss.shutdown();
  return 0;
}

// ============================================================================ client in-process (optional build)
#ifdef C15_PRIV
// Compiled with -fno-access-control: drives HttpClient::frameResponse exactly as executeRequest's
// receive loop does (append, cap check, frame), one call per segment; "peer closed" at the end.
static CObs privFrame(HttpClient &cl, const Case &c, const Seg &sg, size_t cap)
{
  CObs o;
  std::string data;
  bool headersDone = false, forceEvict = false, complete = false;
  std::size_t headerScanPos = 0, bodyStart = 0;
  HttpClient::Response resp;
  HttpClient::Framing framing;
  HttpClient::ChunkState st;
  int64_t base = mem::begin();
  g_watch.setCase(c.id, cutsJson(sg.cuts));
  g_watch.enter();
  try
  {
    for (auto &pc : pieces(c.stream.size(), sg.cuts))
    {
      // the real loop reads at most 8192 bytes per receiveSync
      for (size_t off = 0; off < pc.second && !complete; off += 8192)
      {
        data.append(c.stream, pc.first + off, std::min<size_t>(8192, pc.second - off));
        if (data.size() > cap) throw HttpFramingError("HTTP response exceeded the configured response cap");
        complete = cl.frameResponse(c.method, data, headersDone, headerScanPos, bodyStart, resp, framing, st, forceEvict, cap);
      }
      if (complete) break;
    }
    if (!complete)
    {
      if (c.end == "c" && headersDone && framing.mode == HttpClient::BodyMode::CloseDelimited)
      {
        resp.body = data.substr(bodyStart);
        complete = true;
      }
      else
        throw std::runtime_error("Connection closed before receiving complete HTTP response");
    }
    fillFromResponse(o, resp);
  }
  catch (const HttpFramingError &e) { o.err = e.what(); o.etype = "framing"; }
  catch (const std::runtime_error &e) { o.err = e.what(); o.etype = "runtime"; }
  catch (const std::exception &e) { o.err = std::string(typeid(e).name()) + ": " + e.what(); o.etype = "other"; }
  catch (...) { o.err = "non-std exception"; o.etype = "other"; }
  g_watch.leave();
  o.peak = mem::peakSince(base);
  return o;
}
static int runClientInproc(const vf::Args &args)
{
  auto cases = loadCases(args.s("cases"));
  uint64_t seed = args.u("seed", 1);
  size_t from = args.u("from", 0);
  size_t cap = args.u("cap", 1024 * 1024);
  HttpClient cl;
  g_watch.cpuLimitNs = args.u("cpu-limit-ms", 4000) * 1000000ull;
  g_watch.start("client-inproc");
  uint64_t framings = 0;
  for (size_t ci = from; ci < cases.size(); ci++)
  {
    const Case &c = cases[ci];
    if (c.kind == "f") continue;
    vf::out().line("{\"t\":\"begin\",\"mode\":\"client-inproc\",\"id\":" + vf::jstr(c.id) + ",\"idx\":" + std::to_string(ci) + "}");
    auto segs = expandSegs(c, seed);
    const size_t ccap = c.cap ? c.cap : cap;
    CObs ref = privFrame(cl, c, segs[0], ccap);
    framings++;
    std::string refCanon = ref.canon(), diffs;
    size_t ndiff = 0;
    int64_t peak = ref.peak;
    for (size_t si = 1; si < segs.size(); si++)
    {
      if (segs[si].z) continue;
      CObs o = privFrame(cl, c, segs[si], ccap);
      framings++;
      peak = std::max(peak, o.peak);
      if (o.canon() == refCanon) continue;
      ndiff++;
      if (ndiff <= 4)
      {
        if (!diffs.empty()) diffs += ",";
        diffs += "{\"cuts\":" + cutsJson(segs[si].cuts) + ",\"obs\":" + o.json() + "}";
      }
    }
    vf::out().line("{\"t\":\"c15\",\"mode\":\"client-inproc\",\"id\":" + vf::jstr(c.id) + ",\"nseg\":" + std::to_string(segs.size()) + ",\"ref\":" +
                   ref.json() + ",\"ndiff\":" + std::to_string(ndiff) + ",\"diffs\":[" + diffs + "],\"peak\":" + std::to_string(peak) +
                   ",\"len\":" + std::to_string(c.stream.size()) + ",\"ms\":0}");
  }
  g_watch.finish();
  vf::out().obs("client-inproc:framings", framings);
  vf::out().flush();
  return 0;
}
#endif

int main(int argc, char **argv)
{
  vf::Args args(argc, argv);
  iora::core::Logger::setLevel(iora::core::Logger::Level::Fatal);
  vf::shim::tlsSockExempt = true; // this thread owns the raw peers; iora's own threads are not exempt
  std::string mode = args.s("mode");
  if (mode == "server-inproc") return runServer(args, false);
  if (mode == "server-socket") return runServer(args, true);
  if (mode == "client-socket") return runClient(args);
#ifdef C15_PRIV
  if (mode == "client-inproc") return runClientInproc(args);
#endif
  fprintf(stderr, "unknown --mode %s\n", mode.c_str());
  return 2;
}
