// /verif/harness/c18_wsfuzz.cpp — C18 libFuzzer targets (thorough tier, optional).
//   C18_FUZZ_TARGET=frame   WebSocketFrame::parse on arbitrary bytes: no exception, a complete
//                           frame never claims more bytes than given, parse -> serialize -> parse is
//                           a fixed point, every strict prefix of a complete frame is incomplete.
//   C18_FUZZ_TARGET=server  WebSocketServer data path without sockets: a subclass creates the
//                           session through the protected onUpgradeRequest() and feeds the input to
//                           onUpgradedData() whole and cut in two; no exception may escape, and for
//                           inputs the target's own strict walker accepts as valid frames the
//                           deliveries of both segmentations must be equal.
// Known finding first: std::length_error from a 64-bit length in the wrap range [2^64-16, 2^64-1]
// is counted (stderr line "C18-FUZZ-KNOWN len-wrap", once) and the run continues; anything else
// aborts and is reported by lib/props/c18.py.
#include <cstdint>
#include <cstdio>
#include <cstdlib>
#include <cstring>
#include <string>
#include <vector>

#include "iora/network/websocket_server.hpp"

using namespace iora::network;

static bool g_knownPrinted = false;
static void known()
{
  if (!g_knownPrinted) { fprintf(stderr, "C18-FUZZ-KNOWN len-wrap\n"); g_knownPrinted = true; }
}
// 64-bit length field in the wrap range somewhere in the input?
static bool hasWrapLength(const uint8_t *d, size_t n)
{
  for (size_t i = 0; i + 8 <= n; i++)
  {
    bool ff = true;
    for (int k = 0; k < 7; k++) if (d[i + k] != 0xFF) { ff = false; break; }
    if (ff && d[i + 7] >= 0xF0) return true;
  }
  return false;
}
[[noreturn]] static void die(const char *what, const uint8_t *d, size_t n)
{
  fprintf(stderr, "C18-FUZZ-VIOLATION %s input=", what);
  for (size_t i = 0; i < n && i < 64; i++) fprintf(stderr, "%02x", d[i]);
  fprintf(stderr, "\n");
  abort();
}

static void fuzzFrame(const uint8_t *d, size_t n)
{
  std::size_t consumed = 0;
  std::optional<WebSocketFrame> f;
  try { f = WebSocketFrame::parse(iora::core::BufferView(d, n), consumed); }
  catch (const std::length_error &)
  {
    if (n >= 10 && (d[1] & 0x7F) == 127 && hasWrapLength(d + 2, 8)) { known(); return; }
    die("frame:exception:length_error", d, n);
  }
  catch (...) { die("frame:exception", d, n); }
  if (!f) { if (consumed != 0) die("frame:incomplete-but-consumed", d, n); return; }
  if (consumed > n) die("frame:consumed-beyond-input", d, n);
  if (((d[0] >> 4) & 7) != 0) return; // RSV: robustness only
  if (f->payload.size() + 2 > consumed) die("frame:payload-larger-than-consumed", d, n);
  // fixed point
  std::vector<uint8_t> again = f->serialize(f->masked);
  std::size_t c2 = 0;
  auto g = WebSocketFrame::parse(iora::core::BufferView(again.data(), again.size()), c2);
  if (!g || c2 != again.size() || g->fin != f->fin || g->opcode != f->opcode || g->masked != f->masked || g->payload != f->payload ||
      (f->masked && memcmp(g->maskKey, f->maskKey, 4) != 0))
    die("frame:reparse-mismatch", d, n);
  // a strict prefix of the consumed bytes is never complete
  if (consumed > 0)
  {
    std::vector<uint8_t> cut(d, d + consumed - 1);
    std::size_t c3 = 0;
    std::optional<WebSocketFrame> h;
    try { h = WebSocketFrame::parse(iora::core::BufferView(cut.data(), cut.size()), c3); }
    catch (...) { die("frame:truncation-exception", d, n); }
    if (h) die("frame:truncation-reported-complete", d, n);
  }
}

class FuzzSrv : public WebSocketServer
{
public:
  FuzzSrv() : WebSocketServer("127.0.0.1", 1) {}
  void open(SessionId sid)
  {
    Request req;
    req.sid = sid;
    req.headers = {{"Upgrade", "websocket"}, {"Connection", "Upgrade"}, {"Sec-WebSocket-Key", "dGhlIHNhbXBsZSBub25jZQ=="}, {"Sec-WebSocket-Version", "13"}};
    Response res;
    onUpgradeRequest(sid, req, res);
  }
  void feed(SessionId sid, const uint8_t *d, size_t n) { onUpgradedData(sid, d, n); }
};

// strict walker: are these bytes a sequence of complete, valid frames with a valid fragment order?
static bool validStream(const uint8_t *d, size_t n)
{
  size_t p = 0;
  bool inMsg = false;
  while (p < n)
  {
    if (n - p < 2) return false;
    uint8_t b0 = d[p], b1 = d[p + 1];
    uint8_t op = b0 & 15;
    bool fin = b0 & 0x80;
    if (b0 & 0x70) return false;
    if (!(op <= 2 || (op >= 8 && op <= 10))) return false;
    uint64_t len = b1 & 0x7F;
    size_t q = p + 2;
    if (op >= 8 && (len > 125 || !fin)) return false;
    if (op == 8) return false; // close ends the session: not compared
    if (len == 126) { if (n - q < 2) return false; len = (uint64_t(d[q]) << 8) | d[q + 1]; q += 2; }
    else if (len == 127) { if (n - q < 8) return false; len = 0; for (int k = 0; k < 8; k++) len = (len << 8) | d[q + k]; q += 8; if (len >> 63) return false; }
    if (b1 & 0x80) { if (n - q < 4) return false; q += 4; }
    if (len > n - q) return false;
    if (op == 0) { if (!inMsg) return false; if (fin) inMsg = false; }
    else if (op <= 2) { if (inMsg) return false; inMsg = !fin; }
    p = q + (size_t)len;
  }
  return true;
}

static void fuzzServer(const uint8_t *d, size_t n)
{
  static FuzzSrv *srv = nullptr;
  static std::string log;
  static SessionId next = 1;
  if (!srv)
  {
    iora::core::Logger::setLevel(iora::core::Logger::Level::Fatal);
    srv = new FuzzSrv();
    srv->setMaxFrameSize(4096);
    srv->setOnTextMessage([](SessionId, const std::string &t) { log += "t" + std::to_string(t.size()) + ":" + t + ";"; });
    srv->setOnBinaryMessage([](SessionId, const std::vector<uint8_t> &b) { log += "b" + std::to_string(b.size()) + ":" + std::string(b.begin(), b.end()) + ";"; });
    srv->setOnClose([](SessionId, std::uint16_t c, const std::string &) { log += "c" + std::to_string(c) + ";"; });
  }
  if (n < 1) return;
  size_t cut = n > 1 ? 1 + d[0] % (n - 1) : 1;
  const uint8_t *s = d + 1;
  size_t m = n - 1;
  if (cut > m) cut = m;
  std::string first;
  for (int pass = 0; pass < 2; pass++)
  {
    SessionId sid = next++;
    log.clear();
    try
    {
      srv->open(sid);
      if (pass == 0) srv->feed(sid, s, m);
      else { srv->feed(sid, s, cut); srv->feed(sid, s + cut, m - cut); }
      // a close frame ends the session cleanly
      static const uint8_t cf[] = {0x88, 0x00};
      srv->feed(sid, cf, 2);
    }
    catch (const std::length_error &)
    {
      if (hasWrapLength(s, m)) { known(); return; }
      die("server:exception:length_error", d, n);
    }
    catch (...) { die("server:exception", d, n); }
    if (pass == 0) first = log;
    else if (first != log && validStream(s, m)) die("server:cut-dependence", d, n);
  }
}

extern "C" int LLVMFuzzerTestOneInput(const uint8_t *data, size_t size)
{
  static int target = [] { const char *t = getenv("C18_FUZZ_TARGET"); return (t && !strcmp(t, "server")) ? 1 : 0; }();
  if (target == 0) fuzzFrame(data, size);
  else fuzzServer(data, size);
  return 0;
}
