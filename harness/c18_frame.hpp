// /verif/harness/c18_frame.hpp — C18 `frame` mode: direct calls to the public
// WebSocketFrame::parse / serialize.
//   (a) --count N seeded random frames: serialize -> parse back == frame, consumed == own length
//       (also with the next frame's bytes appended), every truncation is "incomplete" (nullopt,
//       consumed 0), never "complete", never an exception.
//   (b) --cases FILE lines from the Python reference codec:
//         S <id> <fin> <opcode> <maskhex|-> <payloadhex>   build + serialize here; Python compares the bytes
//                                                          with its own encoder and the parsed-back fields
//         P <id> <wirehex>                                 bytes from the Python encoder; report parse result
//         H <id> <hclass> <wirehex>                        hostile header: status / exception / allocation
#pragma once
#include "c18_common.hpp"
#include "iora/network/websocket_frame.hpp"

namespace c18
{
using iora::network::WebSocketFrame;
using iora::network::WsOpcode;

struct ParseRes
{
  int status = 0; // 0 incomplete, 1 complete, 2 exception
  std::string exc;
  size_t consumed = 0;
  std::optional<WebSocketFrame> f;
};
static inline ParseRes tryParse(const uint8_t *p, size_t n)
{
  ParseRes r;
  try
  {
    size_t consumed = 12345;
    auto f = WebSocketFrame::parse(iora::core::BufferView(p, n), consumed);
    r.consumed = consumed;
    if (f) { r.status = 1; r.f = std::move(f); }
  }
  catch (const std::exception &e) { r.status = 2; r.exc = std::string(typeid(e).name()) + ": " + e.what(); }
  catch (...) { r.status = 2; r.exc = "unknown exception"; }
  return r;
}
static inline std::string frameJson(const WebSocketFrame &f, size_t consumed)
{
  return "{\"fin\":" + std::string(f.fin ? "1" : "0") + ",\"op\":" + std::to_string((int)f.opcode) + ",\"masked\":" + (f.masked ? "1" : "0") +
         ",\"key\":\"" + vf::hex(f.maskKey, 4) + "\",\"plen\":" + std::to_string(f.payload.size()) + ",\"psha\":\"" +
         sha1hex(f.payload.data(), f.payload.size()) + "\",\"consumed\":" + std::to_string(consumed) + "}";
}
// every strict prefix must be "incomplete"; returns number of prefixes tried. For long frames:
// all prefixes inside the header region, the last few, and seeded samples in the payload.
static inline size_t truncations(const std::vector<uint8_t> &wire, vf::Rng &rng, const std::string &cls, const std::string &what)
{
  size_t L = wire.size(), tried = 0;
  auto one = [&](size_t k) {
    // exact-size copy so that ASan sees any read past the prefix
    std::vector<uint8_t> cut(wire.begin(), wire.begin() + k);
    ParseRes r = tryParse(cut.data(), cut.size());
    tried++;
    if (r.status == 1)
      vf::out().viol("C18:frame:" + cls + ":truncation-reported-complete", "a strict prefix of one serialized frame was parsed as a complete frame",
                     "{\"frame\":" + vf::jstr(what) + ",\"prefix\":" + std::to_string(k) + ",\"of\":" + std::to_string(L) + ",\"consumed\":" + std::to_string(r.consumed) +
                       ",\"head\":\"" + vf::hex(wire.data(), std::min<size_t>(L, 16)) + "\"}");
    else if (r.status == 2)
      vf::out().viol("C18:frame:" + cls + ":truncation-exception", "parse of a strict prefix of one serialized frame threw: " + r.exc,
                     "{\"frame\":" + vf::jstr(what) + ",\"prefix\":" + std::to_string(k) + ",\"of\":" + std::to_string(L) + "}");
    else if (r.consumed != 0)
      vf::out().viol("C18:frame:" + cls + ":incomplete-but-consumed", "parse returned incomplete but set consumed != 0",
                     "{\"frame\":" + vf::jstr(what) + ",\"prefix\":" + std::to_string(k) + ",\"consumed\":" + std::to_string(r.consumed) + "}");
  };
  if (L <= 320) { for (size_t k = 0; k < L; k++) one(k); }
  else
  {
    for (size_t k = 0; k < 20; k++) one(k);
    for (size_t k = L - 4; k < L; k++) one(k);
    for (int j = 0; j < 12; j++) one((size_t)rng.range(20, L - 5));
  }
  return tried;
}
static inline const char *bucket(size_t n)
{
  if (n == 0) return "0"; if (n < 125) return "<125"; if (n == 125) return "125"; if (n == 126) return "126"; if (n == 127) return "127";
  if (n < 65535) return "<65535"; if (n == 65535) return "65535"; if (n == 65536) return "65536"; return ">65536";
}

static inline size_t pickLen(vf::Rng &r, bool control, bool bigOk)
{
  static const size_t edges[] = {0, 1, 2, 3, 4, 5, 7, 8, 123, 124, 125};
  static const size_t edges2[] = {126, 127, 128, 129, 255, 256, 1000};
  static const size_t edges3[] = {65534, 65535, 65536, 65537, 70000};
  if (control) return r.chance(0.5) ? edges[r.below(11)] : (size_t)r.range(0, 125);
  double x = double(r.below(1000)) / 1000.0;
  if (x < 0.3) return edges[r.below(11)];
  if (x < 0.5) return edges2[r.below(7)];
  if (x < 0.85) return (size_t)r.range(0, 400);
  if (x < 0.93 || !bigOk) return (size_t)r.range(400, 5000);
  return edges3[r.below(5)];
}

static inline void randomRoundTrips(uint64_t seed, uint64_t from, uint64_t count)
{
  static const WsOpcode ops[] = {WsOpcode::CONTINUATION, WsOpcode::TEXT, WsOpcode::BINARY, WsOpcode::CLOSE, WsOpcode::PING, WsOpcode::PONG};
  std::vector<uint8_t> prevWire;
  for (uint64_t i = from; i < from + count; i++)
  {
    vf::Rng r(seed, i);
    WebSocketFrame f;
    f.opcode = ops[r.below(6)];
    bool control = iora::network::isControlFrame(f.opcode);
    f.fin = control ? true : r.chance(0.6);
    size_t n = pickLen(r, control, (i % 4) == 0);
    f.payload.resize(n);
    uint64_t fill = r.next();
    for (size_t k = 0; k < n; k++) { if ((k & 7) == 0) fill = fill * 6364136223846793005ull + 1442695040888963407ull; f.payload[k] = uint8_t(fill >> ((k & 7) * 8)); }
    bool masked = r.chance(0.5);
    if (masked)
    {
      uint64_t k = r.next();
      int sp = (int)r.below(12);
      for (int q = 0; q < 4; q++) f.maskKey[q] = sp == 0 ? 0 : sp == 1 ? 0xFF : uint8_t(k >> (q * 8));
    }
    std::string what = std::string("op=") + std::to_string((int)f.opcode) + " fin=" + (f.fin ? "1" : "0") + " len=" + std::to_string(n) + (masked ? " masked" : "");
    std::string cls = std::string(control ? "control" : "data") + ":len" + bucket(n) + (masked ? ":masked" : ":unmasked");
    std::vector<uint8_t> wire;
    try { wire = f.serialize(masked); }
    catch (const std::exception &e)
    {
      vf::out().viol("C18:frame:" + cls + ":serialize-exception", std::string("serialize threw: ") + e.what(), "{\"frame\":" + vf::jstr(what) + "}");
      continue;
    }
    // expected wire length from RFC 6455 §5.2 (independent of the code under test)
    size_t hdr = 2 + (n <= 125 ? 0 : n <= 0xFFFF ? 2 : 8) + (masked ? 4 : 0);
    if (wire.size() != hdr + n)
      vf::out().viol("C18:frame:" + cls + ":serialized-length", "serialize produced " + std::to_string(wire.size()) + " bytes, RFC 6455 framing needs " + std::to_string(hdr + n),
                     "{\"frame\":" + vf::jstr(what) + "}");
    for (int pass = 0; pass < 2; pass++)
    {
      std::vector<uint8_t> buf = wire;
      if (pass == 1)
      {
        if (prevWire.empty()) break;
        buf.insert(buf.end(), prevWire.begin(), prevWire.begin() + std::min<size_t>(prevWire.size(), 64)); // bytes of a following frame
      }
      ParseRes p = tryParse(buf.data(), buf.size());
      const char *when = pass ? "followed-by-next-frame" : "alone";
      if (p.status != 1)
      {
        vf::out().viol("C18:frame:" + cls + (p.status == 2 ? ":roundtrip-exception" : ":roundtrip-incomplete"),
                       std::string("parse(serialize(f)) ") + (p.status == 2 ? "threw " + p.exc : "reported incomplete") + " (" + when + ")",
                       "{\"frame\":" + vf::jstr(what) + ",\"head\":\"" + vf::hex(wire.data(), std::min<size_t>(wire.size(), 16)) + "\"}");
        continue;
      }
      const WebSocketFrame &g = *p.f;
      std::string diff;
      if (g.fin != f.fin) diff += "fin ";
      if (g.opcode != f.opcode) diff += "opcode ";
      if (g.masked != masked) diff += "masked ";
      if (masked && memcmp(g.maskKey, f.maskKey, 4) != 0) diff += "maskKey ";
      if (g.payload != f.payload)
      {
        size_t at = 0;
        while (at < g.payload.size() && at < f.payload.size() && g.payload[at] == f.payload[at]) at++;
        diff += "payload(len " + std::to_string(g.payload.size()) + " vs " + std::to_string(f.payload.size()) + ", first difference at " + std::to_string(at) + ") ";
      }
      if (!diff.empty())
        vf::out().viol("C18:frame:" + cls + ":roundtrip-mismatch", "parse(serialize(f)) != f: " + diff + "(" + when + ")",
                       "{\"frame\":" + vf::jstr(what) + ",\"head\":\"" + vf::hex(wire.data(), std::min<size_t>(wire.size(), 16)) + "\"}");
      if (p.consumed != wire.size())
        vf::out().viol("C18:frame:" + cls + ":consumed-mismatch", "parse consumed " + std::to_string(p.consumed) + " bytes of a " + std::to_string(wire.size()) + "-byte frame (" + when + ")",
                       "{\"frame\":" + vf::jstr(what) + "}");
    }
    size_t t = truncations(wire, r, cls, what);
    vf::out().obs("frame:roundtrips");
    vf::out().obs("frame:truncations_checked", t);
    vf::out().obs(std::string("frame:len_form_") + (n <= 125 ? "7bit" : n <= 0xFFFF ? "16bit" : "64bit"));
    vf::out().caseSig(vf::fnv(cls + ":" + std::to_string((int)f.opcode) + (f.fin ? "F" : "f")));
    if (i < from + 2) vf::out().sample("{\"mode\":\"frame\",\"frame\":" + vf::jstr(what) + ",\"wire_len\":" + std::to_string(wire.size()) + ",\"truncations\":" + std::to_string(t) + "}");
    prevWire.swap(wire);
  }
}

static inline void frameCases(const std::string &path, uint64_t seed)
{
  std::string all = vf::readFile(path);
  vf::Rng rng(seed, 77);
  for (auto &ln : split(all, '\n'))
  {
    if (ln.empty()) continue;
    auto f = split(ln, '\t');
    if (f[0] == "S" && f.size() >= 6)
    {
      WebSocketFrame fr;
      fr.fin = f[2] == "1";
      fr.opcode = (WsOpcode)atoi(f[3].c_str());
      bool masked = f[4] != "-";
      if (masked) { std::string k = vf::unhex(f[4]); memcpy(fr.maskKey, k.data(), 4); }
      std::string pl = vf::unhex(f[5]);
      fr.payload.assign(pl.begin(), pl.end());
      std::string rec = "{\"t\":\"fs\",\"id\":" + vf::jstr(f[1]);
      try
      {
        auto wire = fr.serialize(masked);
        rec += ",\"wire_len\":" + std::to_string(wire.size()) + ",\"wire_sha\":\"" + sha1hex(wire.data(), wire.size()) + "\",\"head\":\"" +
               vf::hex(wire.data(), std::min<size_t>(wire.size(), 20)) + "\"";
        ParseRes p = tryParse(wire.data(), wire.size());
        rec += ",\"status\":" + std::to_string(p.status);
        if (p.status == 1) rec += ",\"parsed\":" + frameJson(*p.f, p.consumed);
        if (p.status == 2) rec += ",\"exc\":" + vf::jstr(p.exc);
      }
      catch (const std::exception &e) { rec += ",\"status\":2,\"exc\":" + vf::jstr(std::string("serialize: ") + e.what()); }
      vf::out().line(rec + "}");
      vf::out().obs("frame:reference_serialize_checks");
    }
    else if (f[0] == "P" && f.size() >= 3)
    {
      std::string w = vf::unhex(f[2]);
      std::vector<uint8_t> wire(w.begin(), w.end());
      ParseRes p = tryParse(wire.data(), wire.size());
      std::string rec = "{\"t\":\"fp\",\"id\":" + vf::jstr(f[1]) + ",\"status\":" + std::to_string(p.status);
      if (p.status == 1)
      {
        rec += ",\"parsed\":" + frameJson(*p.f, p.consumed);
        // re-serialize with the parsed key: must reproduce the bytes (the encoder only emits minimal length forms)
        try
        {
          auto again = p.f->serialize(p.f->masked);
          rec += ",\"reser_sha\":\"" + sha1hex(again.data(), again.size()) + "\"";
        }
        catch (...) { rec += ",\"reser_sha\":\"exception\""; }
      }
      if (p.status == 2) rec += ",\"exc\":" + vf::jstr(p.exc);
      size_t t = truncations(wire, rng, "reference-frame", f[1]);
      vf::out().obs("frame:truncations_checked", t);
      vf::out().obs("frame:reference_parse_checks");
      vf::out().line(rec + "}");
    }
    else if (f[0] == "H" && f.size() >= 4)
    {
      std::string w = vf::unhex(f[3]);
      std::string rec = "{\"t\":\"fh\",\"id\":" + vf::jstr(f[1]) + ",\"hclass\":" + vf::jstr(f[2]) + ",\"avail\":" + std::to_string(w.size());
      // full bytes and every prefix: status, exception, biggest single allocation
      int worst = 0; std::string exc; size_t excAt = 0, completeAt = 0, consumed = 0, plen = 0; uint64_t maxAlloc = 0; int completes = 0;
      for (size_t k = w.size() + 1; k-- > 0;)
      {
        std::vector<uint8_t> cut(w.begin(), w.begin() + k);
        mem::begin();
        ParseRes p = tryParse(cut.data(), cut.size());
        mem::end();
        maxAlloc = std::max<uint64_t>(maxAlloc, mem::maxSingle.load());
        if (p.status == 2 && worst < 2) { worst = 2; exc = p.exc; excAt = k; }
        if (p.status == 1)
        {
          completes++;
          if (k == w.size()) { consumed = p.consumed; plen = p.f->payload.size(); completeAt = k; if (worst < 1) worst = 1; }
          if (p.consumed > k)
            vf::out().viol("C18:frame:" + f[2] + ":consumed-beyond-input", "parse reported a complete frame consuming more bytes than were given",
                           "{\"id\":" + vf::jstr(f[1]) + ",\"given\":" + std::to_string(k) + ",\"consumed\":" + std::to_string(p.consumed) + "}");
        }
      }
      rec += ",\"status\":" + std::to_string(worst) + ",\"exc\":" + (exc.empty() ? "null" : vf::jstr(exc)) + ",\"exc_at\":" + std::to_string(excAt) +
             ",\"consumed\":" + std::to_string(consumed) + ",\"plen\":" + std::to_string(plen) + ",\"complete_prefixes\":" + std::to_string(completes) +
             ",\"max_alloc\":" + std::to_string(maxAlloc) + "}";
      (void)completeAt;
      vf::out().obs("frame:hostile_headers");
      vf::out().line(rec);
    }
  }
}

} // namespace c18
