// /verif/harness/c12_clock.hpp — wall-clock control for the KVStore harnesses (C12, reusable by C11).
//
// Layered on the shared clock shim (harness/shim/shims.hpp with VF_SHIM_CLOCK): the shim *offsets*
// CLOCK_REALTIME and CLOCK_MONOTONIC independently but cannot stop them. KVStore reads its expiry
// clock only through std::chrono::system_clock::now(); this header defines that function in the
// harness executable (it is declared, not defined, in <chrono>; the executable's definition is
// the one iora's header code binds to) so the harness can additionally FREEZE the wall clock at an
// exact nanosecond value. With the clock frozen, "exactly at the expiry instant" is a reachable
// state and every history replays bit-for-bit, independent of machine load. When not frozen the
// function falls through to clock_gettime(CLOCK_REALTIME), i.e. to the shared shim's offset clock.
//
// Include AFTER `#define VF_SHIM_CLOCK` + "shim/shims.hpp", in exactly one TU.
//   c12clk::freezeRealMs(ms) / freezeRealNs(ns)   stop system_clock at that instant (also moves the
//                                                 shim's REALTIME offset so both views agree)
//   c12clk::unfreeze()                            let system_clock run again from the frozen value
//   c12clk::nowRealNs() / nowRealMs()             what KVStore sees right now
//   c12clk::advanceMonoMs(ms)                     push steady_clock forward (the TimingWheel's clock)
//   c12clk::jumpRealMs(ms)                        running (unfrozen) clock: add to the REALTIME offset
#pragma once
#include <atomic>
#include <chrono>
#include <cstdint>

#ifndef VF_SHIM_CLOCK
#error "c12_clock.hpp needs VF_SHIM_CLOCK and shim/shims.hpp included first"
#endif

namespace c12clk {

inline std::atomic<int64_t> &frozenNs() { static std::atomic<int64_t> v{0}; return v; }

inline int64_t rawRealNs()
{
  struct timespec ts;
  syscall(SYS_clock_gettime, CLOCK_REALTIME, &ts);
  return int64_t(ts.tv_sec) * 1000000000ll + ts.tv_nsec;
}
inline int64_t shimRealNs()
{
  struct timespec ts;
  clock_gettime(CLOCK_REALTIME, &ts); // the shim's definition (offset applied)
  return int64_t(ts.tv_sec) * 1000000000ll + ts.tv_nsec;
}
inline int64_t nowRealNs()
{
  int64_t f = frozenNs().load(std::memory_order_acquire);
  return f ? f : shimRealNs();
}
inline int64_t nowRealMs() { return nowRealNs() / 1000000; }
inline void freezeRealNs(int64_t ns)
{
  vf::shim::clockPolicy().realOffsetNs.store(ns - rawRealNs(), std::memory_order_relaxed);
  frozenNs().store(ns, std::memory_order_release);
}
inline void freezeRealMs(int64_t ms) { freezeRealNs(ms * 1000000); }
inline void unfreeze()
{
  int64_t f = frozenNs().load();
  if (f) vf::shim::clockPolicy().realOffsetNs.store(f - rawRealNs(), std::memory_order_relaxed);
  frozenNs().store(0, std::memory_order_release);
}
inline void jumpRealMs(int64_t ms)
{
  vf::shim::clockPolicy().realOffsetNs.fetch_add(ms * 1000000, std::memory_order_relaxed);
}
inline void advanceMonoMs(int64_t ms)
{
  vf::shim::clockPolicy().monoOffsetNs.fetch_add(ms * 1000000, std::memory_order_relaxed);
}

} // namespace c12clk

// The wall clock iora sees. (system_clock lives in the inline namespace std::chrono::_V2.)
std::chrono::system_clock::time_point std::chrono::system_clock::now() noexcept
{
  return time_point(std::chrono::duration_cast<duration>(std::chrono::nanoseconds(c12clk::nowRealNs())));
}
