// C16 harness: a real iora HttpServer (real Transport, real worker pool) driven by raw-socket
// clients that send sequential and pipelined request sequences. Every request carries a unique
// token that the handler echoes in a header (X-Token) and in the body. The raw client records the
// whole byte stream of each connection (hex) with EOF kind/timing and dumps one JSON line per
// connection. NOTHING is judged here: the verdict is computed by lib/props/c16.py with the
// independent reference response framer lib/c16_respframer.py. The small "pacer" below only
// decides when the client may stop reading / send the next batch; it never produces a verdict.
#define VF_SHIM_SOCKIO
#include "shim/shims.hpp"
#include "vf.hpp"

#include <iora/network/http_server.hpp>

#include <arpa/inet.h>
#include <netinet/in.h>
#include <netinet/tcp.h>
#include <poll.h>
#include <sys/socket.h>

#include <algorithm>
#include <memory>
#include <unordered_map>

using iora::network::HttpServer;
using Request = HttpServer::Request;
using Response = HttpServer::Response;

// --------------------------------------------------------------------------- handler log
struct HEntry { uint64_t enter = 0, exit = 0; uint32_t calls = 0; };
struct HLog
{
  std::mutex m;
  std::unordered_map<std::string, HEntry> e;
  void enter(const std::string &t) { uint64_t n = vf::nowNs(); std::lock_guard<std::mutex> g(m); auto &x = e[t]; x.calls++; if (!x.enter) x.enter = n; }
  void exit(const std::string &t) { uint64_t n = vf::nowNs(); std::lock_guard<std::mutex> g(m); e[t].exit = n; }
  HEntry get(const std::string &t) { std::lock_guard<std::mutex> g(m); auto it = e.find(t); return it == e.end() ? HEntry{} : it->second; }
  void clear() { std::lock_guard<std::mutex> g(m); e.clear(); }
  void erase(const std::string &t) { std::lock_guard<std::mutex> g(m); e.erase(t); }
};
static HLog gLog;
// race mode: the handler of request A publishes the moment it returns, so the client thread of that
// connection can place request B at a seeded offset right behind it (handler code is harness code)
static std::atomic<uint64_t> gHandlerExitNs[64];
struct HGuard
{
  std::string t;
  explicit HGuard(const std::string &tok) : t(tok) { gLog.enter(t); }
  ~HGuard() { gLog.exit(t); }
};

// body = ("tok=<token>;" + (token + "|")*)[:n], n >= len(prefix). Python recomputes it.
static std::string mkBody(const std::string &tok, size_t n)
{
  std::string b = "tok=" + tok + ";";
  if (n < b.size()) n = b.size();
  const std::string unit = tok + "|";
  b.reserve(n + unit.size());
  while (b.size() < n) b += unit;
  b.resize(n);
  return b;
}
static uint64_t qnum(const Request &req, const char *k, uint64_t d)
{
  auto it = req.params.find(k);
  return it == req.params.end() ? d : strtoull(it->second.c_str(), nullptr, 10);
}
static std::string qstr(const Request &req, const char *k)
{
  auto it = req.params.find(k);
  return it == req.params.end() ? std::string() : it->second;
}

static void registerRoutes(HttpServer &srv, bool defHandler)
{
  auto plain = [](int status)
  {
    return [status](const Request &req, Response &res)
    {
      std::string tok = qstr(req, "tok");
      HGuard g(tok);
      res.set_header("X-Token", tok);
      vf::sleepMs(double(qnum(req, "ms", 0)));
      res.status = status;
      res.set_content(mkBody(tok, size_t(qnum(req, "n", 0))), "text/plain");
      uint64_t slot = qnum(req, "slot", 64);
      if (slot < 64)
      {
        // publish when this handler will return, then run exactly that long (a short, busy handler)
        uint64_t t1 = vf::nowNs() + qnum(req, "spin", 0) * 1000;
        gHandlerExitNs[slot].store(t1);
        while (vf::nowNs() < t1) { }
      }
    };
  };
  srv.onGet("/w/:tok", plain(200));
  srv.onGet("/big/:tok", plain(200));
  srv.onPut("/put/:tok", plain(200));
  srv.onPatch("/patch/:tok", plain(200));
  srv.onDelete("/del/:tok", plain(200));
  srv.onPost("/create/:tok", plain(201));
  srv.onPost("/echo/:tok", [](const Request &req, Response &res)
  {
    std::string tok = qstr(req, "tok");
    HGuard g(tok);
    res.set_header("X-Token", tok);
    vf::sleepMs(double(qnum(req, "ms", 0)));
    char buf[96];
    snprintf(buf, sizeof buf, "len=%zu;fnv=%016" PRIx64 ";", req.body.size(), vf::fnv(req.body));
    res.set_content("tok=" + tok + ";" + buf, "text/plain");
  });
  srv.onGet("/throw/:tok", [](const Request &req, Response &res)
  {
    std::string tok = qstr(req, "tok");
    HGuard g(tok);
    res.set_header("X-Token", tok);
    res.set_content(mkBody(tok, 64), "text/plain"); // partially built response, then the throw
    vf::sleepMs(double(qnum(req, "ms", 0)));
    if (qstr(req, "t") == "int") throw 42;
    throw std::runtime_error("c16 handler failure " + tok);
  });
  // 204 / 304 written the way the project's own tests write a body-less status: the handler
  // clears the inherited default body and its length/type headers.
  auto bodyless = [](int status)
  {
    return [status](const Request &req, Response &res)
    {
      std::string tok = qstr(req, "tok");
      HGuard g(tok);
      res.set_header("X-Token", tok);
      vf::sleepMs(double(qnum(req, "ms", 0)));
      res.status = status;
      res.body.clear();
      res.headers.erase("Content-Length");
      res.headers.erase("Content-Type");
    };
  };
  srv.onGet("/s204/:tok", bodyless(204));
  srv.onGet("/s304/:tok", bodyless(304));
  // "stale body": the handler builds a representation with set_content() and then ends with a
  // status that cannot carry content (the build-then-downgrade-to-304 pattern of the project's own
  // SR-18 test; a 204 after the body was filled in). Whatever the handler left in res.body, a
  // 204/304 response and every response to HEAD must put no body bytes on the wire.
  auto staleBody = [](const Request &req, Response &res)
  {
    std::string tok = qstr(req, "tok");
    HGuard g(tok);
    res.set_header("X-Token", tok);
    vf::sleepMs(double(qnum(req, "ms", 0)));
    res.set_content(mkBody(tok, size_t(qnum(req, "n", 0))), "text/plain");
    res.status = int(qnum(req, "st", 304));
  };
  srv.onGet("/sb/:tok", staleBody);
  srv.onPost("/sbp/:tok", staleBody);
  // only the status is set: the response keeps whatever the dispatcher pre-filled
  srv.onGet("/naive/:tok", [](const Request &req, Response &res)
  {
    std::string tok = qstr(req, "tok");
    HGuard g(tok);
    res.set_header("X-Token", tok);
    res.status = int(qnum(req, "st", 204));
  });
  if (defHandler)
  {
    srv.setDefaultHandler([](const Request &req, Response &res)
    {
      std::string tok;
      auto p = req.path.rfind('/');
      if (p != std::string::npos) tok = req.path.substr(p + 1);
      HGuard g(tok);
      res.set_header("X-Token", tok);
      vf::sleepMs(double(qnum(req, "ms", 0)));
      res.set_content(mkBody(tok, 48), "text/plain");
      res.status = int(qnum(req, "st", 404)); // 404, or a body-less status with the body left in place
    });
  }
}

// --------------------------------------------------------------------------- requests
struct Req
{
  std::string kind, method, token, raw, mal, closeHdr;
  unsigned ms = 0;
  size_t n = 0;
  bool close = false;
  std::string thr; // "std" | "int" for kind throw
};

static const char *MAL_KINDS[] = {"noversion", "badmethod", "unkmethod", "badversion", "http2", "nohost",
                                  "obsfold", "ctl", "badcl", "hugecl", "garbage", "twospaces", "duphost",
                                  "badte", "conflictcl", "badcl", "hugecl"};

static std::string buildMalformed(const std::string &mk, const std::string &tok, vf::Rng &rng)
{
  const std::string host = "Host: c16\r\n";
  const std::string x = "X-Req: " + tok + "\r\n";
  if (mk == "noversion") return "GET /w/" + tok + "\r\n" + host + x + "\r\n";
  if (mk == "badmethod") return "G@T /w/" + tok + " HTTP/1.1\r\n" + host + x + "\r\n";
  if (mk == "unkmethod") return "BREW /w/" + tok + " HTTP/1.1\r\n" + host + x + "\r\n";
  if (mk == "badversion") return "GET /w/" + tok + " HTTP/1.1x\r\n" + host + x + "\r\n";
  if (mk == "http2") return "GET /w/" + tok + " HTTP/2.0\r\n" + host + x + "\r\n";
  if (mk == "nohost") return "GET /w/" + tok + " HTTP/1.1\r\n" + x + "\r\n";
  if (mk == "obsfold") return "GET /w/" + tok + " HTTP/1.1\r\n" + host + "X-Fold: a\r\n  folded\r\n" + x + "\r\n";
  if (mk == "ctl") return "GET /w/" + tok + "\x01zz HTTP/1.1\r\n" + host + x + "\r\n";
  if (mk == "badcl") return "POST /echo/" + tok + " HTTP/1.1\r\n" + host + x + "Content-Length: abc\r\n\r\n";
  if (mk == "hugecl") return "POST /echo/" + tok + " HTTP/1.1\r\n" + host + x + "Content-Length: 99999999999\r\n\r\n";
  if (mk == "badte") return "POST /echo/" + tok + " HTTP/1.1\r\n" + host + x + "Transfer-Encoding: gzip\r\n\r\n";
  if (mk == "conflictcl") return "POST /echo/" + tok + " HTTP/1.1\r\n" + host + x + "Content-Length: 3\r\nContent-Length: 5\r\n\r\n";
  if (mk == "twospaces") return "GET  /w/" + tok + " HTTP/1.1\r\n" + host + x + "\r\n";
  if (mk == "duphost") return "GET /w/" + tok + " HTTP/1.1\r\n" + host + "Host: other\r\n" + x + "\r\n";
  // garbage: bytes without CR, LF or ':' then the header terminator
  std::string g;
  size_t len = size_t(rng.range(3, 60));
  for (size_t i = 0; i < len; i++)
  {
    unsigned char c;
    do { c = (unsigned char)rng.below(256); } while (c == '\r' || c == '\n' || c == ':');
    g += char(c);
  }
  return g + "\r\n\r\n";
}

struct Profile
{
  bool slow = false;       // few connections, very large bodies, slow readers
  size_t bigMax = 262144;
  unsigned maxConn = 32;
};

static Req genReq(vf::Rng &rng, const std::string &tok, bool pipelined, bool defHandler, const Profile &pf)
{
  Req r;
  r.token = tok;
  r.ms = unsigned(rng.below(21));
  if (rng.chance(0.35)) r.ms = 0;
  // body size: mostly small, sometimes medium
  r.n = size_t(rng.below(300));
  if (rng.chance(0.12)) r.n = size_t(rng.range(1000, 9000));
  unsigned k = unsigned(rng.below(100));
  if (pf.slow) k = (k < 70) ? 75 : k % 40; // mostly "big"
  std::string path, body;
  if (k < 40) { r.kind = "w"; r.method = "GET"; path = "/w/" + tok; }
  else if (k < 52) { r.kind = "echo"; r.method = "POST"; path = "/echo/" + tok; }
  else if (k < 58)
  {
    static const char *kk[] = {"put", "patch", "del"};
    static const char *mm[] = {"PUT", "PATCH", "DELETE"};
    unsigned i = unsigned(rng.below(3));
    r.kind = kk[i]; r.method = mm[i]; path = std::string("/") + kk[i] + "/" + tok;
  }
  else if (k < 66) { r.kind = "throw"; r.method = "GET"; path = "/throw/" + tok; r.thr = rng.chance(0.3) ? "int" : "std"; }
  else if (k < 70) { r.kind = "s204"; r.method = "GET"; path = "/s204/" + tok; }
  else if (k < 73) { r.kind = "s304"; r.method = "GET"; path = "/s304/" + tok; }
  else if (k < 77)
  {
    r.kind = "big"; r.method = "GET"; path = "/big/" + tok;
    static const double fr[] = {0.07, 0.2, 0.45, 1.0};
    r.n = size_t(double(pf.bigMax) * fr[rng.below(4)]) + size_t(rng.below(977));
  }
  else if (k < 80) { r.kind = "create"; r.method = "POST"; path = "/create/" + tok; }
  else if (k < 87) { r.kind = "nope"; static const char *mm[] = {"GET", "POST", "DELETE", "OPTIONS"}; r.method = mm[rng.below(4)]; path = "/nope/" + tok; }
  else if (k < 93)
  {
    r.kind = "m405";
    if (!pipelined && rng.chance(0.5)) { r.method = "HEAD"; path = "/echo/" + tok; } // HEAD x 405 (token-less: sequential only)
    else if (rng.chance(0.5)) { r.method = rng.chance(0.5) ? "POST" : "DELETE"; path = "/w/" + tok; }
    else { r.method = rng.chance(0.5) ? "GET" : "PUT"; path = "/echo/" + tok; }
  }
  else if (k < 98) { r.kind = "options"; r.method = "OPTIONS"; path = (rng.chance(0.5) ? "/w/" : "/echo/") + tok; }
  else { r.kind = "optstar"; r.method = "OPTIONS"; path = "*"; }
  // (method x status x handler-body) combinations whose response must be body-less although the
  // handler left a body in the response object
  std::string st;
  if (!pf.slow && rng.chance(0.10))
  {
    unsigned v = unsigned(rng.below(defHandler ? 8 : 6));
    r.thr.clear();
    if (v == 0) { r.kind = "sb204"; r.method = "GET"; path = "/sb/" + tok; st = "204"; }
    else if (v == 1) { r.kind = "sb304"; r.method = "GET"; path = "/sb/" + tok; st = "304"; }
    else if (v == 2) { r.kind = "sb204"; r.method = "HEAD"; path = "/sb/" + tok; st = "204"; }
    else if (v == 3) { r.kind = "sb304"; r.method = "HEAD"; path = "/sb/" + tok; st = "304"; }
    else if (v == 4) { r.kind = "sbp204"; r.method = "POST"; path = "/sbp/" + tok; st = "204"; }
    else if (v == 5) { r.kind = "naive204"; r.method = rng.chance(0.5) ? "GET" : "HEAD"; path = "/naive/" + tok; st = "204"; }
    else if (v == 6) { r.kind = "defsb304"; r.method = rng.chance(0.5) ? "GET" : "HEAD"; path = "/nope/" + tok; st = "304"; }
    else { r.kind = "defsb204"; r.method = rng.chance(0.5) ? "GET" : "HEAD"; path = "/nope/" + tok; st = "204"; }
    if (r.n < 24) r.n = 24 + size_t(rng.below(200));
  }

  // HEAD variants. A HEAD response without a token (built-in 404, 405) can only be attributed by
  // position, so those are sent on sequential connections only.
  if (st.empty() && r.method == "GET" && rng.chance(r.kind == "nope" ? 0.45 : 0.16))
  {
    bool tokenless = (r.kind == "m405") || (r.kind == "nope" && !defHandler);
    if (!tokenless || !pipelined) r.method = "HEAD";
  }
  if (r.kind == "m405" && r.method == "GET" && !pipelined && rng.chance(0.3)) r.method = "HEAD";

  if (r.method == "POST" || r.method == "PUT" || r.method == "PATCH")
  {
    size_t bl = size_t(rng.below(200));
    if (rng.chance(0.15)) bl = size_t(rng.range(500, 4096));
    body.resize(bl);
    for (auto &c : body) c = char('a' + rng.below(26));
  }
  std::string q;
  if (path != "*")
  {
    q = "?ms=" + std::to_string(r.ms) + "&n=" + std::to_string(r.n);
    if (r.kind == "throw") q += "&t=" + r.thr;
    if (!st.empty()) q += "&st=" + st;
  }
  r.raw = r.method + " " + path + q + " HTTP/1.1\r\nHost: c16\r\nX-Req: " + tok + "\r\n";
  if (!body.empty() || r.method == "POST" || r.method == "PUT" || r.method == "PATCH")
    r.raw += "Content-Length: " + std::to_string(body.size()) + "\r\n";
  r.raw += "\x01"; // placeholder for the Connection header, replaced by finishReq
  r.raw += "\r\n" + body;
  return r;
}
static void finishReq(Req &r, vf::Rng &rng, bool close)
{
  auto p = r.raw.find('\x01');
  std::string h;
  if (close)
  {
    r.close = true;
    unsigned v = unsigned(rng.below(50));
    if (v < 27) h = "Connection: close\r\n";
    else if (v < 37) h = "connection: close\r\n";
    else if (v < 47) h = "Connection: Close\r\n";
    else h = (v & 1) ? "Connection: keep-alive, close\r\n" : "Connection: TE, close\r\n"; // a list (RFC 9110 7.6.1)
    r.closeHdr = h.substr(0, h.size() - 2);
  }
  else if (rng.chance(0.2)) h = "Connection: keep-alive\r\n";
  if (p != std::string::npos) r.raw.replace(p, 1, h);
}

// --------------------------------------------------------------------------- connection plan
struct Conn
{
  int scn = 0, idx = 0;
  bool pipe = false;
  unsigned depth = 1;
  bool slow = false;
  unsigned slowUs = 0, readChunk = 65536;
  int rcvbuf = 0;
  std::vector<Req> reqs;
  // results
  std::string rx;
  std::string eof = "none";   // none | fin | rst
  std::string stop = "?";     // eof | settled | silence | no-eof | connect-failed
  uint64_t tConnect = 0, tLastSend = 0, tLastByte = 0, tEof = 0, tEnd = 0;
  std::vector<uint64_t> sendNs; // per request: time its last byte was written
  std::vector<size_t> rxAtSend; // per request: bytes received when it was written
  bool sendErr = false;
  unsigned segments = 0;
};

struct Timeouts { unsigned silenceMs = 8000, closeWaitMs = 4000, settleMs = 150; };

// --- pacer: counts complete responses so the client knows when to go on. NOT an oracle.
struct Pacer
{
  const std::unordered_map<std::string, bool> *tokHead = nullptr;
  const std::vector<bool> *posHead = nullptr;
  size_t off = 0;
  unsigned count = 0;
  bool atBoundary = true;
  std::vector<std::string> *toks = nullptr; // if set: X-Token of every counted response, in order
  static bool ieq(const std::string &a, const char *b)
  {
    size_t n = strlen(b);
    if (a.size() != n) return false;
    for (size_t i = 0; i < n; i++) if (tolower((unsigned char)a[i]) != b[i]) return false;
    return true;
  }
  void update(const std::string &rx)
  {
    for (;;)
    {
      if (off >= rx.size()) { atBoundary = true; return; }
      atBoundary = false;
      if (rx.compare(off, std::min<size_t>(7, rx.size() - off), std::string("HTTP/1.").substr(0, std::min<size_t>(7, rx.size() - off))) != 0)
      {
        size_t nx = rx.find("HTTP/1.", off + 1); // stray bytes: skip to the next status line, if any yet
        if (nx == std::string::npos) return;
        off = nx;
      }
      size_t he = rx.find("\r\n\r\n", off);
      if (he == std::string::npos) return;
      int status = 0;
      if (he - off >= 12) status = atoi(rx.substr(off + 9, 3).c_str());
      size_t cl = 0;
      std::string tok;
      size_t p = rx.find("\r\n", off);
      while (p != std::string::npos && p < he)
      {
        size_t q = rx.find("\r\n", p + 2);
        if (q == std::string::npos || q > he) q = he;
        std::string line = rx.substr(p + 2, q - p - 2);
        size_t c = line.find(':');
        if (c != std::string::npos)
        {
          std::string k = line.substr(0, c), v = line.substr(c + 1);
          while (!v.empty() && v[0] == ' ') v.erase(0, 1);
          if (ieq(k, "content-length")) cl = strtoull(v.c_str(), nullptr, 10);
          else if (ieq(k, "x-token")) tok = v;
        }
        p = q;
        if (q >= he) break;
      }
      bool head = false;
      if (!tok.empty() && tokHead) { auto it = tokHead->find(tok); if (it != tokHead->end()) head = it->second; }
      else if (posHead && count < posHead->size()) head = (*posHead)[count];
      size_t body = (head || status == 204 || status == 304 || (status >= 100 && status < 200)) ? 0 : cl;
      if (rx.size() < he + 4 + body) return;
      off = he + 4 + body;
      count++;
      if (toks) toks->push_back(status == 200 ? tok : std::string("?"));
    }
  }
};

static void runConn(Conn &c, int port, const Timeouts &to)
{
  vf::shim::tlsSockExempt = true; // the raw peer is never perturbed by the shim
  int fd = ::socket(AF_INET, SOCK_STREAM | SOCK_CLOEXEC, 0);
  if (fd < 0) { c.stop = "connect-failed"; return; }
  if (c.rcvbuf > 0) setsockopt(fd, SOL_SOCKET, SO_RCVBUF, &c.rcvbuf, sizeof(int));
  sockaddr_in a{};
  a.sin_family = AF_INET;
  a.sin_port = htons(uint16_t(port));
  inet_pton(AF_INET, "127.0.0.1", &a.sin_addr);
  bool ok = false;
  for (int tries = 0; tries < 50 && !ok; tries++)
  {
    if (::connect(fd, (sockaddr *)&a, sizeof a) == 0) ok = true;
    else vf::sleepMs(20);
  }
  if (!ok) { ::close(fd); c.stop = "connect-failed"; return; }
  int one = 1;
  setsockopt(fd, IPPROTO_TCP, TCP_NODELAY, &one, sizeof one);
  c.tConnect = vf::nowNs();

  std::unordered_map<std::string, bool> tokHead;
  std::vector<bool> posHead;
  for (auto &r : c.reqs) { tokHead[r.token] = (r.method == "HEAD"); posHead.push_back(r.method == "HEAD"); }
  Pacer pc;
  pc.tokHead = &tokHead;
  pc.posHead = &posHead;

  vf::Rng rng(vf::fnv(c.reqs.empty() ? std::string("x") : c.reqs[0].token), 77);
  std::vector<char> buf(std::max<size_t>(c.readChunk, 512));
  uint64_t lastProgress = vf::nowNs();
  bool done = false;

  // one read step; returns false on EOF/reset
  auto readStep = [&](int waitMs) -> bool
  {
    pollfd p{fd, POLLIN, 0};
    int pr = ::poll(&p, 1, waitMs);
    if (pr <= 0) return true;
    ssize_t n = ::recv(fd, buf.data(), c.readChunk, 0);
    if (n > 0)
    {
      c.rx.append(buf.data(), size_t(n));
      c.tLastByte = lastProgress = vf::nowNs();
      if (c.slowUs) vf::sleepMs(double(c.slowUs) / 1000.0);
      return true;
    }
    if (n == 0) { c.eof = "fin"; c.tEof = vf::nowNs(); return false; }
    if (errno == EINTR || errno == EAGAIN) return true;
    c.eof = "rst"; c.tEof = vf::nowNs();
    return false;
  };

  size_t sent = 0;
  const size_t nreq = c.reqs.size();
  c.sendNs.assign(nreq, 0);
  c.rxAtSend.assign(nreq, 0);
  while (sent < nreq && !done)
  {
    size_t batch = c.pipe ? std::min<size_t>(c.depth, nreq - sent) : 1;
    std::string wire;
    std::vector<size_t> ends;
    size_t cutLimit = 0; // cut points are drawn from [0, cutLimit]
    for (size_t i = sent; i < sent + batch; i++)
    {
      wire += c.reqs[i].raw;
      ends.push_back(wire.size());
      // The first request that makes the server close becomes complete only with the LAST
      // segment: bytes the client sends after the server has closed are answered with RST, which
      // may discard response bytes still queued in the server's kernel — a loss this client would
      // have caused itself. (Nothing is ever sent after a Connection: close request anyway.)
      if (cutLimit == 0 && (c.reqs[i].kind == "malformed" || c.reqs[i].close)) cutLimit = wire.size() - 1;
    }
    if (cutLimit == 0) cutLimit = wire.size();
    // write in 1..4 segments at arbitrary cut points (also inside a request)
    unsigned segs = 1 + unsigned(rng.below(c.pipe ? 4 : 2));
    std::vector<size_t> cuts;
    for (unsigned s = 1; s < segs; s++) cuts.push_back(size_t(rng.below(cutLimit + 1)));
    cuts.push_back(wire.size());
    std::sort(cuts.begin(), cuts.end());
    size_t w = 0;
    for (size_t cut : cuts)
    {
      while (w < cut)
      {
        ssize_t n = ::send(fd, wire.data() + w, cut - w, MSG_NOSIGNAL);
        if (n > 0) { w += size_t(n); continue; }
        if (n < 0 && (errno == EINTR)) continue;
        c.sendErr = true;
        break;
      }
      c.segments++;
      uint64_t now = vf::nowNs();
      for (size_t i = 0; i < ends.size(); i++)
        if (c.sendNs[sent + i] == 0 && w >= ends[i]) { c.sendNs[sent + i] = now; c.rxAtSend[sent + i] = c.rx.size(); }
      if (c.sendErr) break;
      if (cut != wire.size() && rng.chance(0.5)) vf::sleepMs(double(rng.below(3)));
    }
    sent += batch;
    c.tLastSend = lastProgress = vf::nowNs();
    // wait for the responses of everything sent so far
    for (;;)
    {
      pc.update(c.rx);
      if (pc.count >= sent && pc.atBoundary) break;
      // everything answered but stray bytes at the end and nothing more arriving: go on
      if (pc.count >= sent && vf::nowNs() - lastProgress > uint64_t(to.settleMs) * 2000000ull) break;
      if (!readStep(50)) { done = true; break; }
      if (vf::nowNs() - lastProgress > uint64_t(to.silenceMs) * 1000000ull) { c.stop = "silence"; done = true; break; }
    }
  }
  if (c.eof != "none") c.stop = "eof";
  else if (c.stop != "silence")
  {
    bool wantEof = !c.reqs.empty() && c.reqs.back().close;
    if (wantEof)
    {
      uint64_t t0 = vf::nowNs();
      c.stop = "no-eof";
      while (vf::nowNs() - t0 < uint64_t(to.closeWaitMs) * 1000000ull)
        if (!readStep(50)) { c.stop = "eof"; break; }
    }
    else
    {
      // settle: anything arriving after the expected responses (duplicates, stray bytes)?
      uint64_t quietSince = vf::nowNs(), t0 = quietSince;
      size_t have = c.rx.size();
      c.stop = "settled";
      while (vf::nowNs() - quietSince < uint64_t(to.settleMs) * 1000000ull && vf::nowNs() - t0 < 3000000000ull)
      {
        if (!readStep(25)) { c.stop = "eof"; break; }
        if (c.rx.size() != have) { have = c.rx.size(); quietSince = vf::nowNs(); }
      }
    }
  }
  c.tEnd = vf::nowNs();
  ::close(fd);
}

// --------------------------------------------------------------------------- scenario
static std::string jReq(const Req &r, const HEntry &h, uint64_t sendNs, size_t rxAtSend)
{
  std::string s = "{\"kind\":" + vf::jstr(r.kind) + ",\"method\":" + vf::jstr(r.method) + ",\"token\":" + vf::jstr(r.token) +
                  ",\"ms\":" + std::to_string(r.ms) + ",\"n\":" + std::to_string(r.n) +
                  ",\"close\":" + (r.close ? "1" : "0") + ",\"close_hdr\":" + vf::jstr(r.closeHdr) +
                  ",\"mal\":" + vf::jstr(r.mal) + ",\"thr\":" + vf::jstr(r.thr) +
                  ",\"hex\":\"" + vf::hex(r.raw) + "\"" +
                  ",\"sent_ns\":" + std::to_string(sendNs) + ",\"rx_at_send\":" + std::to_string(rxAtSend) +
                  ",\"h_enter\":" + std::to_string(h.enter) + ",\"h_exit\":" + std::to_string(h.exit) +
                  ",\"h_calls\":" + std::to_string(h.calls) + "}";
  return s;
}

static void emitConn(const Conn &cc, unsigned nconn, bool defHandler, uint32_t sendcap, const std::string &profile,
                     const std::string &extra = std::string())
{
  const Conn *c = &cc;
  auto &O = vf::out();
  std::string s = "{\"t\":\"conn\",\"scn\":" + std::to_string(c->scn) + ",\"conn\":" + std::to_string(c->idx) +
                  ",\"nconn\":" + std::to_string(nconn) +
                  ",\"pipe\":" + (c->pipe ? "1" : "0") + ",\"depth\":" + std::to_string(c->depth) +
                  ",\"slow\":" + (c->slow ? "1" : "0") + ",\"slow_us\":" + std::to_string(c->slowUs) +
                  ",\"read_chunk\":" + std::to_string(c->readChunk) + ",\"rcvbuf\":" + std::to_string(c->rcvbuf) +
                  ",\"defh\":" + (defHandler ? "1" : "0") + ",\"sendcap\":" + std::to_string(sendcap) +
                  ",\"profile\":" + vf::jstr(profile) +
                  ",\"eof\":" + vf::jstr(c->eof) + ",\"stop\":" + vf::jstr(c->stop) +
                  ",\"send_err\":" + (c->sendErr ? "1" : "0") + ",\"segments\":" + std::to_string(c->segments) +
                  ",\"t_connect\":" + std::to_string(c->tConnect) + ",\"t_last_send\":" + std::to_string(c->tLastSend) +
                  ",\"t_last_byte\":" + std::to_string(c->tLastByte) + ",\"t_eof\":" + std::to_string(c->tEof) +
                  ",\"t_end\":" + std::to_string(c->tEnd) + ",\"reqs\":[";
  for (size_t i = 0; i < c->reqs.size(); i++)
  {
    if (i) s += ",";
    s += jReq(c->reqs[i], gLog.get(c->reqs[i].token), i < c->sendNs.size() ? c->sendNs[i] : 0,
              i < c->rxAtSend.size() ? c->rxAtSend[i] : 0);
  }
  s += "],\"rx\":\"" + vf::hex(c->rx) + "\"}";
  s.insert(s.size() - 1, extra);
  O.line(s);
  O.obs("h_connections");
  O.obs("h_requests_sent", c->reqs.size());
}

// --------------------------------------------------------------------------- race mode
// "Request N+1 arrives just as response N is being finished": many rounds per keep-alive
// connection; each round writes request A, then request B in a separate write at a seeded offset
// (relative to sending A / to the measured response latency / to the first byte of response A),
// then reads both responses. Several such connections plus hammer connections run in parallel so
// the server's session bookkeeping is contended. A round whose answers stop arriving for stallMs
// while the connection stays open is a SUSPECT: the client then sends one more request (the kick)
// on the same connection and records what happened. The verdict is computed in lib/props/c16.py
// (reference framer on the dumped chunk + handler-entry times vs. kick time). To bound the volume
// only the first chunk of every connection, every chunk with an anomaly in the light in-order
// token check below, and every chunk with a stall suspect are dumped; the others are counted.
struct RaceCfg
{
  unsigned rounds = 4000, chunkRounds = 200, stallMs = 1000, silenceMs = 8000, hammers = 2;
};
static std::atomic<uint64_t> gProgress{0};
static std::atomic<bool> gRaceStop{false};

static int rawConnect(int port)
{
  int fd = ::socket(AF_INET, SOCK_STREAM | SOCK_CLOEXEC, 0);
  if (fd < 0) return -1;
  sockaddr_in a{};
  a.sin_family = AF_INET;
  a.sin_port = htons(uint16_t(port));
  inet_pton(AF_INET, "127.0.0.1", &a.sin_addr);
  for (int tries = 0; tries < 50; tries++)
  {
    if (::connect(fd, (sockaddr *)&a, sizeof a) == 0)
    {
      int one = 1;
      setsockopt(fd, IPPROTO_TCP, TCP_NODELAY, &one, sizeof one);
      return fd;
    }
    vf::sleepMs(20);
  }
  ::close(fd);
  return -1;
}
static bool sendAll(int fd, const std::string &d)
{
  size_t w = 0;
  while (w < d.size())
  {
    ssize_t n = ::send(fd, d.data() + w, d.size() - w, MSG_NOSIGNAL);
    if (n > 0) { w += size_t(n); continue; }
    if (n < 0 && errno == EINTR) continue;
    return false;
  }
  return true;
}
static inline void spinUntil(uint64_t tNs)
{
  uint64_t now = vf::nowNs();
  if (tNs > now + 200000) vf::sleepMs(double(tNs - now - 120000) / 1e6); // coarse part asleep, only the tail is spun
  while (vf::nowNs() < tNs) { }
}

static Req raceReq(const std::string &tok, unsigned ms, size_t n, int slot = -1)
{
  Req r;
  r.kind = "w"; r.method = "GET"; r.token = tok; r.ms = ms; r.n = n;
  r.raw = "GET /w/" + tok + "?ms=" + std::to_string(ms) + "&n=" + std::to_string(n) +
          (slot >= 0 ? "&slot=" + std::to_string(slot) + "&spin=120" : std::string()) + " HTTP/1.1\r\nHost: c16\r\n\r\n";
  return r;
}

static void hammerConn(int port, uint64_t seed, int hi)
{
  vf::shim::tlsSockExempt = true;
  int fd = rawConnect(port);
  if (fd < 0) return;
  std::string rx;
  std::vector<char> buf(65536);
  uint64_t k = 0;
  while (!gRaceStop.load())
  {
    std::string wire;
    std::vector<std::string> toks;
    for (int i = 0; i < 4; i++)
    {
      toks.push_back("h" + std::to_string(seed) + "x" + std::to_string(hi) + "r" + std::to_string(k++));
      wire += raceReq(toks.back(), 0, 40).raw;
    }
    if (!sendAll(fd, wire)) break;
    Pacer pc;
    rx.clear();
    uint64_t t0 = vf::nowNs();
    while (pc.count < 4 && vf::nowNs() - t0 < 10000000000ull)
    {
      pollfd p{fd, POLLIN, 0};
      if (::poll(&p, 1, 50) <= 0) continue;
      ssize_t n = ::recv(fd, buf.data(), buf.size(), 0);
      if (n <= 0) { if (n < 0 && (errno == EINTR || errno == EAGAIN)) continue; goto out; }
      rx.append(buf.data(), size_t(n));
      pc.update(rx);
    }
    for (auto &t : toks) gLog.erase(t);
    if (pc.count < 4) break;
    gProgress.fetch_add(4);
    vf::out().obs("race_hammer_requests", 4);
  }
out:
  ::close(fd);
}

static void raceConn(int scn, int ci, unsigned nconn, int port, const RaceCfg &cfg, uint64_t seed, bool defHandler,
                     uint32_t sendcap)
{
  auto &O = vf::out();
  vf::shim::tlsSockExempt = true;
  vf::Rng rng(seed, uint64_t(scn) * 1000 + uint64_t(ci) + 424242);
  int fd = rawConnect(port);
  Conn ch; // current chunk
  auto resetChunk = [&]()
  {
    ch = Conn();
    ch.scn = scn; ch.idx = ci; ch.pipe = true; ch.depth = 2;
    ch.tConnect = vf::nowNs();
  };
  resetChunk();
  if (fd < 0) { ch.stop = "connect-failed"; emitConn(ch, nconn, defHandler, sendcap, "race"); return; }
  std::vector<char> buf(65536);
  Pacer pc;
  std::vector<std::string> seenToks;
  pc.toks = &seenToks;
  uint64_t lastProgress = vf::nowNs();
  unsigned chunkIdx = 0;
  bool anomaly = false;
  std::vector<uint64_t> lat; // recent latencies send(A) -> first byte of response A (ns)
  uint64_t cls[5] = {0, 0, 0, 0, 0}, near100 = 0, bBeforeRespA = 0;
  unsigned stalls = 0;

  auto readStep = [&](int waitMs) -> bool
  {
    pollfd p{fd, POLLIN, 0};
    if (::poll(&p, 1, waitMs) <= 0) return true;
    ssize_t n = ::recv(fd, buf.data(), buf.size(), 0);
    if (n > 0) { ch.rx.append(buf.data(), size_t(n)); ch.tLastByte = lastProgress = vf::nowNs(); return true; }
    if (n == 0) { ch.eof = "fin"; ch.tEof = vf::nowNs(); return false; }
    if (errno == EINTR || errno == EAGAIN) return true;
    ch.eof = "rst"; ch.tEof = vf::nowNs();
    return false;
  };
  auto sendReq = [&](Req &&r) -> bool
  {
    bool ok = sendAll(fd, r.raw);
    ch.sendNs.push_back(vf::nowNs());
    ch.rxAtSend.push_back(ch.rx.size());
    ch.reqs.push_back(std::move(r));
    ch.tLastSend = ch.sendNs.back();
    if (!ok) ch.sendErr = true;
    return ok;
  };
  auto finishChunk = [&](bool force, const std::string &extra)
  {
    ch.tEnd = vf::nowNs();
    if (force || anomaly || chunkIdx == 0)
    {
      emitConn(ch, nconn, defHandler, sendcap, "race", ",\"chunk\":" + std::to_string(chunkIdx) + extra);
      O.obs("race_chunks_dumped");
    }
    else
      O.obs("race_rounds_light_checked_only", ch.reqs.size() / 2);
    for (auto &r : ch.reqs) gLog.erase(r.token);
    chunkIdx++;
    anomaly = false;
    resetChunk();
    pc = Pacer();
    seenToks.clear();
    pc.toks = &seenToks;
  };

  bool ended = false;
  for (unsigned r = 0; r < cfg.rounds && !ended; r++)
  {
    char tb[96];
    snprintf(tb, sizeof tb, "s%" PRIu64 "x%dc%dr%u", seed, scn, ci, r);
    std::string ta = std::string(tb) + "a", tbk = std::string(tb) + "b";
    unsigned msA = rng.chance(0.15) ? 1 : 0;
    unsigned c = 3;
    if (r >= 40) { unsigned v = unsigned(rng.below(100)); c = v < 60 ? 4 : (v < 80 ? 2 : (v < 90 ? 1 : 3)); }
    if (c == 2 && lat.size() < 8) c = 3;
    if (c == 4 && ci >= 64) c = 2;
    cls[c]++;
    size_t rxBeforeA = ch.rx.size();
    if (c == 4) gHandlerExitNs[ci].store(0);
    if (!sendReq(raceReq(ta, msA, 24 + size_t(rng.below(60)), c == 4 ? ci : -1))) { ch.stop = "eof"; break; }
    uint64_t tA = ch.sendNs.back();
    uint64_t delayUs = 0;
    if (c == 1) { delayUs = rng.below(301); spinUntil(tA + delayUs * 1000); }
    else if (c == 2)
    {
      std::vector<uint64_t> v(lat);
      std::nth_element(v.begin(), v.begin() + v.size() / 2, v.end());
      uint64_t med = v[v.size() / 2], x = rng.below(121) * 1000;
      delayUs = (med > x ? med - x : 0) / 1000;
      spinUntil(tA + delayUs * 1000);
    }
    else if (c == 4)
    {
      // B at a seeded offset after the handler of A has returned (the worker is just finishing A)
      uint64_t hx = 0;
      while ((hx = gHandlerExitNs[ci].load()) == 0 && vf::nowNs() - tA < 20000000ull) { }
      if (hx == 0) hx = vf::nowNs();
      // hx = the moment the handler of A returns; B is written from 100 us before to 20 us after it
      delayUs = rng.below(121);
      spinUntil(hx + delayUs * 1000 - 100000);
    }
    else
    {
      pollfd p{fd, POLLIN, 0};
      ::poll(&p, 1, int(cfg.stallMs));
      uint64_t tFirst = vf::nowNs();
      if (msA == 0) { if (lat.size() >= 31) lat.erase(lat.begin()); lat.push_back(tFirst - tA); }
      delayUs = rng.below(61);
      spinUntil(tFirst + delayUs * 1000);
    }
    bool respASeen;
    { pollfd p{fd, POLLIN, 0}; respASeen = ::poll(&p, 1, 0) > 0 || ch.rx.size() != rxBeforeA; }
    if (!sendReq(raceReq(tbk, 0, 24 + size_t(rng.below(60))))) { ch.stop = "eof"; break; }
    uint64_t tB = ch.sendNs.back();
    if (!respASeen) bBeforeRespA++;
    uint64_t progAtB = gProgress.load();
    lastProgress = vf::nowNs();
    bool firstByteTimed = respASeen;
    const size_t sent = ch.reqs.size();
    bool stalled = false, suspect = false;
    uint64_t progAtSuspect = 0, kickAfterNs = 0;
    for (;;)
    {
      pc.update(ch.rx);
      if (pc.count >= sent && pc.atBoundary) break;
      if (!readStep(20)) { ch.stop = "eof"; ended = true; break; }
      if (!firstByteTimed && ch.rx.size() != rxBeforeA)
      {
        firstByteTimed = true;
        uint64_t d = ch.tLastByte > tB ? ch.tLastByte - tB : 0;
        if (d < 100000) near100++;
      }
      uint64_t silentNs = vf::nowNs() - lastProgress;
      if (!suspect && silentNs > uint64_t(cfg.stallMs) * 1000000ull)
      {
        // phase 1: suspect. Nothing is written yet: a request that is merely slow (worker or
        // vCPU descheduled) gets twice the stall bound more to be answered on its own.
        suspect = true;
        progAtSuspect = gProgress.load();
        kickAfterNs = uint64_t(cfg.stallMs) * 3000000ull + rng.below(uint64_t(cfg.stallMs) * 1000000ull); // seeded, not a fixed instant
        O.obs("race_stall_suspects");
      }
      if (suspect && silentNs > kickAfterNs) { stalled = true; break; }
    }
    if (ended) break;
    if (suspect && !stalled)
    {
      O.obs("race_stall_suspects_answered_without_kick"); // slowness
      O.obsMax("race_longest_silence_answered_without_kick_ms", (vf::nowNs() - tB) / 1000000);
    }
    if (stalled)
    {
      // phase 2: still silent after 3 x stallMs: probe with one more request on the same connection
      O.obs("race_stall_kicks");
      uint64_t others = gProgress.load() - progAtB, othersLate = gProgress.load() - progAtSuspect;
      unsigned answeredBefore = pc.count;
      HEntry hf = answeredBefore < ch.reqs.size() ? gLog.get(ch.reqs[answeredBefore].token) : HEntry{};
      size_t kickIdx = ch.reqs.size();
      uint64_t tKick = vf::nowNs();
      sendReq(raceReq(std::string(tb) + "k", 0, 32));
      lastProgress = vf::nowNs();
      bool all = false;
      for (;;)
      {
        pc.update(ch.rx);
        if (pc.count >= ch.reqs.size() && pc.atBoundary) { all = true; break; }
        if (!readStep(20)) { ch.stop = "eof"; break; }
        if (vf::nowNs() - lastProgress > uint64_t(cfg.silenceMs) * 1000000ull) break;
      }
      if (ch.stop == "?") ch.stop = all ? "settled" : "silence";
      char ex[640];
      snprintf(ex, sizeof ex, ",\"stall\":{\"first_unanswered\":%u,\"kick\":%zu,\"stall_ms\":%u,\"silent_ms_before_kick\":%u"
               ",\"others_progress\":%" PRIu64 ",\"others_progress_last_two_thirds\":%" PRIu64
               ",\"t_kick_ns\":%" PRIu64 ",\"first_unanswered_h_enter_at_kick\":%" PRIu64 ",\"first_unanswered_h_exit_at_kick\":%" PRIu64
               ",\"all_answered_after_kick\":%d,\"delay_class\":%u,\"delay_us\":%" PRIu64 ",\"round\":%u}",
               answeredBefore, kickIdx, cfg.stallMs, unsigned(kickAfterNs / 1000000), others, othersLate, tKick, hf.enter, hf.exit,
               all ? 1 : 0, c, delayUs, r);
      bool goOn = all && ++stalls < 3;
      finishChunk(true, ex);
      if (!goOn) { ended = true; break; }
      continue;
    }
    // light in-order check (selects chunks for the full judgement, judges nothing)
    if (seenToks.size() < 2 || seenToks[seenToks.size() - 2] != ta || seenToks.back() != tbk) anomaly = true;
    gProgress.fetch_add(2);
    if ((r + 1) % cfg.chunkRounds == 0) { ch.stop = "settled"; finishChunk(false, ""); }
  }
  if (!ended && !ch.reqs.empty()) { if (ch.stop == "?") ch.stop = "settled"; finishChunk(ch.stop != "settled", ""); }
  else if (ended && !ch.reqs.empty() && ch.stop == "eof") finishChunk(true, "");
  ::close(fd);
  O.obs("race_rounds", cls[1] + cls[2] + cls[3] + cls[4]);
  O.obs("race_rounds_b_at_offset_after_handler_of_a_returned", cls[4]);
  O.obs("race_rounds_b_at_offset_after_sending_a", cls[1]);
  O.obs("race_rounds_b_at_measured_latency_minus_x", cls[2]);
  O.obs("race_rounds_b_after_first_byte_of_response_a", cls[3]);
  O.obs("race_rounds_b_written_before_response_a_arrived", bBeforeRespA);
  O.obs("race_rounds_response_a_arrived_within_100us_after_b_was_written", near100);
  if (!lat.empty())
  {
    std::vector<uint64_t> v(lat);
    std::nth_element(v.begin(), v.begin() + v.size() / 2, v.end());
    O.obsMax("race_median_response_latency_us_max_over_connections", v[v.size() / 2] / 1000);
  }
}

static void runRaceScenario(int scn, unsigned nconn, int port, const RaceCfg &cfg, uint64_t seed, bool defHandler, uint32_t sendcap)
{
  gLog.clear();
  gRaceStop.store(false);
  std::vector<std::thread> hs, cs;
  for (unsigned h = 0; h < cfg.hammers; h++) hs.emplace_back([=]() { hammerConn(port, seed + uint64_t(scn), int(h)); });
  for (unsigned ci = 0; ci < nconn; ci++)
    cs.emplace_back([=, &cfg]() { raceConn(scn, int(ci), nconn, port, cfg, seed, defHandler, sendcap); });
  for (auto &t : cs) t.join();
  gRaceStop.store(true);
  for (auto &t : hs) t.join();
}

int main(int argc, char **argv)
{
  vf::Args args(argc, argv);
  auto &O = vf::out();
  const uint64_t seed = args.u("seed", 1);
  const uint64_t from = args.u("from", 0), count = args.u("count", 1);
  const bool defHandler = args.u("defhandler", 0) != 0;
  const uint32_t sendcap = uint32_t(args.u("sendcap", 0));
  const std::string profile = args.s("profile", "mix");
  const int onlyConn = int(int64_t(args.u("onlyconn", uint64_t(-1))));
  Timeouts to;
  to.silenceMs = unsigned(args.u("silence-ms", 8000));
  to.closeWaitMs = unsigned(args.u("closewait-ms", 4000));
  to.settleMs = unsigned(args.u("settle-ms", 150));
  Profile pf;
  pf.slow = (profile == "slow");
  pf.bigMax = size_t(args.u("bigmax", pf.slow ? 2097152 : 262144));
  pf.maxConn = unsigned(args.u("maxconn", pf.slow ? 4 : 32));

  iora::core::Logger::setLevel(iora::core::Logger::Level::Fatal);

  // port from the kernel: a bound, non-listening SO_REUSEPORT socket keeps the port reserved for
  // this process (the kernel never auto-selects a port that is bound), the server's listener
  // (which sets SO_REUSEPORT itself) binds next to it.
  int probe = ::socket(AF_INET, SOCK_STREAM | SOCK_CLOEXEC, 0);
  int one = 1;
  setsockopt(probe, SOL_SOCKET, SO_REUSEADDR, &one, sizeof one);
  setsockopt(probe, SOL_SOCKET, SO_REUSEPORT, &one, sizeof one);
  sockaddr_in a{};
  a.sin_family = AF_INET;
  inet_pton(AF_INET, "127.0.0.1", &a.sin_addr);
  if (::bind(probe, (sockaddr *)&a, sizeof a) != 0) { O.inconclusive("cannot bind probe socket"); O.flush(); return 2; }
  socklen_t sl = sizeof a;
  getsockname(probe, (sockaddr *)&a, &sl);
  const int port = ntohs(a.sin_port);

  auto srv = new HttpServer("127.0.0.1", port); // never destroyed: teardown is not this property's subject
  registerRoutes(*srv, defHandler);
  try { srv->start(); }
  catch (const std::exception &e) { O.inconclusive(std::string("server start failed: ") + e.what()); O.flush(); return 2; }

  if (sendcap)
  {
    auto &sp = vf::shim::sockPolicy();
    sp.permille.store(0);
    sp.maxLen.store(sendcap);
    sp.mode.store(1);
  }

  if (profile == "race")
  {
    RaceCfg rc;
    rc.rounds = unsigned(args.u("rounds", 4000));
    rc.chunkRounds = unsigned(args.u("chunk-rounds", 200));
    rc.stallMs = unsigned(args.u("stall-ms", 1000));
    rc.silenceMs = to.silenceMs;
    rc.hammers = unsigned(args.u("hammers", 2));
    for (uint64_t scn = from; scn < from + count; scn++)
      runRaceScenario(int(scn), unsigned(args.u("raceconns", 8)), port, rc, seed, defHandler, sendcap);
  }
  else
  for (uint64_t scn = from; scn < from + count; scn++)
  {
    vf::Rng rng(seed, scn * 2 + (defHandler ? 1 : 0) + uint64_t(sendcap) * 1000003ull + (pf.slow ? 7777 : 0));
    static const unsigned nc[] = {1, 1, 2, 3, 4, 8, 8, 16, 16, 32, 32};
    unsigned nconn = nc[rng.below(sizeof nc / sizeof nc[0])];
    if (nconn > pf.maxConn) nconn = 1 + unsigned(rng.below(pf.maxConn));
    std::vector<std::unique_ptr<Conn>> conns;
    for (unsigned ci = 0; ci < nconn; ci++)
    {
      auto c = std::make_unique<Conn>();
      c->scn = int(scn); c->idx = int(ci);
      c->pipe = rng.chance(0.65);
      static const unsigned dd[] = {2, 2, 3, 4, 4, 6, 8, 8, 12, 16, 16};
      c->depth = c->pipe ? dd[rng.below(sizeof dd / sizeof dd[0])] : 1;
      unsigned nreq = c->pipe ? unsigned(rng.range(2, 16)) : unsigned(rng.range(1, 8));
      if (pf.slow) nreq = unsigned(rng.range(1, 4));
      if (c->pipe && rng.chance(0.5)) nreq = std::max(nreq, c->depth); // whole sequence in one flight
      if (c->pipe && nreq < 2) nreq = 2;
      bool slowReader = pf.slow || rng.chance(0.12);
      if (slowReader)
      {
        c->slow = true;
        c->slowUs = unsigned(rng.range(200, pf.slow ? 1200 : 2500));
        static const unsigned rc[] = {512, 1460, 4096, 16384, 32768, 65536};
        c->readChunk = rc[rng.below(4) + (pf.slow ? 2 : 0)];
        static const int rb[] = {2048, 4096, 16384, 65536};
        c->rcvbuf = rb[rng.below(4)];
      }
      int malPos = rng.chance(0.2) ? int(rng.below(nreq)) : -1;
      bool close = rng.chance(0.5);
      for (unsigned ri = 0; ri < nreq; ri++)
      {
        char tb[96];
        snprintf(tb, sizeof tb, "s%" PRIu64 "x%" PRIu64 "c%ur%u%c", seed, scn, ci, ri, "abcdefghijklmnopqrstuvwxyz"[rng.below(26)]);
        std::string tok = tb;
        if (int(ri) == malPos)
        {
          Req r;
          r.token = tok; r.kind = "malformed"; r.method = "?";
          r.mal = MAL_KINDS[rng.below(sizeof MAL_KINDS / sizeof MAL_KINDS[0])];
          r.raw = buildMalformed(r.mal, tok, rng);
          c->reqs.push_back(std::move(r));
          continue;
        }
        Req r = genReq(rng, tok, c->pipe, defHandler, pf);
        finishReq(r, rng, close && ri + 1 == nreq);
        c->reqs.push_back(std::move(r));
      }
      conns.push_back(std::move(c));
    }
    gLog.clear();
    std::vector<std::thread> th;
    for (auto &c : conns)
    {
      if (onlyConn >= 0 && c->idx != onlyConn) continue;
      th.emplace_back([&c, port, &to]() { runConn(*c, port, to); });
    }
    for (auto &t : th) t.join();
    for (auto &c : conns)
    {
      if (onlyConn >= 0 && c->idx != onlyConn) continue;
      emitConn(*c, nconn, defHandler, sendcap, profile);
    }
  }
  auto &sp = vf::shim::sockPolicy();
  O.obs("srv_send_calls_capped", sp.shortenedSends.load());
  O.obs("srv_send_eagain", sp.eagainSends.load());
  O.flush();
  fflush(nullptr);
  _exit(0); // no server teardown here (C05's subject); sanitizer reports are printed when they occur
}
