// C20 harness: web::Assets static/template lookup never escapes its root.
//
// The directory tree (nested directories, inside- and outside-pointing symlinks, a secret outside
// the root, every file's content unique) is built by lib/props/c20.py, which is also the oracle
// (os.lstat / os.path.realpath on what the returned bytes identify). This driver only drives iora:
//   --mode lookup  batch of names (hex, one per line) through getStatic and getTemplate of one
//                  Assets flavour (fs-cached | fs-perreq | embedded with EXTERNAL_DIR); prints
//                  status + length + FNV-64 + head of the returned bytes (and of the gzip variant).
//   --mode sweep   TOCTOU enumeration: for each spec, count the intercepted library calls of one
//                  lookup (open/openat/read/close from the shared fileio shim; stat/lstat/readlink/
//                  realpath from c20_shim_stat.hpp), then for k = 0..count replace the target path
//                  by a symlink to the secret immediately before call k and report the result.
//   --mode race    a background thread flips the target between its original state and a symlink
//                  to the secret (atomic renames) while the main thread looks it up repeatedly.
#define VF_SHIM_FILEIO
#include "shim/shims.hpp"
#include "vf.hpp"
#include "c20_shim_stat.hpp"

#include <iora/web/assets.hpp>

#include <algorithm>
#include <csignal>
#include <fstream>

using iora::web::Assets;
using iora::web::GetStaticResult;

// ------------------------------------------------------------------------------- reporting
static std::string blobJson(std::string_view b)
{
  std::string o = "{\"len\":" + std::to_string(b.size()) + ",\"fnv\":\"";
  char buf[32]; snprintf(buf, sizeof buf, "%016" PRIx64, vf::fnv(b.data(), b.size())); o += buf;
  o += "\",\"head\":\"" + vf::hex(b.data(), std::min<size_t>(b.size(), 160)) + "\"}";
  return o;
}
static std::string staticJson(const GetStaticResult &r)
{
  if (r.status == GetStaticResult::Status::NotFound) return "{\"st\":\"N\"}";
  if (r.status == GetStaticResult::Status::Rejected) return "{\"st\":\"R\"}";
  std::string o = "{\"st\":\"F\",\"b\":" + blobJson(r.blob.bytes);
  if (r.blob.gzipBytes) o += ",\"gz\":" + blobJson(*r.blob.gzipBytes);
  o += ",\"mime\":" + vf::jstr(std::string(r.blob.mime)) + "}";
  return o;
}
static std::string templateJson(const std::optional<std::string_view> &t)
{
  if (!t) return "{\"st\":\"N\"}";
  return "{\"st\":\"F\",\"b\":" + blobJson(*t) + "}";
}

// ------------------------------------------------------------------------------- FIFO feeder + blocked-lookup watchdog
// The tree contains named pipes. A lookup that (wrongly) opens one blocks until a writer appears; the feeder
// thread keeps trying a non-blocking write-open of every pipe (ENXIO while nobody reads), and the moment a
// reader is waiting it writes a recognisable token and closes, so the reader sees token + EOF. The watchdog
// reports a lookup that sits in open()/read() without progress (e.g. reading a pipe nobody feeds) as a record
// and ends the process; the driver resumes after that name.
static std::atomic<uint64_t> gProgress{0}, gIdx{0}, gFeeds{0};
static std::atomic<int> gApi{'s'};
static std::vector<std::string> gFifos;
static std::string gFifoToken;
static std::string gCurName;
static std::mutex gCurMu;
static pid_t gMainTid = 0;

static void setCurrent(uint64_t idx, char api, const std::string &name)
{
  gIdx.store(idx); gApi.store(api);
  { std::lock_guard<std::mutex> g(gCurMu); gCurName = name; }
  gProgress.fetch_add(1);
}
static long mainThreadSyscall()
{
  char path[64]; snprintf(path, sizeof path, "/proc/self/task/%d/syscall", int(gMainTid));
  char buf[128] = {0};
  int fd = (int)syscall(SYS_openat, AT_FDCWD, path, O_RDONLY, 0);
  if (fd < 0) return -2;
  ssize_t n = syscall(SYS_read, fd, buf, sizeof buf - 1);
  syscall(SYS_close, fd);
  if (n <= 0 || buf[0] < '0' || buf[0] > '9') return -1; // "running" or "-1 ..."
  return strtol(buf, nullptr, 10);
}
static void startGuard(const vf::Args &a)
{
  gMainTid = (pid_t)syscall(SYS_gettid);
  signal(SIGPIPE, SIG_IGN); // a pipe reader (possibly in another harness process on the same tree) may close before the feeder writes
  if (a.has("fifos")) { std::ifstream in(a.s("fifos")); std::string l; while (std::getline(in, l)) if (!l.empty()) gFifos.push_back(vf::unhex(l)); }
  gFifoToken = a.s("fifotoken", "VF20|FIFO-TOKEN|");
  uint64_t stallMs = a.u("stallms", 8000);
  if (!gFifos.empty())
    std::thread([]() {
      vf::shim::tlsFileExempt = true;
      for (;;)
      {
        for (auto &p : gFifos)
        {
          int fd = (int)syscall(SYS_openat, AT_FDCWD, p.c_str(), O_WRONLY | O_NONBLOCK | O_CLOEXEC, 0);
          if (fd < 0) continue;
          struct stat st;
          if (syscall(SYS_fstat, fd, &st) == 0 && S_ISFIFO(st.st_mode)) { std::string t = gFifoToken + p + "\n"; (void)!syscall(SYS_write, fd, t.data(), t.size()); gFeeds.fetch_add(1); }
          syscall(SYS_close, fd);
        }
        vf::shim::rawSleepUs(300);
      }
    }).detach();
  std::thread([stallMs]() {
    vf::shim::tlsFileExempt = true;
    uint64_t last = gProgress.load(), since = vf::nowNs();
    for (;;)
    {
      vf::sleepMs(50);
      uint64_t p = gProgress.load(), t = vf::nowNs();
      if (p != last) { last = p; since = t; continue; }
      if (t - since < stallMs * 1000000ull) continue;
      long nr = mainThreadSyscall();
      if (nr != SYS_openat && nr != SYS_read && nr != SYS_open) { since = t; continue; } // slow, not blocked in the file
      std::string name; { std::lock_guard<std::mutex> g(gCurMu); name = gCurName; }
      FILE *f = vf::out().f;
      fprintf(f, "\n{\"t\":\"hang\",\"i\":%" PRIu64 ",\"api\":\"%c\",\"syscall\":\"%s\",\"stall_ms\":%" PRIu64 ",\"name\":\"%s\"}\n",
              gIdx.load(), char(gApi.load()), nr == SYS_read ? "read" : "open", stallMs, vf::hex(name).c_str());
      fflush(f);
      _exit(0);
    }
  }).detach();
}

// ------------------------------------------------------------------------------- embedded registry
struct Registry
{
  std::vector<std::string> extNames;           // owning storage
  std::vector<std::string_view> extViews;      // sorted
  std::string extDir;
  std::vector<iora::web::EmbeddedAsset> statics;
  std::vector<iora::web::EmbeddedTemplate> templates;
  iora::web::EmbeddedAssetRegistry reg;
  void build(const std::string &dir, const std::vector<std::string> &names)
  {
    extDir = dir;
    extNames = names;
    std::sort(extNames.begin(), extNames.end());
    extNames.erase(std::unique(extNames.begin(), extNames.end()), extNames.end());
    for (auto &n : extNames) extViews.emplace_back(n);
    std::sort(extViews.begin(), extViews.end());
    // two compiled-in assets and templates (sorted by key)
    statics.push_back({"emb/app.js", "VF20|embedded|emb/app.js|static\n", "etag-a", std::nullopt, ""});
    statics.push_back({"emb/site.css", "VF20|embedded|emb/site.css|static\n", "etag-b", std::nullopt, ""});
    templates.push_back({"emb/base.html", "VF20|embedded|emb/base.html|template\n"});
    templates.push_back({"emb/page.html", "VF20|embedded|emb/page.html|template\n"});
    reg.templates = templates.data(); reg.templatesCount = templates.size();
    reg.statics = statics.data(); reg.staticsCount = statics.size();
    reg.externalDir = extDir;
    reg.externalPaths = extViews.data(); reg.externalPathsCount = extViews.size();
  }
};

static std::vector<std::string> readHexLines(const std::string &path)
{
  std::vector<std::string> v;
  std::ifstream in(path);
  std::string line;
  while (std::getline(in, line))
  {
    if (line == "-") v.emplace_back();
    else v.push_back(vf::unhex(line));
  }
  return v;
}

static int modeLookup(const vf::Args &a)
{
  std::string kind = a.s("assets", "fs-cached");
  std::vector<std::string> names = readHexLines(a.s("names"));
  Registry R;
  std::unique_ptr<Assets> as;
  if (kind == "embedded") { R.build(a.s("ext"), names); as.reset(new Assets(Assets::fromEmbedded(R.reg))); }
  else as.reset(new Assets(Assets::fromDirectory(a.s("root"), kind == "fs-perreq")));
  FILE *f = vf::out().f;
  uint64_t reloadEvery = a.u("reload", 0);
  for (size_t i = a.u("from", 0); i < names.size(); i++)
  {
    std::string line = "{\"i\":" + std::to_string(i);
    setCurrent(i, 's', names[i]);
    try { line += ",\"s\":" + staticJson(as->getStatic(names[i])); }
    catch (const std::exception &e) { line += ",\"s\":{\"st\":\"X\",\"what\":" + vf::jstr(e.what()) + "}"; }
    setCurrent(i, 't', names[i]);
    try { line += ",\"t\":" + templateJson(as->getTemplate(names[i])); }
    catch (const std::exception &e) { line += ",\"t\":{\"st\":\"X\",\"what\":" + vf::jstr(e.what()) + "}"; }
    line += "}\n";
    fputs(line.c_str(), f);
    if (reloadEvery && (i + 1) % reloadEvery == 0) as->reload();
  }
  fprintf(f, "{\"t\":\"done\",\"fifo_feeds\":%" PRIu64 "}\n", gFeeds.load());
  fflush(f);
  return 0;
}

// ------------------------------------------------------------------------------- swapping
struct Spec
{
  std::string assets;   // fs-cached | fs-perreq | embedded
  std::string api;      // s | t
  std::string name;     // requested name
  std::string target;   // absolute path that gets replaced
  char initial = 'F';   // F regular file, L symlink, A absent
  std::string original; // file content or link target
  std::string tmp;
};
static Spec *G = nullptr;
static std::string gSecret;
static std::atomic<bool> gFired{false};

static void rawWriteFile(const std::string &p, const std::string &data)
{
  int fd = (int)syscall(SYS_openat, AT_FDCWD, p.c_str(), O_WRONLY | O_CREAT | O_TRUNC, 0644);
  if (fd < 0) return;
  size_t off = 0;
  while (off < data.size()) { ssize_t n = syscall(SYS_write, fd, data.data() + off, data.size() - off); if (n <= 0) break; off += size_t(n); }
  syscall(SYS_close, fd);
}
static void swapToSecret()
{
  syscall(SYS_unlinkat, AT_FDCWD, G->tmp.c_str(), 0);
  syscall(SYS_symlinkat, gSecret.c_str(), AT_FDCWD, G->tmp.c_str());
  syscall(SYS_renameat2, AT_FDCWD, G->tmp.c_str(), AT_FDCWD, G->target.c_str(), 0);
  gFired.store(true);
}
static void restoreTarget()
{
  if (G->initial == 'A') { syscall(SYS_unlinkat, AT_FDCWD, G->target.c_str(), 0); return; }
  syscall(SYS_unlinkat, AT_FDCWD, G->tmp.c_str(), 0);
  if (G->initial == 'F') rawWriteFile(G->tmp, G->original);
  else syscall(SYS_symlinkat, G->original.c_str(), AT_FDCWD, G->tmp.c_str());
  syscall(SYS_renameat2, AT_FDCWD, G->tmp.c_str(), AT_FDCWD, G->target.c_str(), 0);
}
// race mode: restore through a hard link to a kept copy (two syscalls), so the path spends about as much
// time being the original file as being the symlink
static void restoreTargetFast()
{
  if (G->initial != 'F') { restoreTarget(); return; }
  std::string keep = G->target + ".vforig";
  syscall(SYS_unlinkat, AT_FDCWD, G->tmp.c_str(), 0);
  syscall(SYS_linkat, AT_FDCWD, keep.c_str(), AT_FDCWD, G->tmp.c_str(), 0);
  syscall(SYS_renameat2, AT_FDCWD, G->tmp.c_str(), AT_FDCWD, G->target.c_str(), 0);
}
static bool captureInitial(Spec &s)
{
  struct stat st;
  s.tmp = s.target + ".vfswap";
  if (syscall(SYS_newfstatat, AT_FDCWD, s.target.c_str(), &st, AT_SYMLINK_NOFOLLOW) != 0) { s.initial = 'A'; return true; }
  if (S_ISLNK(st.st_mode))
  {
    char buf[4096]; ssize_t n = syscall(SYS_readlinkat, AT_FDCWD, s.target.c_str(), buf, sizeof buf);
    if (n < 0) return false;
    s.initial = 'L'; s.original.assign(buf, size_t(n)); return true;
  }
  if (!S_ISREG(st.st_mode)) return false;
  s.initial = 'F';
  vf::shim::tlsFileExempt = true;
  s.original = vf::readFile(s.target);
  vf::shim::tlsFileExempt = false;
  return true;
}

static std::vector<Spec> readSpecs(const std::string &path)
{
  std::vector<Spec> v;
  std::ifstream in(path);
  std::string as, api, nameHex, targetHex;
  while (in >> as >> api >> nameHex >> targetHex)
  {
    Spec s; s.assets = as; s.api = api; s.name = vf::unhex(nameHex); s.target = vf::unhex(targetHex);
    v.push_back(s);
  }
  return v;
}

static const Spec *gSpecBase = nullptr;
struct Flavour
{
  Registry R;
  std::unique_ptr<Assets> as;
  void make(const Spec &s, const std::string &root, const std::string &ext)
  {
    as.reset();
    if (s.assets == "embedded") { R = Registry(); R.build(ext, {s.name}); as.reset(new Assets(Assets::fromEmbedded(R.reg))); }
    else as.reset(new Assets(Assets::fromDirectory(root, s.assets == "fs-perreq")));
  }
  std::string lookup(const Spec &s)
  {
    setCurrent(uint64_t(&s - gSpecBase), s.api[0], s.name);
    try
    {
      if (s.api == "s") return staticJson(as->getStatic(s.name));
      return templateJson(as->getTemplate(s.name));
    }
    catch (const std::exception &e) { return std::string("{\"st\":\"X\",\"what\":") + vf::jstr(e.what()) + "}"; }
  }
};

static int modeSweep(const vf::Args &a)
{
  std::string root = a.s("root"), ext = a.s("ext");
  gSecret = a.s("secret");
  auto specs = readSpecs(a.s("specs"));
  gSpecBase = specs.data();
  auto &P = vf::shim::filePolicy();
  P.prefix = a.s("prefix");
  P.onFire = swapToSecret;
  FILE *f = vf::out().f;
  for (size_t si = 0; si < specs.size(); si++)
  {
    Spec &s = specs[si];
    if (!captureInitial(s)) { fprintf(f, "{\"t\":\"skip\",\"spec\":%zu}\n", si); continue; }
    G = &s;
    std::vector<std::string> variants = {"cold"};
    if (s.assets == "fs-cached") variants.push_back("warm");
    for (auto &variant : variants)
    {
      Flavour F;
      auto prepare = [&]() {
        restoreTarget();
        F.make(s, root, ext);
        if (variant == "warm") (void)F.lookup(s); // fill the cache before the counted lookup
      };
      // counting run (no swap): number of intercepted calls of this lookup and their names
      prepare();
      c20shim::trace().ents.clear(); c20shim::trace().on = true;
      P.counter.store(0); P.fireAt.store(-1); P.counting = true;
      std::string base = F.lookup(s);
      P.counting = false; c20shim::trace().on = false;
      int64_t N = P.counter.load();
      std::string tr = "[";
      {
        std::map<int64_t, const char *> named;
        for (auto &e : c20shim::trace().ents) named[e.at] = e.fn;
        for (int64_t k = 0; k < N; k++) { if (k) tr += ','; tr += '"'; tr += named.count(k) ? named[k] : "io"; tr += '"'; }
      }
      tr += "]";
      fprintf(f, "{\"t\":\"count\",\"spec\":%zu,\"variant\":\"%s\",\"N\":%" PRId64 ",\"calls\":%s,\"base\":%s}\n", si, variant.c_str(), N, tr.c_str(), base.c_str());
      for (int64_t k = 0; k <= N; k++)
      {
        prepare();
        gFired.store(false);
        P.counter.store(0); P.fireAt.store(k); P.counting = true;
        std::string res = F.lookup(s);
        P.counting = false; P.fireAt.store(-1);
        fprintf(f, "{\"t\":\"sw\",\"spec\":%zu,\"variant\":\"%s\",\"k\":%" PRId64 ",\"N\":%" PRId64 ",\"fired\":%d,\"calls_seen\":%" PRId64 ",\"r\":%s}\n",
                si, variant.c_str(), k, N, gFired.load() ? 1 : 0, P.counter.load(), res.c_str());
        // a second lookup on the same object after the swap (cache / later request view)
        if (gFired.load())
        {
          std::string res2 = F.lookup(s);
          fprintf(f, "{\"t\":\"sw\",\"spec\":%zu,\"variant\":\"%s-after\",\"k\":%" PRId64 ",\"N\":%" PRId64 ",\"fired\":1,\"calls_seen\":0,\"r\":%s}\n",
                  si, variant.c_str(), k, N, res2.c_str());
        }
      }
      F.as.reset();
    }
    restoreTarget();
  }
  fprintf(f, "{\"t\":\"done\",\"stat_calls\":%" PRIu64 "}\n", c20shim::statCalls().load());
  fflush(f);
  return 0;
}

static int modeRace(const vf::Args &a)
{
  std::string root = a.s("root"), ext = a.s("ext");
  gSecret = a.s("secret");
  auto specs = readSpecs(a.s("specs"));
  gSpecBase = specs.data();
  uint64_t iters = a.u("iters", 2000);
  vf::Rng rng(a.u("seed", 1), 0xC20);
  FILE *f = vf::out().f;
  for (size_t si = 0; si < specs.size(); si++)
  {
    Spec &s = specs[si];
    if (!captureInitial(s)) { fprintf(f, "{\"t\":\"skip\",\"spec\":%zu}\n", si); continue; }
    G = &s;
    if (s.initial == 'F') rawWriteFile(s.target + ".vforig", s.original);
    std::atomic<bool> stop{false};
    std::atomic<uint64_t> flips{0};
    uint64_t pauseSeed = rng.next();
    std::thread sw([&]() {
      vf::shim::tlsFileExempt = true;
      vf::Rng r(pauseSeed, 1);
      while (!stop.load(std::memory_order_relaxed))
      {
        swapToSecret();
        if (r.chance(0.5)) vf::shim::rawSleepUs(r.below(30));
        restoreTargetFast();
        if (r.chance(0.5)) vf::shim::rawSleepUs(r.below(30));
        flips.fetch_add(1, std::memory_order_relaxed);
      }
      restoreTarget();
    });
    Flavour F;
    F.make(s, root, ext);
    uint64_t nF = 0, nN = 0, nR = 0, nX = 0;
    std::map<std::string, uint64_t> foundKinds;
    std::map<std::string, std::string> foundSample;
    for (uint64_t i = 0; i < iters; i++)
    {
      if (i % 8 == 0) F.make(s, root, ext); // cold cache again
      std::string r = F.lookup(s);
      if (r.find("\"st\":\"F\"") != std::string::npos)
      {
        nF++;
        size_t p = r.find("\"fnv\":\"");
        std::string id = r.substr(p + 7, 16);
        size_t g = r.find("\"gz\":");
        if (g != std::string::npos) { size_t p2 = r.find("\"fnv\":\"", g); id += "+" + r.substr(p2 + 7, 16); }
        if (!foundKinds[id]++) foundSample[id] = r;
      }
      else if (r.find("\"st\":\"N\"") != std::string::npos) nN++;
      else if (r.find("\"st\":\"R\"") != std::string::npos) nR++;
      else nX++;
    }
    stop.store(true);
    sw.join();
    if (s.initial == 'F') syscall(SYS_unlinkat, AT_FDCWD, (s.target + ".vforig").c_str(), 0);
    std::string kinds = "[";
    bool first = true;
    for (auto &kv : foundSample) { if (!first) kinds += ','; first = false; kinds += "{\"n\":" + std::to_string(foundKinds[kv.first]) + ",\"r\":" + kv.second + "}"; }
    kinds += "]";
    fprintf(f, "{\"t\":\"race\",\"spec\":%zu,\"iters\":%" PRIu64 ",\"flips\":%" PRIu64 ",\"found\":%" PRIu64 ",\"notfound\":%" PRIu64 ",\"rejected\":%" PRIu64 ",\"threw\":%" PRIu64 ",\"kinds\":%s}\n",
            si, iters, flips.load(), nF, nN, nR, nX, kinds.c_str());
    fflush(f);
  }
  fprintf(f, "{\"t\":\"done\"}\n");
  fflush(f);
  return 0;
}

int main(int argc, char **argv)
{
  vf::Args a(argc, argv);
  std::string mode = a.s("mode", "lookup");
  startGuard(a);
  int rc = 3;
  if (mode == "lookup") rc = modeLookup(a);
  else if (mode == "sweep") rc = modeSweep(a);
  else if (mode == "race") rc = modeRace(a);
  else fprintf(stderr, "unknown mode\n");
  fflush(nullptr);
  _exit(rc); // the detached feeder/watchdog threads still use globals: skip static destruction
}
