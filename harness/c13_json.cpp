// C13 harness: drives iora::parsers::Json (parse / dump) and storage::JsonFileStore and reports what
// it observed. The verdict is computed outside (lib/props/c13.py, with Python's json module as the
// independent reference). Batch mode reads one case per line from --cases FILE:
//
//   P <arrayItemsMax>,<membersMax>,<depthMax>,<stringLengthMax> <hex of text>
//        parse the text (held in an exact-size heap block so that ASan sees a read one byte past the
//        input) with Json::parse(string_view, limits) and with parseOrThrow; report ok + canonical typed
//        rendering, or error offset/line/column/message, the exception types seen, thread CPU time.
//   V <value tokens>
//        build the value programmatically (no iora parsing involved), dump it in five modes, re-parse
//        every dump with iora and report dump text, iora's operator== and the canonical rendering of
//        the re-parsed value when it differs from the original's.
//   F <store ops>
//        JsonFileStore round trip through its public API: set/remove, flush or destructor, reopen,
//        typed get; reports file bytes and what the getters returned.
//
// value tokens (prefix notation): n | t | f | i<decimal> | d<16 hex of the IEEE bits> | s<hex bytes> |
//        a<count> v... | o<count> (s<hexkey> v)...
// canonical rendering (JSON): null | true | false | {"i":"<decimal>"} | {"d":"<16 hex>"} |
//        {"s":"<hex of bytes>"} | [v,...] | {"o":[["<hexkey>",v],...]}   (members sorted by key bytes;
//        iora keeps one member per key, the last one parsed)
//
// Built with clang -fsanitize=fuzzer (-DVF_FUZZ=1) the same file is a libFuzzer target whose
// in-process assertions are the reference-free part of the oracle (robustness, limits, round trip).
#include "vf.hpp"

#include <iora/parsers/json.hpp>
#ifndef VF_FUZZ
#include <iora/storage/json_file_store.hpp>
#endif

#include <algorithm>
#include <cxxabi.h>
#include <fstream>
#include <pthread.h>
#include <typeinfo>

using iora::parsers::Json;
using iora::parsers::ParseLimits;

namespace
{

uint64_t threadCpuNs()
{
  struct timespec ts;
  clock_gettime(CLOCK_THREAD_CPUTIME_ID, &ts);
  return uint64_t(ts.tv_sec) * 1000000000ull + uint64_t(ts.tv_nsec);
}

std::string demangle(const char *n)
{
  int st = 0;
  char *d = abi::__cxa_demangle(n, nullptr, nullptr, &st);
  std::string r = (st == 0 && d) ? d : n;
  free(d);
  return r;
}

// ---------------------------------------------------------------- canonical rendering
void canon(const Json &v, std::string &o)
{
  switch (v.type())
  {
  case iora::parsers::JsonType::Null: o += "null"; break;
  case iora::parsers::JsonType::Boolean: o += v.getBool() ? "true" : "false"; break;
  case iora::parsers::JsonType::Int:
  {
    char buf[32];
    snprintf(buf, sizeof buf, "%lld", (long long)v.getInt());
    o += "{\"i\":\""; o += buf; o += "\"}";
    break;
  }
  case iora::parsers::JsonType::Double:
  {
    double d = v.getDouble();
    uint64_t b; memcpy(&b, &d, 8);
    char buf[32];
    snprintf(buf, sizeof buf, "%016llx", (unsigned long long)b);
    o += "{\"d\":\""; o += buf; o += "\"}";
    break;
  }
  case iora::parsers::JsonType::String:
    o += "{\"s\":\""; o += vf::hex(v.getString()); o += "\"}";
    break;
  case iora::parsers::JsonType::Array:
  {
    o += "[";
    bool first = true;
    for (const auto &e : v.getArray()) { if (!first) o += ","; first = false; canon(e, o); }
    o += "]";
    break;
  }
  case iora::parsers::JsonType::Object:
  {
    std::vector<const std::pair<const std::string, Json> *> mem;
    for (const auto &kv : v.getObject()) mem.push_back(&kv);
    std::sort(mem.begin(), mem.end(), [](auto *a, auto *b) { return a->first < b->first; });
    o += "{\"o\":[";
    bool first = true;
    for (auto *kv : mem)
    {
      if (!first) o += ",";
      first = false;
      o += "[\""; o += vf::hex(kv->first); o += "\","; canon(kv->second, o); o += "]";
    }
    o += "]}";
    break;
  }
  }
}
std::string canon(const Json &v) { std::string o; canon(v, o); return o; }

// limits recomputed from an accepted value (independent of the parser's own counters)
struct Metrics { size_t depth = 0, arr = 0, mem = 0, str = 0; };
void measure(const Json &v, size_t depth, Metrics &m)
{
  m.depth = std::max(m.depth, depth);
  if (v.isString()) m.str = std::max(m.str, v.getString().size());
  else if (v.isArray())
  {
    m.arr = std::max(m.arr, v.getArray().size());
    for (const auto &e : v.getArray()) measure(e, depth + 1, m);
  }
  else if (v.isObject())
  {
    m.mem = std::max(m.mem, v.getObject().size());
    for (const auto &kv : v.getObject()) { m.str = std::max(m.str, kv.first.size()); measure(kv.second, depth + 1, m); }
  }
}

// ---------------------------------------------------------------- value tokens
struct Tok
{
  std::vector<std::string> t;
  size_t i = 0;
  bool more() const { return i < t.size(); }
  const std::string &next() { static std::string e; return i < t.size() ? t[i++] : e; }
};
std::vector<std::string> split(const std::string &s)
{
  std::vector<std::string> r;
  size_t i = 0;
  while (i < s.size())
  {
    while (i < s.size() && s[i] == ' ') i++;
    size_t j = i;
    while (j < s.size() && s[j] != ' ') j++;
    if (j > i) r.push_back(s.substr(i, j - i));
    i = j;
  }
  return r;
}
Json build(Tok &tk)
{
  const std::string &t = tk.next();
  if (t.empty()) return Json();
  switch (t[0])
  {
  case 'n': return Json();
  case 't': return Json(true);
  case 'f': return Json(false);
  case 'i': return Json((std::int64_t)strtoll(t.c_str() + 1, nullptr, 10));
  case 'd':
  {
    uint64_t b = strtoull(t.c_str() + 1, nullptr, 16);
    double d; memcpy(&d, &b, 8);
    return Json(d);
  }
  case 's': return Json(vf::unhex(t.substr(1)));
  case 'a':
  {
    size_t n = strtoull(t.c_str() + 1, nullptr, 10);
    Json::Array a;
    a.reserve(n);
    for (size_t k = 0; k < n; k++) a.push_back(build(tk));
    return Json(std::move(a));
  }
  case 'o':
  {
    size_t n = strtoull(t.c_str() + 1, nullptr, 10);
    Json::Object o;
    for (size_t k = 0; k < n; k++)
    {
      std::string key = vf::unhex(tk.next().substr(1));
      o[key] = build(tk);
    }
    return Json(std::move(o));
  }
  }
  return Json();
}

struct ExactBuf // input held in a heap block of exactly its size
{
  char *p;
  size_t n;
  explicit ExactBuf(const std::string &s) : p(new char[s.size()]), n(s.size()) { if (n) memcpy(p, s.data(), n); }
  ~ExactBuf() { delete[] p; }
  std::string_view sv() const { return std::string_view(p, n); }
};

ParseLimits parseLimits(const std::string &s)
{
  ParseLimits l;
  unsigned long long a = 0, m = 0, d = 0, st = 0;
  if (sscanf(s.c_str(), "%llu,%llu,%llu,%llu", &a, &m, &d, &st) == 4)
  {
    l.arrayItemsMax = a; l.membersMax = m; l.depthMax = d; l.stringLengthMax = st;
  }
  return l;
}

const ParseLimits &roomyLimits()
{
  static ParseLimits l = [] { ParseLimits x; x.arrayItemsMax = 10000000; x.membersMax = 10000000; x.depthMax = 2000; x.stringLengthMax = 1ull << 31; return x; }();
  return l;
}

struct DumpMode { const char *name; int indent; char ch; bool sort; };
const DumpMode kModes[] = {
  {"compact", -1, ' ', false}, {"pretty", 2, ' ', false}, {"tab", 1, '\t', false},
  {"sorted", -1, ' ', true}, {"prettysorted", 4, ' ', true},
};

} // namespace

#ifndef VF_FUZZ
// =============================================================================== batch driver
namespace
{
std::atomic<long> g_case{-1};
std::atomic<uint64_t> g_caseCpuStart{0};
pthread_t g_worker;
std::atomic<bool> g_done{false};
uint64_t g_stuckCpuNs = 20ull * 1000000000ull;

void watchdog()
{
  clockid_t cid;
  if (pthread_getcpuclockid(g_worker, &cid) != 0) return;
  while (!g_done.load())
  {
    vf::sleepMs(100);
    long k = g_case.load();
    if (k < 0) continue;
    struct timespec ts;
    if (clock_gettime(cid, &ts) != 0) continue;
    uint64_t cpu = uint64_t(ts.tv_sec) * 1000000000ull + uint64_t(ts.tv_nsec);
    uint64_t st = g_caseCpuStart.load();
    if (g_case.load() == k && cpu > st && cpu - st > g_stuckCpuNs)
    {
      char buf[160];
      snprintf(buf, sizeof buf, "{\"t\":\"stuck\",\"i\":%ld,\"cpu_ns\":%llu}", k, (unsigned long long)(cpu - st));
      vf::out().line(buf);
      _exit(4);
    }
  }
}

void doParse(long idx, const std::string &limS, const std::string &text)
{
  ParseLimits lim = parseLimits(limS);
  ExactBuf in(text);
  std::string line = "{\"i\":" + std::to_string(idx) + ",\"k\":\"P\",\"n\":" + std::to_string(in.n);
  bool ok = false, threw = false;
  std::string excType;
  size_t off = 0, ln = 0, col = 0;
  std::string msg, cv;
  Metrics mt;
  uint64_t c0 = threadCpuNs();
  try
  {
    auto r = Json::parse(in.sv(), lim);
    ok = r.ok;
    if (ok) { cv = canon(r.value); measure(r.value, 0, mt); }
    else { off = r.error.where.offset; ln = r.error.where.line; col = r.error.where.column; msg = r.error.message; }
  }
  catch (const std::exception &e) { threw = true; excType = demangle(typeid(e).name()); }
  catch (...) { threw = true; excType = "unknown"; }
  uint64_t c1 = threadCpuNs();
  // the throwing entry point: Json::parse_error on rejection and nothing else
  std::string pe = "none";
  bool ok2 = false;
  try { Json v = Json::parseOrThrow(in.sv(), lim); ok2 = true; }
  catch (const Json::parse_error &) { pe = "parse_error"; }
  catch (const std::exception &e) { pe = "other:" + demangle(typeid(e).name()); }
  catch (...) { pe = "other:unknown"; }
  line += ",\"cpu\":" + std::to_string(c1 - c0);
  if (threw) line += ",\"ok\":-1,\"exc\":" + vf::jstr(excType);
  else if (ok)
  {
    line += ",\"ok\":1,\"v\":" + cv + ",\"m\":[" + std::to_string(mt.depth) + "," + std::to_string(mt.arr) + "," +
            std::to_string(mt.mem) + "," + std::to_string(mt.str) + "]";
  }
  else
  {
    line += ",\"ok\":0,\"off\":" + std::to_string(off) + ",\"ln\":" + std::to_string(ln) + ",\"col\":" + std::to_string(col) +
            ",\"msg\":" + vf::jstr(msg);
  }
  line += ",\"pe\":" + vf::jstr(pe) + ",\"ok2\":" + (ok2 ? "1" : "0") + "}";
  vf::out().line(line);
}

void doValue(long idx, const std::string &rest)
{
  Tok tk; tk.t = split(rest);
  Json v = build(tk);
  std::string cv = canon(v);
  std::string line = "{\"i\":" + std::to_string(idx) + ",\"k\":\"V\",\"cv\":" + cv + ",\"dumps\":[";
  bool first = true;
  for (const auto &m : kModes)
  {
    if (!first) line += ",";
    first = false;
    line += "{\"m\":\"" + std::string(m.name) + "\"";
    try
    {
      std::string text = v.dump(m.indent, m.ch, false, m.sort);
      line += ",\"t\":\"" + vf::hex(text) + "\"";
      ExactBuf in(text);
      auto r = Json::parse(in.sv(), roomyLimits());
      if (!r.ok)
      {
        line += ",\"ok\":0,\"off\":" + std::to_string(r.error.where.offset) + ",\"msg\":" + vf::jstr(r.error.message);
      }
      else
      {
        std::string rv = canon(r.value);
        bool same = rv == cv;
        line += ",\"ok\":1,\"eq\":" + std::string(r.value == v ? "1" : "0") + ",\"same\":" + (same ? "1" : "0");
        if (!same) line += ",\"rv\":" + rv;
      }
    }
    catch (const std::exception &e) { line += ",\"exc\":" + vf::jstr(demangle(typeid(e).name())); }
    catch (...) { line += ",\"exc\":\"unknown\""; }
    line += "}";
  }
  line += "]}";
  vf::out().line(line);
}

// F <ops>:  S <how> s<hexkey> <value tokens> | R s<hexkey> | FLUSH | G <type> s<hexkey>
//   how: j generic Json, b bool, l int64, g double, x std::string        (typed set<T> overloads)
//   type: b l g x X A O   (x = get(key) string overload, X = get<std::string>)
void doStore(long idx, const std::string &rest, const std::string &tmpDir)
{
  using iora::storage::JsonFileStore;
  Tok tk; tk.t = split(rest);
  std::string path = tmpDir + "/store-" + std::to_string(getpid()) + "-" + std::to_string(idx) + ".json";
  ::unlink(path.c_str());
  std::vector<std::pair<std::string, std::string>> gets; // type, key
  std::string line = "{\"i\":" + std::to_string(idx) + ",\"k\":\"F\"";
  try
  {
    {
      JsonFileStore st(path);
      while (tk.more())
      {
        std::string op = tk.next();
        if (op == "S")
        {
          std::string how = tk.next();
          std::string key = vf::unhex(tk.next().substr(1));
          Json v = build(tk);
          if (how == "b" && v.isBool()) st.set<bool>(key, v.getBool());
          else if (how == "l" && v.isInt()) st.set<std::int64_t>(key, v.getInt());
          else if (how == "g" && v.isDouble()) st.set<double>(key, v.getDouble());
          else if (how == "x" && v.isString()) st.set(key, v.getString());
          else st.set<Json>(key, v);
        }
        else if (op == "R") st.remove(vf::unhex(tk.next().substr(1)));
        else if (op == "FLUSH") st.flush();
        else if (op == "G") { std::string ty = tk.next(); gets.emplace_back(ty, vf::unhex(tk.next().substr(1))); }
      }
    } // destructor flushes what is still dirty
    line += ",\"file\":\"" + vf::hex(vf::readFile(path)) + "\",\"got\":[";
    {
      JsonFileStore st(path);
      bool first = true;
      for (auto &g : gets)
      {
        if (!first) line += ",";
        first = false;
        const std::string &ty = g.first, &key = g.second;
        std::string c = "null";
        if (ty == "b") { auto r = st.get<bool>(key); if (r) c = canon(Json(*r)); }
        else if (ty == "l") { auto r = st.get<std::int64_t>(key); if (r) c = canon(Json(*r)); }
        else if (ty == "g") { auto r = st.get<double>(key); if (r) c = canon(Json(*r)); }
        else if (ty == "x") { auto r = st.get(key); if (r) c = canon(Json(*r)); }
        else if (ty == "X") { auto r = st.get<std::string>(key); if (r) c = canon(Json(*r)); }
        else if (ty == "A") { auto r = st.get<Json::Array>(key); if (r) c = canon(Json(*r)); }
        else if (ty == "O") { auto r = st.get<Json::Object>(key); if (r) c = canon(Json(*r)); }
        line += c;
      }
    }
    line += "]";
  }
  catch (const std::exception &e) { line += ",\"exc\":" + vf::jstr(demangle(typeid(e).name()) + ": " + e.what()); }
  catch (...) { line += ",\"exc\":\"unknown\""; }
  ::unlink(path.c_str());
  ::unlink((path + ".tmp").c_str());
  line += "}";
  vf::out().line(line);
}
} // namespace

int main(int argc, char **argv)
{
  vf::Args args(argc, argv);
  std::string casesPath = args.s("cases");
  long from = long(args.u("from", 0));
  std::string tmpDir = args.s("tmp", "/tmp");
  g_stuckCpuNs = args.u("stuck-cpu-s", 20) * 1000000000ull;
  iora::core::Logger::setLevel(iora::core::Logger::Level::Fatal);
  iora::storage::JsonFileStore::setFlushInterval(std::chrono::milliseconds(3600 * 1000));
  // keep the store registry non-empty so that destroying a case's store never has to stop and join the
  // background flusher (its stop hand-shake can stall for a whole interval; that is C05/C11 matter)
  iora::storage::JsonFileStore *anchor = nullptr;
  std::string anchorPath = tmpDir + "/anchor-" + std::to_string(getpid()) + ".json";
  g_worker = pthread_self();
  std::thread wd(watchdog);
  wd.detach();

  std::ifstream in(casesPath);
  if (!in) { fprintf(stderr, "cannot open cases file %s\n", casesPath.c_str()); return 3; }
  std::string l;
  long idx = -1;
  while (std::getline(in, l))
  {
    idx++;
    if (idx < from || l.empty()) continue;
    g_caseCpuStart.store(threadCpuNs());
    g_case.store(idx);
    char kind = l[0];
    if (kind == 'P')
    {
      size_t sp = l.find(' ', 2);
      std::string lim = l.substr(2, sp == std::string::npos ? std::string::npos : sp - 2);
      std::string text = sp == std::string::npos ? std::string() : vf::unhex(l.substr(sp + 1));
      doParse(idx, lim, text);
    }
    else if (kind == 'V') doValue(idx, l.substr(1));
    else if (kind == 'F')
    {
      if (!anchor) anchor = new iora::storage::JsonFileStore(anchorPath);
      doStore(idx, l.substr(1), tmpDir);
    }
  }
  g_case.store(-1);
  g_done.store(true);
  vf::out().line("{\"t\":\"done\",\"last\":" + std::to_string(idx) + "}");
  fflush(nullptr);
  ::unlink(anchorPath.c_str());
  _exit(0); // the anchored store (and its flusher thread) is never torn down
}

#else
// =============================================================================== libFuzzer target
// Reference-free assertions on arbitrary bytes. Findings are appended as JSON lines to
// $VF_FUZZ_VIOL.<pid> and fuzzing continues (only sanitizer reports end the process), so one broad
// known defect cannot hide the others.
namespace
{
std::map<std::string, int> g_seen;
void fuzzViol(const std::string &key, const std::string &what, const uint8_t *data, size_t n)
{
  if (++g_seen[key] > 2) return;
  const char *base = getenv("VF_FUZZ_VIOL");
  if (!base) { fprintf(stderr, "VF-VIOLATION %s %s\n", key.c_str(), what.c_str()); return; }
  std::string p = std::string(base) + "." + std::to_string(getpid());
  FILE *f = fopen(p.c_str(), "a");
  if (!f) return;
  std::string in = vf::hex(data, std::min<size_t>(n, 4096));
  fprintf(f, "{\"t\":\"viol\",\"key\":%s,\"what\":%s,\"detail\":{\"input_hex\":\"%s\",\"n\":%zu}}\n", vf::jstr(key).c_str(),
          vf::jstr(what).c_str(), in.c_str(), n);
  fclose(f);
}
std::string leafClass(const Json &a, const Json &b)
{
  if (a.type() != b.type()) return (a.isDouble() && b.isInt()) ? "double:reparsed-as-int" : "type-differs";
  if (a.isDouble()) return "double:precision-lost";
  if (a.isString()) return "string:differs";
  if (a.isInt()) return "int:differs";
  if (a.isArray())
  {
    if (a.getArray().size() != b.getArray().size()) return "structure:differs";
    for (size_t i = 0; i < a.getArray().size(); i++)
      if (canon(a.getArray()[i]) != canon(b.getArray()[i])) return leafClass(a.getArray()[i], b.getArray()[i]);
  }
  if (a.isObject())
  {
    for (const auto &kv : a.getObject())
    {
      auto it = b.getObject().find(kv.first);
      if (it == b.getObject().end()) return "object:key-differs";
      if (canon(kv.second) != canon(it->second)) return leafClass(kv.second, it->second);
    }
    if (a.getObject().size() != b.getObject().size()) return "object:key-differs";
  }
  return "differs";
}
bool finiteOnly(const Json &v)
{
  if (v.isDouble()) return std::isfinite(v.getDouble());
  if (v.isArray()) { for (const auto &e : v.getArray()) if (!finiteOnly(e)) return false; }
  if (v.isObject()) { for (const auto &kv : v.getObject()) if (!finiteOnly(kv.second)) return false; }
  return true;
}
} // namespace

extern "C" int LLVMFuzzerTestOneInput(const uint8_t *data, size_t size)
{
  static const ParseLimits small = [] { ParseLimits x; x.arrayItemsMax = 4; x.membersMax = 3; x.depthMax = 3; x.stringLengthMax = 8; return x; }();
  static const ParseLimits dflt;
  for (int pass = 0; pass < 2; pass++)
  {
    const ParseLimits &lim = pass ? small : dflt;
    std::string_view sv(reinterpret_cast<const char *>(data), size); // libFuzzer hands out exact-size heap copies
    try
    {
      auto r = Json::parse(sv, lim);
      if (!r.ok)
      {
        if (r.error.where.offset > size)
          fuzzViol("C13:error-offset-outside-input", "error offset " + std::to_string(r.error.where.offset) + " > input length " + std::to_string(size), data, size);
        continue;
      }
      Metrics m; measure(r.value, 0, m);
      if (m.depth > lim.depthMax) fuzzViol("C13:limit:depthMax:accepted-beyond-limit", "accepted value depth " + std::to_string(m.depth), data, size);
      if (m.arr > lim.arrayItemsMax) fuzzViol("C13:limit:arrayItemsMax:accepted-beyond-limit", "accepted array of " + std::to_string(m.arr), data, size);
      if (m.mem > lim.membersMax) fuzzViol("C13:limit:membersMax:accepted-beyond-limit", "accepted object of " + std::to_string(m.mem), data, size);
      if (m.str > lim.stringLengthMax) fuzzViol("C13:limit:stringLengthMax:accepted-beyond-limit", "accepted string of " + std::to_string(m.str) + " bytes", data, size);
      if (pass == 0 && finiteOnly(r.value))
      {
        std::string cv = canon(r.value);
        for (const auto &md : kModes)
        {
          std::string text = r.value.dump(md.indent, md.ch, false, md.sort);
          auto r2 = Json::parse(std::string_view(text), roomyLimits());
          if (!r2.ok) { fuzzViol(std::string("C13:dump:") + md.name + ":reparse-rejected", "iora rejects its own dump: " + r2.error.message, data, size); continue; }
          if (canon(r2.value) != cv)
            fuzzViol("C13:roundtrip:" + leafClass(r.value, r2.value), std::string("parse(dump(v)) != v in mode ") + md.name, data, size);
        }
      }
    }
    catch (const std::exception &e) { fuzzViol("C13:parse:unexpected-exception", demangle(typeid(e).name()), data, size); }
    catch (...) { fuzzViol("C13:parse:unexpected-exception", "unknown", data, size); }
  }
  return 0;
}
#endif
