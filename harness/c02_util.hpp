// C02 harness support: raw loopback peers, throw-away PKI, process-wide fixtures.
// Independent of iora (plain sockets + libssl).
#pragma once
#include "vf.hpp"

#include <arpa/inet.h>
#include <atomic>
#include <fcntl.h>
#include <netinet/in.h>
#include <netinet/tcp.h>
#include <poll.h>
#include <string>
#include <sys/resource.h>
#include <sys/socket.h>
#include <thread>
#include <unistd.h>

#include <openssl/err.h>
#include <openssl/evp.h>
#include <openssl/pem.h>
#include <openssl/ssl.h>
#include <openssl/x509.h>

namespace c02 {

inline uint64_t nowNs() { return vf::nowNs(); }
inline void sleepMs(double ms) { if (ms > 0) vf::sleepMs(ms); }

inline void setNonblock(int fd, bool nb)
{
  int fl = fcntl(fd, F_GETFL, 0);
  if (fl < 0) return;
  fcntl(fd, F_SETFL, nb ? (fl | O_NONBLOCK) : (fl & ~O_NONBLOCK));
}
inline uint16_t localPort(int fd)
{
  sockaddr_in a{}; socklen_t l = sizeof a;
  if (getsockname(fd, (sockaddr *)&a, &l) != 0) return 0;
  return ntohs(a.sin_port);
}
inline sockaddr_in loop(uint16_t port)
{
  sockaddr_in a{}; a.sin_family = AF_INET; a.sin_addr.s_addr = htonl(INADDR_LOOPBACK); a.sin_port = htons(port);
  return a;
}
// listening TCP socket on a kernel-chosen loopback port
inline int tcpListen(int backlog, int rcvbuf, uint16_t *port)
{
  int fd = socket(AF_INET, SOCK_STREAM | SOCK_CLOEXEC, 0);
  if (fd < 0) return -1;
  if (rcvbuf > 0) setsockopt(fd, SOL_SOCKET, SO_RCVBUF, &rcvbuf, sizeof rcvbuf);
  sockaddr_in a = loop(0);
  if (bind(fd, (sockaddr *)&a, sizeof a) != 0 || listen(fd, backlog) != 0) { close(fd); return -1; }
  *port = localPort(fd);
  return fd;
}
// bound but never listening: connects are answered with RST and the port stays reserved
inline int tcpBoundOnly(uint16_t *port)
{
  int fd = socket(AF_INET, SOCK_STREAM | SOCK_CLOEXEC, 0);
  if (fd < 0) return -1;
  sockaddr_in a = loop(0);
  if (bind(fd, (sockaddr *)&a, sizeof a) != 0) { close(fd); return -1; }
  *port = localPort(fd);
  return fd;
}
inline int acceptWait(int lfd, double timeoutMs, const std::atomic<bool> *abortFlag)
{
  uint64_t dl = nowNs() + uint64_t(timeoutMs * 1e6);
  for (;;)
  {
    pollfd p{lfd, POLLIN, 0};
    int r = poll(&p, 1, 25);
    if (r > 0)
    {
      int fd = accept4(lfd, nullptr, nullptr, SOCK_CLOEXEC);
      if (fd >= 0) return fd;
    }
    if (abortFlag && abortFlag->load()) return -1;
    if (nowNs() > dl) return -1;
  }
}
// raw TCP client bound to its own kernel-chosen port (the port identifies it in onAccept)
inline int tcpClientSocket(int rcvbuf, uint16_t *myPort)
{
  int fd = socket(AF_INET, SOCK_STREAM | SOCK_CLOEXEC, 0);
  if (fd < 0) return -1;
  if (rcvbuf > 0) setsockopt(fd, SOL_SOCKET, SO_RCVBUF, &rcvbuf, sizeof rcvbuf);
  sockaddr_in a = loop(0);
  if (bind(fd, (sockaddr *)&a, sizeof a) != 0) { close(fd); return -1; }
  *myPort = localPort(fd);
  return fd;
}
inline bool tcpConnectTo(int fd, uint16_t dstPort, double timeoutMs)
{
  setNonblock(fd, true);
  sockaddr_in d = loop(dstPort);
  int r = connect(fd, (sockaddr *)&d, sizeof d);
  if (r != 0 && errno != EINPROGRESS) { setNonblock(fd, false); return false; }
  if (r != 0)
  {
    pollfd p{fd, POLLOUT, 0};
    if (poll(&p, 1, int(timeoutMs)) <= 0) { setNonblock(fd, false); return false; }
    int err = 0; socklen_t el = sizeof err;
    getsockopt(fd, SOL_SOCKET, SO_ERROR, &err, &el);
    if (err != 0) { setNonblock(fd, false); return false; }
  }
  setNonblock(fd, false);
  return true;
}
inline void closeRst(int fd)
{
  linger l{1, 0};
  setsockopt(fd, SOL_SOCKET, SO_LINGER, &l, sizeof l);
  close(fd);
}
inline void drainFd(int fd)
{
  char buf[4096];
  while (recv(fd, buf, sizeof buf, MSG_DONTWAIT) > 0) {}
}
inline void setIoTimeout(int fd, int ms)
{
  timeval tv{ms / 1000, (ms % 1000) * 1000};
  setsockopt(fd, SOL_SOCKET, SO_RCVTIMEO, &tv, sizeof tv);
  setsockopt(fd, SOL_SOCKET, SO_SNDTIMEO, &tv, sizeof tv);
}
inline int udpSocket(uint16_t *port)
{
  int fd = socket(AF_INET, SOCK_DGRAM | SOCK_CLOEXEC, 0);
  if (fd < 0) return -1;
  sockaddr_in a = loop(0);
  if (bind(fd, (sockaddr *)&a, sizeof a) != 0) { close(fd); return -1; }
  *port = localPort(fd);
  return fd;
}
inline void udpSendTo(int fd, uint16_t port, const void *p, size_t n)
{
  sockaddr_in d = loop(port);
  sendto(fd, p, n, MSG_DONTWAIT | MSG_NOSIGNAL, (sockaddr *)&d, sizeof d);
}

// ---- throw-away PKI (EC P-256, self-signed, 30 days), written as PEM files
inline bool genPki(const std::string &dir, std::string &certPath, std::string &keyPath)
{
  certPath = dir + "/c02_cert.pem";
  keyPath = dir + "/c02_key.pem";
  EVP_PKEY *pk = EVP_EC_gen("P-256");
  if (!pk) return false;
  X509 *x = X509_new();
  ASN1_INTEGER_set(X509_get_serialNumber(x), 2);
  X509_set_version(x, 2);
  X509_gmtime_adj(X509_getm_notBefore(x), -3600);
  X509_gmtime_adj(X509_getm_notAfter(x), 30L * 86400);
  X509_set_pubkey(x, pk);
  X509_NAME *n = X509_get_subject_name(x);
  X509_NAME_add_entry_by_txt(n, "CN", MBSTRING_ASC, (const unsigned char *)"localhost", -1, -1, 0);
  X509_set_issuer_name(x, n);
  bool ok = X509_sign(x, pk, EVP_sha256()) > 0;
  FILE *f = fopen(keyPath.c_str(), "w");
  if (f) { ok = ok && PEM_write_PrivateKey(f, pk, nullptr, nullptr, 0, nullptr, nullptr) == 1; fclose(f); } else ok = false;
  f = fopen(certPath.c_str(), "w");
  if (f) { ok = ok && PEM_write_X509(f, x) == 1; fclose(f); } else ok = false;
  X509_free(x);
  EVP_PKEY_free(pk);
  return ok;
}

// ---- process-wide fixtures shared by all histories of one harness process
struct Fixtures
{
  std::string certPath, keyPath;
  SSL_CTX *peerSrv = nullptr; // independent OpenSSL server peer
  SSL_CTX *peerCli = nullptr; // independent OpenSSL client peer
  int blackholeFd = -1; uint16_t blackholePort = 0; int fillers[4] = {-1, -1, -1, -1};
  int refusedFd = -1; uint16_t refusedPort = 0;
  int sinkFd = -1; uint16_t sinkPort = 0; // accepts and closes at once (peer FIN)
  int udpDeadFd = -1; uint16_t udpDeadPort = 0; // bound+connected elsewhere: datagrams get ICMP unreachable
  int udpSinkFd = -1; uint16_t udpSinkPort = 0; // bound, never read (datagrams pile up / drop)
  std::atomic<bool> quit{false};
  std::thread sinkThread;

  bool init(const std::string &tmp)
  {
    if (!genPki(tmp, certPath, keyPath)) return false;
    peerSrv = SSL_CTX_new(TLS_server_method());
    peerCli = SSL_CTX_new(TLS_client_method());
    if (!peerSrv || !peerCli) return false;
    if (SSL_CTX_use_certificate_file(peerSrv, certPath.c_str(), SSL_FILETYPE_PEM) != 1 ||
        SSL_CTX_use_PrivateKey_file(peerSrv, keyPath.c_str(), SSL_FILETYPE_PEM) != 1) return false;
    SSL_CTX_set_verify(peerCli, SSL_VERIFY_NONE, nullptr);
    // black hole: backlog 0 + filler connections; further SYNs are dropped on loopback
    blackholeFd = tcpListen(0, 0, &blackholePort);
    if (blackholeFd < 0) return false;
    for (int i = 0; i < 4; i++)
    {
      uint16_t p; fillers[i] = tcpClientSocket(0, &p);
      if (fillers[i] >= 0) { setNonblock(fillers[i], true); sockaddr_in d = loop(blackholePort); (void)connect(fillers[i], (sockaddr *)&d, sizeof d); }
      sleepMs(5);
    }
    refusedFd = tcpBoundOnly(&refusedPort);
    sinkFd = tcpListen(256, 0, &sinkPort);
    udpDeadFd = udpSocket(&udpDeadPort);
    if (udpDeadFd >= 0) { sockaddr_in d = loop(1); (void)connect(udpDeadFd, (sockaddr *)&d, sizeof d); }
    udpSinkFd = udpSocket(&udpSinkPort);
    if (refusedFd < 0 || sinkFd < 0 || udpDeadFd < 0 || udpSinkFd < 0) return false;
    sinkThread = std::thread([this] {
      while (!quit.load())
      {
        pollfd p{sinkFd, POLLIN, 0};
        if (poll(&p, 1, 50) > 0)
        {
          int fd = accept4(sinkFd, nullptr, nullptr, SOCK_CLOEXEC);
          if (fd >= 0) close(fd);
        }
        char buf[2048];
        while (recv(udpSinkFd, buf, sizeof buf, MSG_DONTWAIT) > 0) {}
      }
    });
    return true;
  }
  void shutdown()
  {
    quit = true;
    if (sinkThread.joinable()) sinkThread.join();
    for (int f : fillers) if (f >= 0) close(f);
    for (int f : {blackholeFd, refusedFd, sinkFd, udpDeadFd, udpSinkFd}) if (f >= 0) close(f);
    if (peerSrv) SSL_CTX_free(peerSrv);
    if (peerCli) SSL_CTX_free(peerCli);
  }
};
inline Fixtures &fx() { static Fixtures f; return f; }

inline void raiseFdLimit()
{
  rlimit rl{};
  if (getrlimit(RLIMIT_NOFILE, &rl) == 0 && rl.rlim_cur < rl.rlim_max) { rl.rlim_cur = rl.rlim_max; setrlimit(RLIMIT_NOFILE, &rl); }
}

} // namespace c02
