// /verif/harness/c18_client.hpp — C18 `client` mode: real WebSocketClient (public API only)
// against a raw-socket server that answers the upgrade and plays the generated stream in the
// chosen segmentation; everything the client writes is captured on the raw socket.
#pragma once
#include "c18_common.hpp"
#include "iora/network/websocket_client.hpp"

namespace c18
{
using namespace iora::network;

static inline const char *stateName(WebSocketState s)
{
  switch (s)
  {
  case WebSocketState::DISCONNECTED: return "DISCONNECTED";
  case WebSocketState::CONNECTING: return "CONNECTING";
  case WebSocketState::CONNECTED: return "CONNECTED";
  case WebSocketState::CLOSING: return "CLOSING";
  case WebSocketState::CLOSED: return "CLOSED";
  }
  return "?";
}

// accept one connection, read the upgrade request, return the 101 response text (not sent yet)
static inline int acceptUpgrade(int lfd, std::string &response, int timeoutMs, std::string &why)
{
  struct pollfd pf{lfd, POLLIN, 0};
  if (::poll(&pf, 1, timeoutMs) <= 0) { why = "no connection from the client within the watchdog"; return -1; }
  int fd = ::accept(lfd, nullptr, nullptr);
  if (fd < 0) { why = "accept failed"; return -1; }
  int one = 1;
  ::setsockopt(fd, IPPROTO_TCP, TCP_NODELAY, &one, sizeof one);
  std::string rx;
  int r = recvUntil(fd, rx, [](const std::string &s) { return s.find("\r\n\r\n") != std::string::npos; }, timeoutMs);
  if (r != 1) { why = "no upgrade request"; ::close(fd); return -1; }
  static const std::string kh = "Sec-WebSocket-Key:";
  size_t p = rx.find(kh);
  if (p == std::string::npos) { why = "upgrade request without Sec-WebSocket-Key"; ::close(fd); return -1; }
  size_t e = rx.find("\r\n", p);
  std::string key = rx.substr(p + kh.size(), e - p - kh.size());
  key.erase(0, key.find_first_not_of(" \t"));
  key.erase(key.find_last_not_of(" \t") + 1);
  response = "HTTP/1.1 101 Switching Protocols\r\nUpgrade: websocket\r\nConnection: Upgrade\r\nSec-WebSocket-Accept: " + acceptFor(key) + "\r\n\r\n";
  return fd;
}

struct ClientRig
{
  int lfd = -1, port = 0;
  Events ev;
  bool open()
  {
    lfd = listenLoopback(port);
    return lfd >= 0;
  }
  std::shared_ptr<WebSocketClient> make()
  {
    auto cl = WebSocketClient::create();
    std::weak_ptr<WebSocketClient> weak = cl; // HR-11: callbacks capture the client weakly
    cl->setOnTextMessage([this, weak](const std::string &t) {
      ev.msg(1, 't', t.data(), t.size());
      if (t == "vf-app-close") { if (auto c = weak.lock()) c->sendClose(1000, "bye"); }
    });
    cl->setOnBinaryMessage([this](const std::vector<std::uint8_t> &b) { ev.msg(1, 'b', b.data(), b.size()); });
    cl->setOnClose([this](std::uint16_t code, const std::string &reason) { ev.close(1, code, reason); });
    cl->setOnError([this](const std::string &w) { ev.err(1, w); });
    return cl;
  }
  // connect a client; fd of the accepted raw connection is returned through fdOut. With
  // `joined` the 101 and `joinedBytes` leave in one send.
  bool connect(std::shared_ptr<WebSocketClient> &cl, int &fdOut, const std::string *joinedBytes, std::string &why)
  {
    fdOut = -1;
    std::string resp;
    std::atomic<bool> ok{false};
    std::thread t([&] {
      vf::shim::tlsSockExempt = true;
      std::string w;
      int fd = acceptUpgrade(lfd, resp, 20000, w);
      if (fd < 0) { why = w; return; }
      std::string out = resp;
      if (joinedBytes) out += *joinedBytes;
      if (!sendAll(fd, out.data(), out.size())) { why = "send of the 101 failed"; ::close(fd); return; }
      fdOut = fd;
      ok.store(true);
    });
    bool connected = false;
    try { connected = cl->connect("127.0.0.1", (std::uint16_t)port, "/ws", WebSocketClient::Options(), std::chrono::milliseconds(20000)); }
    catch (const std::exception &e) { why = std::string("connect threw: ") + e.what(); }
    t.join();
    if (!ok.load()) return false;
    if (!connected) { if (why.empty()) why = "WebSocketClient::connect returned false"; return false; }
    return true;
  }
};

static inline Obs clientSeg(ClientRig &rig, const Case &c, const Seg &sg, const Opts &o, int waitMs)
{
  Obs ob;
  shimOff();
  rig.ev.reset(1);
  auto cl = rig.make();
  int fd = -1;
  std::string why;
  ob.wire.reserve(std::min<size_t>(4u << 20, c.expectWire + 65536));
  thr::reset();
  int64_t base = mem::begin();
  bool okc = rig.connect(cl, fd, sg.joined ? &c.wire : nullptr, why);
  if (!okc && !(sg.joined && fd >= 0))
  {
    mem::end(); thr::disarm();
    ob.harness = "HARNESS: " + why;
    if (fd >= 0) ::close(fd);
    cl.reset();
    return ob;
  }
  bool sentAll = true;
  if (!sg.joined) { thr::reset(); base = mem::begin(); } // count from the first stream byte
  if (sg.joined) ob.fed = c.wire.size();
  else
  {
    shimFor(sg);
    const auto ps = pieces(c.wire.size(), sg.cuts);
    for (size_t i = 0; i < ps.size(); i++)
    {
      if (!sendAll(fd, c.wire.data() + ps[i].first, ps[i].second)) { sentAll = false; break; }
      ob.fed += ps[i].second;
      if (i + 1 < ps.size()) vf::sleepMs(2.0);
      recvSome(fd, ob.wire, 0);
    }
  }
  size_t need = (size_t)c.expectWire;
  int r = sentAll ? recvUntil(fd, ob.wire, [need](const std::string &s) { return need > 0 && s.size() >= need; }, need ? waitMs : std::min(waitMs, 300)) : 2;
  if (r == 1) { if (!recvSome(fd, ob.wire, o.graceMs)) r = 2; }
  ob.synced = r == 1 || r == 2;
  ob.eof = r == 2;
  ob.endLive = mem::live.load() - base;
  ob.peak = mem::peak.load() - base;
  ob.maxAlloc = mem::maxSingle.load();
  mem::end();
  thr::disarm();
  ob.thrown = thr::list();
  shimOff();
  ob.state = stateName(cl->getState());
  ob.take(rig.ev);
  ::close(fd);
  cl.reset(); // destructor = teardown without a graceful close frame
  rig.ev.reset(~0ull);
  return ob;
}

static inline int runClient(const vf::Args &args)
{
  vf::shim::tlsSockExempt = true;
  Opts o;
  o.seed = args.u("seed", 1);
  o.waitMs = (int)args.u("wait-ms", 4000);
  o.shortWaitMs = (int)args.u("short-wait-ms", 400);
  auto cases = loadCases(args.s("cases"));
  size_t from = (size_t)args.u("from", 0);
  ClientRig rig;
  if (!rig.open()) { vf::out().inconclusive("client: could not open a loopback listener"); vf::out().flush(); return 2; }
  for (size_t idx = from; idx < cases.size(); idx++)
  {
    const Case &c = cases[idx];
    vf::out().line("{\"t\":\"begin\",\"idx\":" + std::to_string(idx) + ",\"id\":" + vf::jstr(c.id) + "}");
    auto segs = expandSegs(c, o.seed);
    std::string all;
    size_t nseg = 0, lost = 0;
    uint64_t maxAlloc = 0; int64_t peak = 0, endLive = 0;
    bool capped = false;
    for (auto &sg : segs)
    {
      Obs ob = clientSeg(rig, c, sg, o, lost ? o.shortWaitMs : o.waitMs);
      nseg++;
      maxAlloc = std::max(maxAlloc, ob.maxAlloc); peak = std::max(peak, ob.peak); endLive = std::max(endLive, ob.endLive);
      vf::out().obs("client-socket:segmentations");
      if (ob.fed) vf::out().obs("client-socket:bytes_fed", ob.fed);
      if (sg.joined) vf::out().obs("client-socket:stream_joined_with_101");
      if (!ob.synced) lost++;
      all += std::string(all.empty() ? "" : ",") + "{\"seg\":" + vf::jstr(sg.label) + ",\"obs\":" + ob.json() + "}";
      if (lost >= 2 && nseg < segs.size()) { capped = true; break; }
    }
    vf::out().line("{\"t\":\"c18\",\"id\":" + vf::jstr(c.id) + ",\"mode\":\"client-socket\",\"nseg\":" + std::to_string(nseg) + ",\"lost\":" + std::to_string(lost) +
                   ",\"capped\":" + (capped ? "true" : "false") + ",\"max_alloc\":" + std::to_string(maxAlloc) + ",\"peak\":" + std::to_string(peak) +
                   ",\"end_live\":" + std::to_string(endLive) + ",\"segs\":[" + all + "]}");
    vf::out().obs("client-socket:cases");
    auto &sp = vf::shim::sockPolicy();
    (void)sp;
  }
  ::close(rig.lfd);
  vf::out().obs("client-socket:recv_calls_shortened_by_shim", vf::shim::sockPolicy().shortenedRecvs.load());
  vf::out().line("{\"t\":\"done\"}");
  vf::out().flush();
  return 0;
}

} // namespace c18
