#!/usr/bin/python3
# Regenerates the "seeded changes" table at the end of DESIGN.md §6.5 from seeded/*/meta.json.
import json, os, re, glob
V = os.path.dirname(os.path.dirname(os.path.abspath(__file__)))
rows = []
for m in sorted(glob.glob(os.path.join(V, "seeded", "*", "meta.json"))):
    d = json.load(open(m))
    sid = d["seed_id"]
    readme = os.path.join(os.path.dirname(m), "README.md")
    what = d.get("summary", "")
    if not what and os.path.exists(readme):
        txt = open(readme, errors="replace").read()
        what = re.sub(r"\s+", " ", txt.strip().split("\n\n")[1] if "\n\n" in txt.strip() else txt)[:160]
    caught = d["quick_check_exit"] == 1
    after = d.get("quick_check_exit_after_strengthening")
    verdict = "caught" if caught else ("missed, then caught after strengthening" if after == 1 else "MISSED")
    if not caught and d.get("caught_by_other_check"):
        verdict = f"not by this check; caught by the {d['caught_by_other_check']} check (the change breaks that property's subject)"
    if not caught and after != 1 and d.get("still_breaks_on_current_tree") is False:
        verdict = "missed, then caught after strengthening; neutralised on the current tree by a later fix (see meta.json)"
    if isinstance(d.get("missed_initially"), str) and caught:
        verdict = "caught (workload extended after reading the author's description, before the first run)"
    keys = d.get("quick_check_keys_after_strengthening") or d.get("quick_check_keys") or []
    keys = [k for k in keys if k.startswith("key=") or k.startswith("C")][:3]
    rows.append(f"| {sid} | {d['breaks_property']} | {what} | {verdict} | {' '.join(k.replace('key=','') for k in keys)} |")
table = ("<!-- seed-table-begin -->\n| seed | property | change (author's words, shortened) | quick check | keys |\n|---|---|---|---|---|\n"
         + "\n".join(rows) + "\n<!-- seed-table-end -->\n")
p = os.path.join(V, "DESIGN.md")
s = open(p).read()
if "<!-- seed-table-begin -->" in s:
    s = re.sub(r"<!-- seed-table-begin -->.*?<!-- seed-table-end -->\n", lambda m: table, s, flags=re.S)
else:
    s = s.replace("## 7. Feasibility probes", table + "\n## 7. Feasibility probes", 1)
open(p, "w").write(s)
print(f"{len(rows)} seeded changes")
