# C13 reference side: Python's json module (shares no code with iora) as the independent decoder,
# conversion of both sides to one comparable typed form, limit metrics, difference classification.
# stdlib only.
import json, struct

INT64_MIN, INT64_MAX = -(1 << 63), (1 << 63) - 1


class _Int(str):
    __slots__ = ()


class _Float(str):
    __slots__ = ()


class _Obj(list):     # list of (key, value) pairs in textual order
    __slots__ = ()


def _no_const(s):
    raise ValueError("NaN/Infinity literal is not RFC 8259")


_DEC = json.JSONDecoder(parse_float=_Float, parse_int=_Int, parse_constant=_no_const,
                        object_pairs_hook=_Obj, strict=True)


def dbits(x):
    return struct.unpack("<Q", struct.pack("<d", x))[0]


def bits_to_float(b):
    return struct.unpack("<d", struct.pack("<Q", b))[0]


class Metrics:
    __slots__ = ("depth", "arr", "mem_textual", "mem_distinct", "strlen")

    def __init__(self):
        self.depth = self.arr = self.mem_textual = self.mem_distinct = self.strlen = 0

    def within(self, lim):
        a, m, d, s = lim
        return self.depth <= d and self.arr <= a and self.mem_textual <= m and self.strlen <= s

    def beyond(self, lim):
        """names of the limits this text certainly exceeds (distinct members: iora counts stored keys)"""
        a, m, d, s = lim
        r = []
        if self.depth > d: r.append("depthMax")
        if self.arr > a: r.append("arrayItemsMax")
        if self.mem_distinct > m: r.append("membersMax")
        if self.strlen > s: r.append("stringLengthMax")
        return r


class RefReject(Exception):
    pass


class RefUnjudgeable(Exception):
    pass


def ref_decode(data):
    """bytes -> (typed value, Metrics). Typed form: None | True | False | ('i', int) | ('d', bits) |
    ('s', bytes) | ('a', [..]) | ('o', {keybytes: value})  (last duplicate wins, as RFC-conforming
    decoders commonly do and as iora documents by storing members in a map).
    Raises RefReject when the reference does not accept the text, RefUnjudgeable when it cannot decide
    (nesting beyond the interpreter's recursion limit, lone surrogates)."""
    try:
        text = data.decode("utf-8")
    except UnicodeDecodeError as e:
        raise RefReject("not UTF-8: %s" % e)
    try:
        raw = _DEC.decode(text)
    except RecursionError:
        raise RefUnjudgeable("recursion")
    except ValueError as e:
        raise RefReject(str(e))
    m = Metrics()
    try:
        return _conv(raw, 0, m), m
    except UnicodeEncodeError:
        raise RefUnjudgeable("lone surrogate")
    except RecursionError:
        raise RefUnjudgeable("recursion")


def _conv(v, depth, m):
    if depth > m.depth:
        m.depth = depth
    if v is None or v is True or v is False:
        return v
    t = type(v)
    if t is _Int:
        if len(v) <= 19 or (len(v) == 20 and v[0] == "-"):
            n = int(v)
            if INT64_MIN <= n <= INT64_MAX:
                return ("i", n)
        return ("d", dbits(float(v)))      # beyond int64: equal as doubles
    if t is _Float:
        return ("d", dbits(float(v)))
    if t is str:
        b = v.encode("utf-8")
        if len(b) > m.strlen:
            m.strlen = len(b)
        return ("s", b)
    if t is _Obj:
        if len(v) > m.mem_textual:
            m.mem_textual = len(v)
        d = {}
        for k, x in v:
            kb = k.encode("utf-8")
            if len(kb) > m.strlen:
                m.strlen = len(kb)
            d[kb] = _conv(x, depth + 1, m)
        if len(d) > m.mem_distinct:
            m.mem_distinct = len(d)
        return ("o", d)
    if t is list:
        if len(v) > m.arr:
            m.arr = len(v)
        return ("a", [_conv(x, depth + 1, m) for x in v])
    raise RefUnjudgeable("unexpected type %r" % t)


def from_canon(c):
    """harness canonical rendering (already json.loads-ed) -> typed form"""
    if c is None or c is True or c is False:
        return c
    if type(c) is list:
        return ("a", [from_canon(x) for x in c])
    if "i" in c:
        return ("i", int(c["i"]))
    if "d" in c:
        return ("d", int(c["d"], 16))
    if "s" in c:
        return ("s", bytes.fromhex(c["s"]))
    return ("o", {bytes.fromhex(k): from_canon(x) for k, x in c["o"]})


def first_diff(exp, got, path="$"):
    """None when equal, else (path, class, expected-leaf, got-leaf) of the first difference."""
    if exp is None or exp is True or exp is False or got is None or got is True or got is False:
        if exp is got:
            return None
        return (path, "type-differs", exp, got)
    if exp[0] != got[0]:
        if exp[0] == "d" and got[0] == "i":
            return (path, "double:became-int", exp, got)
        if exp[0] == "i" and got[0] == "d":
            return (path, "int:became-double", exp, got)
        return (path, "type-differs", exp, got)
    k = exp[0]
    if k == "i":
        return None if exp[1] == got[1] else (path, "int:wrong-value", exp, got)
    if k == "d":
        return None if exp[1] == got[1] else (path, "double:wrong-bits", exp, got)
    if k == "s":
        return None if exp[1] == got[1] else (path, "string:wrong-bytes", exp, got)
    if k == "a":
        if len(exp[1]) != len(got[1]):
            return (path, "array:length-differs", len(exp[1]), len(got[1]))
        for i, (a, b) in enumerate(zip(exp[1], got[1])):
            d = first_diff(a, b, "%s[%d]" % (path, i))
            if d:
                return d
        return None
    if k == "o":
        ek, gk = exp[1], got[1]
        if ek.keys() != gk.keys():
            miss = sorted(set(ek) - set(gk))[:2]
            extra = sorted(set(gk) - set(ek))[:2]
            return (path, "object:keys-differ", miss, extra)
        for key in ek:
            d = first_diff(ek[key], gk[key], "%s.%s" % (path, key.hex()))
            if d:
                return d
        return None
    return (path, "type-differs", exp, got)


def show(v, limit=200):
    s = repr(v)
    return s if len(s) <= limit else s[:limit] + "..."
