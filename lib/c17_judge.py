# /verif/lib/c17_judge.py — C17 offline checker. Input: the case as enumerated (methods, budgets,
# timeouts) and the event log one harness case produced (server-side observer, client-side
# syscall log, API log). Verdicts depend only on what was observed on the wire / at the libc
# boundary, never on what the script intended to happen.
import re
from collections import Counter, defaultdict

from c17_cases import is_idempotent, LONG_RT

TOKEN_RE = re.compile(rb"/t/([A-Za-z0-9]+)[? ]")
CL_RE = re.compile(rb"\r\ncontent-length:[ \t]*([0-9]+)", re.I)
CONNCLOSE_RE = re.compile(rb"\r\nconnection:[ \t]*close", re.I)

IDLE_BYTE_TAINTS = ("surplus-late",)


def frame_requests(stream):
    """Reference request framer over the bytes a connection carried (client -> server).
    Returns [dict(start, end, method, token, complete, said_close)]."""
    out, o, n = [], 0, len(stream)
    while o < n:
        he = stream.find(b"\r\n\r\n", o)
        if he < 0:
            head = stream[o:]
            line = head.split(b"\r\n", 1)[0]
            m = TOKEN_RE.search(line)
            out.append(dict(start=o, end=n, method=line.split(b" ", 1)[0].decode("latin1") if b" " in line else None,
                            token=m.group(1).decode() if m else None, complete=False, said_close=False))
            break
        head = stream[o:he + 2]
        line = head.split(b"\r\n", 1)[0]
        m = TOKEN_RE.search(line + b" ")
        cl = CL_RE.search(b"\r\n" + head)
        end = he + 4 + (int(cl.group(1)) if cl else 0)
        out.append(dict(start=o, end=min(end, n), method=line.split(b" ", 1)[0].decode("latin1"),
                        token=m.group(1).decode() if m else None, complete=end <= n,
                        said_close=bool(CONNCLOSE_RE.search(b"\r\n" + head))))
        o = end
    return out


class Conn:
    def __init__(self, port):
        self.port = port
        self.cid = None
        self.srv = []      # (index, event)
        self.cli = []      # (index, event)


def _stream(events, kind):
    """(bytes, marks) for c_send / rx events; marks = [(offset, event index)]. Bytes beyond the logged
    head of an event are zero-filled (only ever body filler)."""
    buf, marks = bytearray(), []
    for i, e in events:
        if e["e"] != kind or e.get("len", 0) <= 0:
            continue
        marks.append((len(buf), i))
        d = bytes.fromhex(e.get("d", ""))[: e["len"]]
        buf += d + b"\0" * (e["len"] - len(d))
    return bytes(buf), marks


def _index_at(marks, off):
    idx = marks[0][1] if marks else -1
    for o, i in marks:
        if o <= off:
            idx = i
        else:
            break
    return idx


def judge(case, rec, slack_ms=250.0):
    """returns dict(viol=[dict(key, what, detail, timing)], obs=Counter, sig=tuple, sample=dict, notes=[...])"""
    ev = rec.get("events", [])
    noise = float(rec.get("noise_ms", 0.0))
    obs = Counter()
    viol, notes = [], []
    reqs = case.reqs
    tok2r = {r.token: i for i, r in enumerate(reqs)}

    def V(key, what, detail=None, timing=False):
        viol.append(dict(key=key, what=what, detail=detail or {}, timing=timing))

    if rec.get("crashed"):
        return dict(viol=[], obs=Counter({"cases_ended_by_process_abort": 1}), sig=(case.group, "process-abort"),
                    sample=dict(case=case.describe(), crashed=True), notes=[])
    if rec.get("hang"):
        V("C17:call-never-returned", "an HttpClient call did not return before the case watchdog (%d ms)" % case.wd,
          dict(last_events=ev[-12:]), timing=True)

    # ---- route events
    conns, cid2port = {}, {}
    calls, rets, sleeps = {}, {}, defaultdict(list)
    ts_done = None
    for i, e in enumerate(ev):
        k = e["e"]
        if k == "accept":
            key = (e["pp"], e.get("sp", rec.get("port")))
            cid2port[e["c"]] = key
            c = conns.setdefault(key, Conn(e["pp"]))
            c.srv_index = e.get("s", 0)
            c.cid = e["c"]
            c.srv.append((i, e))
        elif "c" in e and k not in ("call",):
            p = cid2port.get(e["c"])
            if p is not None:
                conns[p].srv.append((i, e))
        elif k.startswith("c_") and "lp" in e:
            conns.setdefault((e["lp"], e.get("dp", rec.get("port"))), Conn(e["lp"])).cli.append((i, e))
        elif k == "call":
            calls[e["r"]] = (i, e)
        elif k == "ret":
            rets[e["r"]] = (i, e)
        elif k == "c_sleep":
            sleeps[e["r"]].append((i, e))
        elif k == "requests_done":
            ts_done = e["ts"]
        elif k == "srv_error":
            notes.append("server error: %s" % e)
    polls = [i for i, e in enumerate(ev) if e["e"] == "c_poll"]
    obs["cases"] += 1
    if not rec.get("hang"):
        for i, r in enumerate(reqs):
            if i in calls and i not in rets:
                notes.append("call %d has no return record" % i)

    # ---- transmissions (client view, cross-checked against the server view)
    trans = defaultdict(list)       # request index -> [dict(port, ord, idx, nbytes, complete, label, srv_bytes)]
    per_conn_trans = {}
    for key, c in conns.items():
        port = c.port
        cs, cmarks = _stream(c.cli, "c_send")
        ss, smarks = _stream(c.srv, "rx")
        unread = sum(e.get("unread", 0) for _, e in c.srv if e["e"] in ("rst", "close"))
        if len(ss) + 0 > len(cs) and c.cli:
            notes.append("conn %d: server received %d bytes but client logged %d sent" % (port, len(ss), len(cs)))
        view, marks = (cs, cmarks) if c.cli and (cs or not ss) else (ss, smarks)
        fr = frame_requests(view)
        labels = {e["n"]: e.get("label") for _, e in c.srv if e["e"] == "arr"}
        lst = []
        for n, f in enumerate(fr):
            t = dict(port=port, key=list(key), ord=n, idx=_index_at(marks, f["start"]), nbytes=f["end"] - f["start"], complete=f["complete"],
                     token=f["token"], method=f["method"], said_close=f["said_close"], label=labels.get(n),
                     srv_saw=len(ss) + unread > f["start"])
            lst.append(t)
            obs["transmissions"] += 1
            if t["srv_saw"]:
                obs["transmissions_seen_by_server"] += 1
            if f["token"] in tok2r:
                trans[tok2r[f["token"]]].append(t)
            else:
                notes.append("conn %d carries %d bytes that name no known token (%r)" % (port, t["nbytes"], view[f["start"]:f["start"] + 40]))
        per_conn_trans[key] = lst
        if c.cid is not None:
            obs["connections_accepted"] += 1
        if any(e["e"] == "c_connect" for _, e in c.cli) and c.cid is None:
            obs["connects_never_accepted"] += 1
    for r in trans:
        trans[r].sort(key=lambda t: t["idx"])

    # ---- R1 / R2: at most once for non-idempotent; attempts <= budget + 1
    for i, r in enumerate(reqs):
        tl = trans.get(i, [])
        nsleep = len(sleeps.get(i, []))
        obs["retries_observed"] += nsleep
        if not is_idempotent(r.method):
            obs["nonidempotent_requests"] += 1
            if len(tl) >= 2:
                first = tl[0]
                V("C17:%s:%s:sent-twice" % (r.method, first["label"] or "unknown-fault"),
                  "%s %s was transmitted %d times (connections %s); the first transmission put %d byte(s) on the wire, "
                  "server then did '%s'" % (r.method, r.token, len(tl), [t["port"] for t in tl], first["nbytes"], first["label"]),
                  dict(transmissions=tl, budget=r.budget))
            if nsleep and len(tl) <= 1:
                obs["nonidempotent_retried_only_while_unsent"] += 1
        else:
            obs["idempotent_requests"] += 1
            if len(tl) >= 2:
                obs["idempotent_retransmissions"] += len(tl) - 1
        # attempts that never put a byte on the wire (refused connects) are visible as connect() calls; attributed by the
        # request current at the time of the call, which is exact where the case issues requests one after the other
        nconn = sum(1 for e in ev if e["e"] == "c_connect" and e.get("cur") == i) if case.group == "large-budget" else 0
        ok_after_scripted_failures = case.group == "large-budget" and (rets.get(i, (None, {}))[1] or {}).get("ok")
        obs["attempts_counted_max"] = max(obs["attempts_counted_max"], len(tl), nconn)
        if len(tl) > r.budget + 1 or nsleep > r.budget or nconn > r.budget + 1 or ok_after_scripted_failures:
            V("C17:%s:budget-exceeded" % r.method,
              "%s %s with retry budget %d: %d transmission(s), %d connect() call(s), %d back-off sleep(s)%s"
              % (r.method, r.token, r.budget, len(tl), nconn, nsleep,
                 "; the call succeeded although the first budget+3 attempts were scripted to fail" if ok_after_scripted_failures else ""),
              dict(transmissions=tl, sleeps=[e for _, e in sleeps.get(i, [])]))

    # ---- R8: the back-off itself, judged logically (never timed): every retry is preceded by a back-off sleep, no
    # requested back-off is below the 100 ms base, and the requested durations never decrease (jitter is 0..99 ms).
    # A wrapped `1 << attempt` shows as a missing sleep (non-positive duration: sleep_for does not sleep), a tiny one, or a drop.
    for i, r in enumerate(reqs):
        sl = [e["req_ms"] for _, e in sleeps.get(i, [])]
        if not sl:
            continue
        obs["backoff_sleeps_checked"] += len(sl)
        bclass = "budget-ge-26" if r.budget >= 26 else "budget-lt-26"   # (1 << 25) * 100 is the first int overflow
        obs["backoff_requested_ms_max"] = max(obs["backoff_requested_ms_max"], int(min(max(sl), 2 ** 62)))
        nconn = sum(1 for e in ev if e["e"] == "c_connect" and e.get("cur") == i) if case.group == "large-budget" else 0
        attempts = max(len(trans.get(i, [])), nconn)
        if attempts - 1 > len(sl):
            V("C17:backoff:retry-without-sleep:" + bclass,
              "%s %s (budget %d): %d attempts observed but only %d back-off sleep(s) — %d retr%s started with no back-off at all "
              "(a non-positive requested duration)" % (r.method, r.token, r.budget, attempts, len(sl), attempts - 1 - len(sl),
                                                      "y" if attempts - 1 - len(sl) == 1 else "ies"),
              dict(requested_ms=sl[:80]))
        low = [(k, x) for k, x in enumerate(sl) if x < 100.0]
        if low:
            V("C17:backoff:below-base:" + bclass,
              "%s %s (budget %d): back-off #%d requested %.0f ms, below the 100 ms base of attempt 0" % (r.method, r.token, r.budget, low[0][0] + 1, low[0][1]),
              dict(requested_ms=sl[:80]))
        drop = [(k, sl[k], sl[k + 1]) for k in range(len(sl) - 1) if sl[k + 1] + 99.5 < sl[k]]
        if drop:
            V("C17:backoff:decreased:" + bclass,
              "%s %s (budget %d): back-off #%d requested %.0f ms after #%d had requested %.0f ms" % (r.method, r.token, r.budget, drop[0][0] + 2, drop[0][2], drop[0][0] + 1, drop[0][1]),
              dict(requested_ms=sl[:80]))

    # ---- per connection server-side walk: exchanges, taints
    for key, c in conns.items():
        port = c.port
        if c.cid is None:
            continue
        txcum, exch, taints, dones, tx_at_done = 0, -1, [], set(), 0
        for i, e in c.srv:
            k = e["e"]
            if k == "arr":
                exch += 1
            elif k == "tx":
                txcum += e["len"]
            elif k == "done":
                dones.add(exch)
                tx_at_done = txcum
            elif k == "taint":
                taints.append(dict(kind=e["k"], txpos=txcum, idx=i, ts=e["ts"], exch=exch, txpos_done=tx_at_done))
                obs["taint:" + e["k"].split(":")[0]] += 1
            elif k == "rst":
                obs["server_rst"] += 1
            elif k == "fin":
                obs["server_fin"] += 1
        tl = per_conn_trans.get(key, [])
        recvs = [(i, e) for i, e in c.cli if e["e"] == "c_recv"]

        # R3: deterministic framing error, then the same request again anywhere
        for t in taints:
            if not t["kind"].startswith(("malformed:", "ambiguous:")):
                continue
            ambiguous = t["kind"].startswith("ambiguous:")
            cur = [x for x in tl if x["ord"] == t["exch"]]
            if not cur or cur[0]["token"] not in tok2r:
                continue
            ri = tok2r[cur[0]["token"]]
            later = [x for x in trans.get(ri, []) if x["idx"] > cur[0]["idx"] and not (x["key"] == list(key) and x["ord"] == t["exch"])]
            rxed = sum(e["len"] for i, e in recvs if e["len"] > 0 and (not later or i < later[0]["idx"]))
            got = rets.get(ri, (None, {}))[1]
            if got.get("ex") == "HttpFramingError":
                obs["framing_errors_reported"] += 1
            if ambiguous:
                obs["ambiguous_bare_cr_" + ("accepted" if got.get("ok") else "rejected" if got.get("ex") == "HttpFramingError" else "other")] += 1
            if later:
                if rxed >= t["txpos"]:
                    # with a short request timeout a stalled client can time out before it looks at bytes its I/O thread
                    # already read: such a case must reproduce in isolation before it is a verdict
                    V("C17:framing-error:retried:%s" % t["kind"].split(":", 1)[1],
                      "%s %s: the server answered with a complete, %s response (%s, %d bytes, all read by the "
                      "client) and the request was transmitted again (client outcome: %s)"
                      % (reqs[ri].method, reqs[ri].token,
                         "bare-CR (reject-or-accept, never retry)" if ambiguous else "deterministically malformed",
                         t["kind"], t["txpos"], got.get("what") or got.get("ex") or ("ok" if got.get("ok") else "?")),
                      dict(first=cur[0], later=later, client_outcome=got), timing=case.rt < LONG_RT)
                else:
                    obs["framing_retry_unjudged_response_not_read"] += 1

        # R4: reuse of a connection that is not clean
        for x in tl:
            n = x["ord"]
            if n == 0:
                continue
            rx = sum(e["len"] for i, e in recvs if e["len"] > 0 and i < x["idx"])
            eof_seen = any(e["len"] == 0 for i, e in recvs if i < x["idx"])
            bad = None
            prev = [y for y in tl if y["ord"] == n - 1]
            if prev and prev[0]["said_close"]:
                bad = ("client-said-close", "the client's previous request on it carried 'Connection: close'")
            if bad is None and (n - 1) not in dones and exch >= n - 1:
                lt = [t for t in taints if t["exch"] == n - 1]
                kind = lt[-1]["kind"] if lt else "no-response"
                bad = (kind, "the previous exchange on it never completed (server: %s)" % kind)
            if bad is None:
                for t in taints:
                    if t["exch"] > n - 1 or t["kind"].startswith("ambiguous:"):
                        continue
                    if t["kind"] in ("idle-fin",):
                        if eof_seen:
                            bad = (t["kind"], "the client had already read EOF on it")
                        else:
                            obs["reuse_before_taint_visible"] += 1
                    elif t["kind"] in IDLE_BYTE_TAINTS:
                        # bytes that arrived while the connection was idle: "seen" = the client's I/O thread read them
                        # AND went back to epoll_wait (its callbacks ran) before this attempt began
                        cum, r_idx = 0, None
                        for i, e in recvs:
                            if e["len"] > 0 and i < x["idx"]:
                                cum += e["len"]
                                if cum >= t["txpos"]:
                                    r_idx = i
                                    break
                        ri = tok2r.get(x["token"])
                        astart = x["idx"] if ri is None or ri not in calls else max([calls[ri][0]] + [i for i, _ in sleeps.get(ri, []) if i < x["idx"]])
                        if r_idx is not None and any(r_idx < p < astart for p in polls):
                            bad = (t["kind"], "the client had read all %d bytes the server sent, including %d unsolicited byte(s) that arrived "
                                   "while the connection was idle, and its I/O thread had finished processing them before this attempt began"
                                   % (t["txpos"], t["txpos"] - t.get("txpos_done", t["txpos"])))
                        else:
                            obs["reuse_before_taint_visible"] += 1
                    elif rx >= t["txpos"]:
                        bad = (t["kind"], "the client had read all %d bytes the server sent, including the %s" % (t["txpos"], t["kind"]))
                    else:
                        obs["reuse_before_taint_visible"] += 1
                    if bad:
                        break
            if bad:
                V("C17:reuse-after-%s" % bad[0].replace("malformed:", "malformed-response:"),
                  "request %s (%s) was sent as request #%d on connection %d although %s" % (x["token"], x["method"], n + 1, port, bad[1]),
                  dict(transmission=x, client_rx_before=rx, taints=taints))
            else:
                obs["reuse_of_clean_connection"] += 1

        # R5: silent peer — the attempt must be given up within the configured timeout
        for t in taints:
            if t["kind"] != "silence":
                continue
            obs["silent_attempts"] += 1
            last_act = max([e["ts"] for i, e in c.srv if i <= t["idx"] and e["e"] in ("rx", "tx", "accept")] or [t["ts"]])
            ends = [e["ts"] for i, e in c.srv if i > t["idx"] and e["e"] in ("eof", "rxerr")]
            ends += [e["ts"] for i, e in c.srv if i > t["idx"] and e["e"] == "hold_end" and e.get("why") in ("limit",)]
            ends += [e["ts"] for i, e in c.cli if i > t["idx"] and e["e"] == "c_close"]
            if ts_done is not None:
                ends.append(ts_done)
            if not ends:
                continue
            wait = (min(ends) - last_act) / 1000.0
            lim = case.rt + slack_ms + 6.0 * noise
            obs["silence_wait_over_timeout_ms_max"] = max(obs["silence_wait_over_timeout_ms_max"], int(max(0, wait - case.rt)))
            if wait > lim:
                V("C17:silence:waited-beyond-timeout",
                  "peer silent since t=%.1f ms on connection %d; the client gave the attempt up only after %.0f ms "
                  "(request timeout %d ms, allowance %.0f ms incl. measured scheduling noise %.1f ms)" % (last_act / 1000.0, port, wait, case.rt, lim, noise),
                  dict(wait_ms=wait, rt=case.rt, noise_ms=noise), timing=True)

    # R5b: black-holed connects
    if any(r.blackhole for r in reqs):
        for key, c in conns.items():
            if c.cid is not None:
                continue
            t0 = [e["ts"] for _, e in c.cli if e["e"] == "c_connect"]
            t1 = [e["ts"] for _, e in c.cli if e["e"] == "c_close"]
            if t0 and (t1 or ts_done):
                wait = ((min(t1) if t1 else ts_done) - t0[0]) / 1000.0
                lim = min(case.ct, 200) + slack_ms + 6.0 * noise
                obs["blackholed_connects"] += 1
                if wait > lim:
                    V("C17:silence:connect-waited-beyond-timeout",
                      "connect to a silent listener was abandoned only after %.0f ms (connect timeout %d ms, allowance %.0f ms)" % (wait, min(case.ct, 200), lim),
                      dict(wait_ms=wait), timing=True)

    # R7: shared client with a lease-acquire timeout — every phase of an attempt is bounded by a CONFIGURED timeout:
    # waiting for the host's connection lease (leaseAcquireTimeout), connecting (connect timeout, clamped to 200 ms for
    # loopback by the client), waiting for the response (request timeout). Traffic to other hosts must not stretch any of them.
    L = getattr(case, "lease", 0)
    if L > 0:
        ct_eff = min(case.ct, 200)
        for i, r in enumerate(reqs):
            if i not in calls or i not in rets:
                continue
            got = rets[i][1]
            sl = [e for _, e in sleeps.get(i, [])]
            starts = [calls[i][1]["ts"]] + [e["ts"] for e in sl]
            ends = [e["ts"] - e["act_ms"] * 1000.0 for e in sl] + [rets[i][1]["ts"]]
            tx_ts = sorted(ev[t["idx"]]["ts"] for t in trans.get(i, []) if t["idx"] >= 0)
            if (got.get("what") or "").startswith("HttpClient: timed out acquiring connection lease"):
                obs["lease_timeouts_reported"] += 1
            for a, (s0, e0) in enumerate(zip(starts, ends)):
                first_tx = next((x for x in tx_ts if s0 <= x <= e0), None)
                phase = ((first_tx if first_tx is not None else e0) - s0) / 1000.0
                lim = L + ct_eff + slack_ms + 6.0 * noise
                obs["lease_phase_checked"] += 1
                obs["lease_phase_over_bound_ms_max"] = max(obs["lease_phase_over_bound_ms_max"], int(max(0, phase - (L + ct_eff))))
                if phase > lim:
                    V("C17:lease:waited-beyond-timeout",
                      "%s %s attempt %d spent %.0f ms before it %s, although leaseAcquireTimeout is %d ms and the connect "
                      "timeout %d ms (allowance %.0f ms incl. scheduling noise %.1f ms); other callers of the same client "
                      "were completing requests to another host meanwhile"
                      % (r.method, r.token, a + 1, phase, "put its first byte on the wire" if first_tx is not None else "gave up",
                         L, ct_eff, lim, noise),
                      dict(phase_ms=phase, lease_ms=L, outcome=got), timing=True)
            attempts = len(sl) + 1
            total_lim = attempts * (L + ct_eff + case.rt + slack_ms + 6.0 * noise) + sum(e["act_ms"] for e in sl)
            if got.get("elapsed_ms", 0) > total_lim:
                V("C17:call:exceeded-configured-timeouts",
                  "%s %s returned after %.0f ms with %d attempt(s); the configured timeouts allow at most %d x (lease %d + connect %d "
                  "+ request %d ms) + back-off = %.0f ms incl. allowance" % (r.method, r.token, got.get("elapsed_ms", 0), attempts,
                                                                          attempts, L, ct_eff, case.rt, total_lim),
                  dict(outcome=got, lease_ms=L), timing=True)

    # R6: a caller must get the response to its own request
    outcomes = []
    for i, r in enumerate(reqs):
        got = rets.get(i, (None, None))[1]
        if got is None:
            outcomes.append("none")
            continue
        if got.get("ok"):
            outcomes.append("ok")
            obs["calls_ok"] += 1
            body = got.get("body", "")
            if got.get("status") == 200 and body.startswith("R:") and ("R:" + r.token) not in body:
                V("C17:response-crossed", "%s %s returned the response body of another request: %r" % (r.method, r.token, body),
                  dict(ret=got))
        else:
            ex = got.get("ex", "?")
            outcomes.append(ex)
            obs["calls_failed"] += 1
            obs["ex:" + ex] += 1
            if got.get("what") == "HTTP response timeout":
                obs["timeouts_reported"] += 1

    labels = tuple(e.get("label") for e in ev if e["e"] == "arr")
    sig = (case.group, tuple((r.method, r.budget, r.refuse, r.blackhole) for r in reqs), labels, tuple(outcomes),
           tuple(len(trans.get(i, [])) for i in range(len(reqs))), tuple(len(sleeps.get(i, [])) for i in range(len(reqs))),
           case.ka, case.th)
    sample = dict(case=case.describe(), outcomes=outcomes[:12],
                  transmissions={reqs[i].token: [(t["port"], t["ord"], t["nbytes"], t["label"]) for t in trans.get(i, [])] for i in range(min(len(reqs), 12))},
                  backoff_sleeps=[len(sleeps.get(i, [])) for i in range(min(len(reqs), 12))], server_programs=list(labels)[:24],
                  noise_ms=noise)
    return dict(viol=viol, obs=obs, sig=sig, sample=sample, notes=notes)
