#!/bin/bash
# usage: lib/seed_confirm.sh <seed-id> <Cxx> <worktree> "<ctest regex>" <target> [<target>...]
# Confirms a seeded change (demo fails with / passes without, named existing tests pass with it),
# stores it under /verif/seeded/<seed-id>/, runs the quick check of <Cxx> against it in /repo and
# undoes it, then removes the scratch worktree. Prints a summary; writes meta.json.
id=$1; prop=$2; wt=$3; rx=$4; shift 4; targets="$@"
out=/verif/seeded/$id; mkdir -p $out
cd $wt || exit 2
[ -f MUTATION/patch.diff ] || { echo "no patch"; exit 2; }
cp MUTATION/patch.diff MUTATION/README.md MUTATION/demo.cpp MUTATION/run_demo.sh $out/ 2>/dev/null
cp MUTATION/*.hpp MUTATION/*.h MUTATION/*.py $out/ 2>/dev/null
git -C $wt checkout -q -- include; git -C $wt apply MUTATION/patch.diff || { echo "patch does not apply"; exit 2; }
demo_with=""; for i in 1 2 3; do (cd MUTATION && timeout 600 bash run_demo.sh >/tmp/seed-$id-with-$i.log 2>&1); demo_with="$demo_with $?"; done
git -C $wt checkout -q -- include
demo_without=""; for i in 1 2 3; do (cd MUTATION && timeout 600 bash run_demo.sh >/tmp/seed-$id-without-$i.log 2>&1); demo_without="$demo_without $?"; done
git -C $wt apply MUTATION/patch.diff
tests="not-run"
if [ -n "$targets" ]; then
  cmake -G Ninja -S $wt -B $wt/_build -DCMAKE_BUILD_TYPE=RelWithDebInfo -DIORA_BUILD_CORE_TESTS=ON -DIORA_BUILD_NETWORK_TESTS=ON -DIORA_BUILD_STORAGE_TESTS=ON -DIORA_BUILD_PARSERS_TESTS=ON -DIORA_BUILD_UTIL_TESTS=ON -DIORA_BUILD_WEB_TESTS=ON >/tmp/seed-$id-cmake.log 2>&1
  cmake --build $wt/_build --target $targets >/tmp/seed-$id-build.log 2>&1 && tests=$(ctest --test-dir $wt/_build -R "$rx" --timeout 600 2>&1 | grep -E "tests passed|Failed|\*\*\*" | tr '\n' ';') || tests="BUILD-FAILED"
fi
# run the quick check against the change. Default: a scratch copy of the CURRENT /repo/include with
# the patch applied (VF_REPO_INCLUDE) so that other work going on against /repo is not disturbed;
# SEED_IN_REPO=1 applies it to /repo itself (git apply ... run ... git checkout -- .).
if [ -n "$SEED_IN_REPO" ]; then
  git -C /repo apply $out/patch.diff || { echo "patch does not apply to /repo"; exit 2; }
  (cd /verif && VERIF_SEED=${VERIF_SEED:-1} timeout 3000 ./check $prop --tier quick > /tmp/seed-$id-check.log 2>&1); rc=$?
  git -C /repo checkout -- .
else
  rm -rf /tmp/seedinc-$id; mkdir -p /tmp/seedinc-$id; cp -r /repo/include /tmp/seedinc-$id/include
  (cd /tmp/seedinc-$id && patch -p1 -s < $out/patch.diff) || { echo "patch does not apply to current /repo/include"; rm -rf /tmp/seedinc-$id; exit 2; }
  (cd /verif && VF_REPO_INCLUDE=/tmp/seedinc-$id/include VERIF_SEED=${VERIF_SEED:-1} timeout 3000 ./check $prop --tier quick > /tmp/seed-$id-check.log 2>&1); rc=$?
  rm -rf /tmp/seedinc-$id
fi
keys=$(grep -oE "key=\S+ count=[0-9]+" /tmp/seed-$id-check.log | head -12 | tr '\n' ' ')
echo "SEED $id prop=$prop demo_with=[$demo_with ] demo_without=[$demo_without ] tests=[$tests] check_exit=$rc keys=[$keys]"
python3 - "$id" "$prop" "$demo_with" "$demo_without" "$tests" "$rc" "$keys" <<'PY'
import json,sys
id,prop,dw,dwo,tests,rc,keys=sys.argv[1:8]
json.dump(dict(seed_id=id, breaks_property=prop, demo_exit_codes_with_change=dw.split(), demo_exit_codes_without_change=dwo.split(),
  existing_tests_with_change=tests, quick_check_exit=int(rc), quick_check_keys=keys.split(), needs="see README.md (written by the independent author of the change)",
  ran="lib/seed_confirm.sh: run_demo.sh x3 with and x3 without the change in the author's scratch worktree; listed ctest targets built and run there with the change; patch applied to /repo, ./check <prop> --tier quick, git checkout -- ."),
  open(f"/verif/seeded/{id}/meta.json","w"), indent=1)
PY
rm -rf $wt/_build; git -C /repo worktree remove --force $wt
