# C14 generator: random XML trees serialised with randomised surface syntax, together with the event
# streams a faithful parser must report (oracle 1 = the generating tree), plus byte-level and
# tag-aware mutators. stdlib only.
#
# Supported subset (what iora's parser documents): UTF-8, ASCII names [A-Za-z_:][A-Za-z0-9_:.-]*,
# predefined entities + numeric character references, CDATA, comments, PIs, DOCTYPE with internal
# subset (skipped, not interpreted). Surface choices that would make "what the document was built from"
# ambiguous under XML's own normalisation rules are avoided and listed in the check's assumptions:
# no literal CR in character data, no literal TAB/LF/CR inside attribute values (character references
# are used for them), no two adjacent text nodes.
import random

# pull event kinds (the harness prints TokenKind numbers; lib/props/c14.py maps them to these letters)
KIND = {3: "D", 4: "S", 5: "E", 6: "M", 7: "T", 8: "C", 9: "K", 10: "P", 2: "X", 0: "I", 1: "F"}

DEFAULT_OPTS = dict(permissive=0, ns=1, depth=256, attrs=256, name=1024, text=1 << 20, tokens=0)
LIMIT_FIELDS = ("depth", "attrs", "name", "text", "tokens")
OPT_NAME = dict(depth="maxDepth", attrs="maxAttrsPerElement", name="maxNameLength", text="maxTextSpan", tokens="maxTotalTokens")


def opts_str(o):
    return "%d,%d,%d,%d,%d,%d,%d" % (o["permissive"], o["ns"], o["depth"], o["attrs"], o["name"], o["text"], o["tokens"])


NAME_START = "abcdefghijklmnopqrstuvwxyzABCDEFGHIJKLMNOPQRSTUVWXYZ_"
NAME_CHARS = NAME_START + "0123456789.-_"
ENTITIES = [(b"&lt;", b"<"), (b"&gt;", b">"), (b"&amp;", b"&"), (b"&apos;", b"'"), (b"&quot;", b'"')]
INTERESTING_CP = [0x9, 0xa, 0xd, 0x20, 0x26, 0x3c, 0x3e, 0x22, 0x27, 0x41, 0x7f, 0x80, 0xe9, 0x7ff, 0x800, 0x20ac, 0xd7ff, 0xe000,
                  0xfffd, 0x10000, 0x1f600, 0x10ffff]
TAG_WS = [b" ", b" ", b" ", b"  ", b"\t", b"\n", b"\r\n", b" \n\t "]
TEXT_LITERALS = [chr(c).encode() for c in range(0x21, 0x7f) if chr(c) not in "<&>"]


def valid_cp(rng):
    r = rng.random()
    if r < 0.4:
        return rng.choice(INTERESTING_CP)
    if r < 0.6:
        return rng.randrange(0x20, 0x7f)
    if r < 0.75:
        return rng.randrange(0x80, 0x800)
    if r < 0.9:
        while True:
            c = rng.randrange(0x800, 0xfffe)
            if not 0xd800 <= c <= 0xdfff:
                return c
    return rng.randrange(0x10000, 0x110000)


def charref(rng, cp):
    r = rng.randrange(4)
    if r == 0:
        return b"&#%d;" % cp
    if r == 1:
        return b"&#x%x;" % cp
    if r == 2:
        return b"&#x%X;" % cp
    return b"&#x" + (b"0" * rng.randrange(1, 4)) + b"%x;" % cp if rng.random() < 0.5 else b"&#" + (b"0" * rng.randrange(1, 3)) + b"%d;" % cp


class Doc:
    __slots__ = ("data", "pull", "dom", "needs", "feat", "spans", "root_name")


class Gen:
    def __init__(self, rng, max_depth=5, max_children=4, max_attrs=4, fancy=0.3):
        self.rng = rng
        self.max_depth, self.max_children, self.max_attrs, self.fancy = max_depth, max_children, max_attrs, fancy
        self.out = bytearray()
        self.pull, self.dom = [], []
        self.feat = set()
        self.spans = []        # (kind, start, end, name) for tag-aware mutation: kind in 'start','end','empty'
        self.prefixes = []

    # ---- surface helpers
    def ws(self, must=False):
        r = self.rng
        if must or r.random() < self.fancy:
            w = r.choice(TAG_WS)
            if w != b" ":
                self.feat.add("tagws:fancy")
            return w
        return b""

    def ncname(self, long_p=0.03):
        r = self.rng
        n = r.choice([1, 1, 2, 3, 4, 6, 9]) if r.random() >= long_p else r.randrange(20, 60)
        if n >= 20:
            self.feat.add("name:long")
        s = r.choice(NAME_START) + "".join(r.choice(NAME_CHARS) for _ in range(n - 1))
        if s.lower().startswith("xml"):
            s = "n" + s
        return s.encode()

    def qname(self):
        r = self.rng
        if r.random() < 0.25:
            p = r.choice(self.prefixes) if self.prefixes and r.random() < 0.7 else self.ncname(0)
            if p not in self.prefixes:
                self.prefixes.append(p)
            self.feat.add("name:prefixed")
            return p + b":" + self.ncname()
        return self.ncname()

    def char_pieces(self, n, ctx):
        """ctx: 'text' | 'attr\"' | "attr'"  -> list of (surface, decoded, is_literal_ws)"""
        r = self.rng
        out = []
        prev2 = b""
        for _ in range(n):
            k = r.randrange(14)
            if k < 5:
                c = r.choice(TEXT_LITERALS)
                if ctx == 'attr"' and c == b'"':
                    c = b"'"
                    self.feat.add("attr:other-quote-inside")
                elif ctx == "attr'" and c == b"'":
                    c = b'"'
                    self.feat.add("attr:other-quote-inside")
                out.append((c, c, False))
            elif k == 5:
                if ctx == "text":
                    w = r.choice([b" ", b" ", b"\n", b"\t", b"  ", b"\n  "])
                    out.append((w, w, True))
                else:
                    out.append((b" ", b" ", False))
            elif k == 6:
                s, d = r.choice(ENTITIES)
                self.feat.add("ref:entity")
                out.append((s, d, False))
            elif k == 7:
                cp = valid_cp(r)
                self.feat.add("ref:char-astral" if cp >= 0x10000 else "ref:char-ws" if cp in (9, 10, 13, 32) else "ref:char")
                out.append((charref(r, cp), chr(cp).encode("utf-8"), False))
            elif k == 8:
                cp = valid_cp(r)
                if cp < 0x80:
                    cp = 0xe9
                c = chr(cp).encode("utf-8")
                self.feat.add("raw:utf8-%d" % len(c))
                out.append((c, c, False))
            elif k == 9 and ctx == "text":
                # '>' is legal in text unless it completes "]]>"
                if not prev2.endswith(b"]]"):
                    out.append((b">", b">", False))
                    self.feat.add("text:literal-gt")
                else:
                    out.append((b"&gt;", b">", False))
            elif k == 10 and ctx != "text":
                out.append((b">", b">", False))
                self.feat.add("attr:literal-gt")
            elif k == 11:
                out.append((b"]", b"]", False))
            elif k == 12:
                s = r.choice([b"&#9;", b"&#10;", b"&#13;", b"&#x20;", b"&#xA;"])
                d = bytes([int(s[3:-1], 16) if s[2:3] == b"x" else int(s[2:-1])])
                self.feat.add("ref:char-ws")
                out.append((s, d, False))
            else:
                c = r.choice([b"a", b"Z", b"0", b";", b"#", b"=", b"/", b"?", b"!", b"-"])
                out.append((c, c, False))
            prev2 = (prev2 + out[-1][0])[-2:]
        return out

    # ---- nodes
    def attributes(self):
        r = self.rng
        n = r.randrange(0, self.max_attrs + 1) if r.random() < 0.7 else 0
        names = set()
        attrs = []
        parts = bytearray()
        for i in range(n):
            if r.random() < 0.12:
                p = self.ncname(0)
                nm = b"xmlns:" + p if r.random() < 0.7 else b"xmlns"
                if nm != b"xmlns" and p not in self.prefixes:
                    self.prefixes.append(p)
                self.feat.add("attr:xmlns")
            else:
                nm = self.qname() if r.random() < 0.2 else self.ncname()
            if nm in names:
                continue
            names.add(nm)
            q = r.choice(['"', '"', "'"])
            if q == "'":
                self.feat.add("attr:single-quoted")
            pieces = self.char_pieces(r.choice([0, 1, 2, 3, 5, 9]) if r.random() < 0.95 else r.randrange(30, 120), "attr" + q)
            if not pieces:
                self.feat.add("attr:empty-value")
            raw = b"".join(p[0] for p in pieces)
            dec = b"".join(p[1] for p in pieces)
            eq = self.ws() + b"=" + self.ws()
            if len(eq) > 1:
                self.feat.add("attr:ws-around-eq")
            parts += self.ws(must=True) + nm + eq + q.encode() + raw + q.encode()
            attrs.append((nm, raw, dec))
        if len(attrs) >= 3:
            self.feat.add("attr:many")
        return bytes(parts), attrs

    def text(self):
        """-> (surface, raw_expected, decoded_expected) ; raw_expected == b'' means whitespace-only (not reported)"""
        r = self.rng
        pieces = self.char_pieces(r.choice([1, 2, 3, 5, 8, 13]) if r.random() < 0.95 else r.randrange(40, 200), "text")
        surface = b"".join(p[0] for p in pieces)
        i = 0
        while i < len(pieces) and pieces[i][2]:
            i += 1
        if i:
            self.feat.add("text:leading-ws")
        raw = b"".join(p[0] for p in pieces[i:])
        dec = b"".join(p[1] for p in pieces[i:])
        if raw and pieces[-1][2]:
            self.feat.add("text:trailing-ws")
        return surface, raw, dec

    def cdata(self):
        r = self.rng
        n = r.choice([0, 1, 3, 8, 20])
        body = bytearray()
        for _ in range(n):
            body += r.choice([b"<", b"&", b">", b"]", b"]]", b"'", b'"', b" ", b"\n", b"a", b"&amp;", b"<b>", b"\xc3\xa9", b"-->", b"?>", b"<![CDATA["])
        body = bytes(body)
        while b"]]>" in body:
            body = body.replace(b"]]>", b"]] >")
        self.feat.add("cdata" if body else "cdata:empty")
        return body

    def comment(self):
        r = self.rng
        n = r.choice([0, 1, 3, 8, 20])
        body = bytearray()
        for _ in range(n):
            body += r.choice([b"<", b"&", b">", b"]", b"'", b'"', b" ", b"\n", b"a", b"&bogus;", b"<b>", b"\xe2\x82\xac", b"- ", b"?>", b"]]>", b"<!"])
        body = bytes(body)
        while b"--" in body:
            body = body.replace(b"--", b"- -")
        if body.endswith(b"-"):
            body += b" "
        self.feat.add("comment" if body else "comment:empty")
        return body

    def pi(self):
        r = self.rng
        target = self.ncname(0)
        sep = r.choice([b" ", b"  ", b"\n", b"\t "])
        n = r.choice([0, 1, 3, 8])
        body = bytearray()
        for _ in range(n):
            body += r.choice([b"<", b"&", b">", b"a", b"=", b'"x"', b" ", b"?", b"&lt;", b"-->", b"\xc3\xa9"])
        body = bytes(body)
        while b"?>" in body:
            body = body.replace(b"?>", b"? >")
        if not body:
            self.feat.add("pi:no-data")
            raw = r.choice([b"", sep])
        else:
            self.feat.add("pi")
            raw = sep + body
        return target, raw

    def emit_misc(self, depth):
        """comment or PI (allowed anywhere)"""
        r = self.rng
        if r.random() < 0.5:
            c = self.comment()
            self.out += b"<!--" + c + b"-->"
            self.pull.append(("K", b"", c, [], depth, None))
            self.dom.append(("M", c))
        else:
            t, raw = self.pi()
            self.out += b"<?" + t + raw + b"?>"
            self.pull.append(("P", t, raw, [], depth, None))
            self.dom.append(("P", t, raw))

    def element(self, depth):
        r = self.rng
        name = self.qname()
        nprefix = len(self.prefixes)
        atxt, attrs = self.attributes()
        start = len(self.out)
        leaf = depth >= self.max_depth or r.random() < 0.3
        kinds = []
        if not leaf:
            n = r.randrange(0, self.max_children + 1)
            prev_text = False
            for _ in range(n):
                k = r.choice(["elem", "elem", "elem", "text", "text", "cdata", "comment", "pi"])
                if k == "text" and prev_text:
                    k = "elem"
                kinds.append(k)
                prev_text = k == "text"
        if not kinds and r.random() < 0.5:
            # <a/>
            self.out += b"<" + name + atxt + self.ws() + b"/>"
            self.spans.append(("empty", start, len(self.out), name))
            self.pull.append(("M", name, b"", attrs, depth, None))
            self.dom.append(("E", name, [(a, d) for a, _, d in attrs]))
            self.dom.append(("/",))
            self.feat.add("elem:self-closing")
            del self.prefixes[nprefix:]
            return
        self.out += b"<" + name + atxt + self.ws() + b">"
        self.spans.append(("start", start, len(self.out), name))
        self.pull.append(("S", name, b"", attrs, depth, None))
        self.dom.append(("E", name, [(a, d) for a, _, d in attrs]))
        if not kinds:
            self.feat.add("elem:empty-pair")
        for i, k in enumerate(kinds):
            nxt = kinds[i + 1] if i + 1 < len(kinds) else None
            if k == "elem":
                self.element(depth + 1)
            elif k == "text":
                surface, raw, dec = self.text()
                self.out += surface
                if raw:
                    self.pull.append(("T", b"", raw, [], depth, dec))
                    self.dom.append(("T", dec))
                else:
                    self.feat.add("text:whitespace-only")
            elif k == "cdata":
                c = self.cdata()
                self.out += b"<![CDATA[" + c + b"]]>"
                self.pull.append(("C", b"", c, [], depth, None))
                self.dom.append(("C", c))
            else:
                self.emit_misc(depth)
            # formatting whitespace between two non-text nodes (never reported)
            if k != "text" and nxt != "text" and r.random() < self.fancy:
                self.out += r.choice([b"\n", b"\n  ", b" ", b"\t", b"\n\n"])
                self.feat.add("formatting-ws")
        s2 = len(self.out)
        self.out += b"</" + name + self.ws() + b">"
        self.spans.append(("end", s2, len(self.out), name))
        self.pull.append(("E", name, b"", [], depth, None))
        self.dom.append(("/",))
        del self.prefixes[nprefix:]

    def doctype(self, root):
        r = self.rng
        body = bytearray()
        body += r.choice([b" ", b"  ", b"\n"]) + root
        k = r.randrange(4)
        if k == 1:
            body += b' SYSTEM "http://example.invalid/a.dtd"'
            self.feat.add("doctype:system")
        elif k == 2:
            body += b" PUBLIC '-//X//DTD Y//EN' \"y.dtd\""
            self.feat.add("doctype:public")
        if r.random() < 0.6:
            self.feat.add("doctype:internal-subset")
            sub = bytearray()
            for _ in range(r.randrange(0, 5)):
                d = r.randrange(7)
                if d == 0:
                    sub += b"<!ELEMENT " + root + b" ANY>"
                elif d == 1:
                    sub += b'<!ENTITY %s "%s">' % (self.ncname(0), r.choice([b"v", b"a&#38;b", b"", b"x y"]))
                elif d == 2:
                    sub += b"<!ATTLIST " + root + b" " + self.ncname(0) + b" CDATA #IMPLIED>"
                elif d == 3:
                    sub += b"<!-- subset comment -->"
                elif d == 4:
                    sub += b"<?subset-pi data?>"
                elif d == 5:
                    sub += b'<!ENTITY %s SYSTEM "file:///etc/hostname">' % self.ncname(0)
                    self.feat.add("doctype:external-entity-decl")
                else:
                    sub += b'<!NOTATION %s SYSTEM "n">' % self.ncname(0)
                sub += r.choice([b"", b"\n", b" "])
            if r.random() < 0.12:
                # '[', ']' and '>' inside literals, comments and PIs of the subset are not delimiters
                self.feat.add("doctype:delimiters-in-literals")
                sub += r.choice([b"<!-- ] > [ -->", b"<!-- it's ]> -->", b"<?pi ] > [ ?>", b'<!ENTITY %s "]>">' % self.ncname(0), b"<!ENTITY %s '[<a>]'>" % self.ncname(0),
                                 b'<!ENTITY %s "a]">' % self.ncname(0), b"<!-- [ -->"])
            body += r.choice([b" ", b""]) + b"[" + bytes(sub) + b"]" + r.choice([b"", b" ", b"\n"])
        else:
            body += r.choice([b"", b" "])
        raw = bytes(body)
        self.out += b"<!DOCTYPE" + raw + b">"
        self.pull.append(("D", b"", raw, [], 0, None))

    def document(self):
        r = self.rng
        if r.random() < 0.04:
            self.out += b"\xef\xbb\xbf"          # UTF-8 byte order mark: an encoding signature, not content
            self.feat.add("bom")
        if r.random() < 0.4:
            decl = r.choice([b' version="1.0"', b" version='1.0' encoding='UTF-8'", b' version="1.0" encoding="utf-8" standalone="yes"',
                             b' version="1.0"  standalone=\'no\' ', b' version = "1.0"'])
            self.out += b"<?xml" + decl + b"?>"
            self.pull.append(("P", b"xml", decl, [], 0, None))
            self.dom.append(("P", b"xml", decl))
            self.feat.add("xmldecl")
        elif r.random() < 0.1:
            self.out += r.choice([b"\n", b" ", b"\t\n"])       # leading whitespace (only legal without an XML declaration)
            self.feat.add("leading-ws")
        def misc():
            while r.random() < 0.25:
                self.out += r.choice([b"", b"\n", b" "])
                self.emit_misc(0)
                self.feat.add("misc-outside-root")
            self.out += r.choice([b"", b"", b"\n", b"  "])
        misc()
        g_root = self.qname()
        # the root's name must be known before the DOCTYPE: generate the root into a side buffer
        if r.random() < 0.3:
            self.doctype(g_root)
            misc()
        save_q = self.qname
        first = [True]
        def forced():
            if first[0]:
                first[0] = False
                return g_root
            return save_q()
        self.qname = forced
        self.element(1)
        self.qname = save_q
        misc()
        d = Doc()
        d.data = bytes(self.out)
        d.pull, d.dom, d.feat, d.spans, d.root_name = self.pull, self.dom, sorted(self.feat), self.spans, g_root
        d.needs = needs_of(self.pull)
        return d


def needs_of(pull):
    depth = attrs = name = text = 0
    for k, nm, tx, at, dp, _ in pull:
        if k in ("S", "M"):
            depth = max(depth, dp)
            attrs = max(attrs, len(at))
        name = max(name, len(nm))
        for an, raw, _d in at:
            name = max(name, len(an))
            text = max(text, len(raw))
        if k == "T":
            text = max(text, len(tx))
    return dict(depth=depth, attrs=attrs, name=name, text=text, tokens=len(pull))


def gen_doc(rng):
    g = Gen(rng, max_depth=rng.choice([1, 2, 3, 4, 6, 9]), max_children=rng.choice([1, 2, 3, 4, 6]), max_attrs=rng.choice([0, 1, 2, 4, 7]),
            fancy=rng.choice([0.0, 0.15, 0.5]))
    return g.document()


# ---- documents using entities that are not predefined (must never be expanded)
def gen_undefined_entity_doc(rng):
    name = rng.choice([b"foo", b"nbsp", b"copy", b"ext", b"e1", b"LT", b"Amp"])
    declared = rng.choice(["no", "internal", "external"])
    out = bytearray()
    if declared == "internal":
        out += b'<!DOCTYPE r [<!ENTITY %s "EXPANDED-%s">]>' % (name, name)
    elif declared == "external":
        out += b'<!DOCTYPE r [<!ENTITY %s SYSTEM "file:///etc/hostname">]>' % name
    where = rng.choice(["text", "attr"])
    ref = b"&" + name + b";"
    if where == "text":
        out += b"<r>a" + ref + b"b</r>"
    else:
        out += b'<r k="a' + ref + b'b"/>'
    return bytes(out), dict(name=name, declared=declared, where=where)


# ------------------------------------------------------------------------------- mutants
INTERESTING = b"<>/&;=\"'![]-? \t\n\r\x00\x01\x7f\x80\xc3\xe2\xf0\xff#xX:_.aA0"
DICT = [b"<", b">", b"</", b"/>", b"<!--", b"-->", b"<![CDATA[", b"]]>", b"<?", b"?>", b"<!DOCTYPE", b"<!DOCTYPE a [", b"]>", b"&", b"&#", b"&#x",
        b"&amp;", b"&bogus;", b"&#0;", b"&#xD800;", b"&#x110000;", b"&#4294967361;", b"&#x;", b"<a>", b"</a>", b"<a/>", b"<a ", b" b='", b'="', b"<a:b>", b"<:>",
        b"<?xml version='1.0'?>", b"<!ENTITY x SYSTEM 'f'>", b"\xef\xbb\xbf", b"<a\x00>", b"< a>", b"<1>", b"<a b=c>", b"<a b>", b"<!-", b"<![CDATA", b"<!doctype x>"]
UNTERMINATED = [b"<", b"<a", b"<a ", b"<a b", b"<a b=", b'<a b="', b'<a b="v', b"<a/", b"</", b"</a", b"</a ", b"<!", b"<!-", b"<!--", b"<!-- x", b"<!-- x -", b"<!-- x --",
                b"<![", b"<![CDATA[", b"<![CDATA[x", b"<![CDATA[x]", b"<![CDATA[x]]", b"<?", b"<?p", b"<?p x", b"<?p x?", b"<!DOCTYPE", b"<!DOCTYPE a", b"<!DOCTYPE a [",
                b"<!DOCTYPE a [<!ENTITY", b"&", b"&#", b"&#x1", b"&am"]


def other_name(rng, name):
    """a different name of the same length (catches length-only comparisons)"""
    b = bytearray(name)
    for _ in range(10):
        i = rng.randrange(len(b))
        c = rng.choice(NAME_START).encode()[0] if i == 0 else rng.choice(NAME_CHARS).encode()[0]
        if c != b[i]:
            b[i] = c
            return bytes(b)
    return bytes(b[:-1]) + (b"X" if b[-1:] != b"X" else b"Y")


def mutate(rng, docs):
    """docs: list of Doc. -> (bytes, mutator name)"""
    d = rng.choice(docs)
    s = bytearray(d.data)
    k = rng.randrange(20)
    ends = [sp for sp in d.spans if sp[0] == "end"]
    starts = [sp for sp in d.spans if sp[0] == "start"]
    if k == 0:
        for _ in range(rng.choice([1, 1, 2, 3])):
            i = rng.randrange(len(s)); s[i] ^= 1 << rng.randrange(8)
        return bytes(s), "bitflip"
    if k == 1:
        for _ in range(rng.choice([1, 1, 2])):
            s[rng.randrange(len(s))] = rng.choice(INTERESTING)
        return bytes(s), "byte-replace"
    if k == 2:
        return bytes(s[:rng.randrange(len(s))]), "truncate"
    if k == 3:
        return bytes(s[:rng.randrange(len(s))]) + rng.choice(UNTERMINATED), "truncate+unterminated-construct"
    if k == 4:
        return bytes(s) + rng.choice(UNTERMINATED), "append-unterminated-construct"
    if k == 5:
        i = rng.randrange(len(s)); j = min(len(s), i + rng.randrange(1, 6))
        del s[i:j]
        return bytes(s), "delete-range"
    if k == 6:
        i = rng.randrange(len(s) + 1)
        s[i:i] = rng.choice(DICT)
        return bytes(s), "insert-token"
    if k == 7:
        i = rng.randrange(len(s) + 1)
        s[i:i] = bytes(rng.randrange(256) for _ in range(rng.randrange(1, 5)))
        return bytes(s), "insert-random"
    if k == 8:
        o = rng.choice(docs).data
        i = rng.randrange(len(s) + 1); j = rng.randrange(len(o) + 1)
        return bytes(s[:i]) + o[j:], "splice"
    if k == 9 and ends:
        _, a, b, _n = rng.choice(ends)
        del s[a:b]
        return bytes(s), "delete-end-tag"
    if k == 10 and ends:
        _, a, b, n = rng.choice(ends)
        new = other_name(rng, n)
        s[a:b] = bytes(s[a:b]).replace(n, new, 1)
        return bytes(s), "rename-end-tag-same-length"
    if k == 11 and len(ends) >= 2:
        e1, e2 = sorted(rng.sample(ends, 2), key=lambda e: e[1])
        t1, t2 = bytes(s[e1[1]:e1[2]]), bytes(s[e2[1]:e2[2]])
        s[e2[1]:e2[2]] = t1
        s[e1[1]:e1[2]] = t2
        return bytes(s), "swap-end-tags"
    if k == 12 and ends:
        _, a, b, _n = rng.choice(ends)
        s[b:b] = s[a:b]
        return bytes(s), "duplicate-end-tag"
    if k == 13 and starts:
        _, a, b, _n = rng.choice(starts)
        del s[a:b]
        return bytes(s), "delete-start-tag"
    if k == 14 and starts:
        _, a, b, _n = rng.choice(starts)
        s[b:b] = s[a:b]
        return bytes(s), "duplicate-start-tag"
    if k == 15:
        n = rng.choice([2, 3, 4, 5, 255, 256, 257, 258, 1000])
        nm = rng.choice([b"a", b"ab", b"n:x"])
        full = rng.random() < 0.6
        return (b"<" + nm + b">") * n + ((b"</" + nm + b">") * (n - rng.choice([0, 0, 1])) if full else b""), "nesting-bomb"
    if k == 16:
        n = rng.choice([1, 2, 3, 255, 256, 257, 300])
        return b"<a" + b"".join(b" a%d='%d'" % (i, i) for i in range(n)) + b"/>", "attribute-flood"
    if k == 17:
        n = rng.choice([1, 4, 5, 1023, 1024, 1025, 2000])
        which = rng.randrange(4)
        nm = b"n" * n
        return [b"<" + nm + b"/>", b"<a " + nm + b"='1'/>", b"<?" + nm + b" x?><a/>", b"<a></" + nm + b">"][which], "long-name"
    if k == 18:
        i = s.find(b"&")
        if i >= 0:
            j = s.find(b";", i)
            if j > i:
                s[i:j + 1] = rng.choice([b"&bogus;", b"&#0;", b"&#xD800;", b"&#x110000;", b"&#99999999999;", b"&amp", b"&;", b"&#;", b"&#x;", b"& amp;", b"&AMP;", b"&#xg;"])
                return bytes(s), "damage-reference"
        return bytes(s) + b"<a>&bogus;</a>", "damage-reference"
    if k == 19:
        return bytes(rng.randrange(256) for _ in range(rng.randrange(0, 24))), "random-bytes"
    i = rng.randrange(len(s)); j = min(len(s), i + rng.randrange(1, 30))
    s[i:i] = s[i:j]
    return bytes(s), "duplicate-range"


def big_inputs(sizes):
    fam = []
    for n in sizes:
        fam += [
            ("open-tags", n, (b"<a>" * (n // 3))),
            ("nested-balanced", n, b"<a>" * (n // 7) + b"</a>" * (n // 7)),
            ("self-closing-siblings", n, b"<r>" + b"<a/>" * (n // 4) + b"</r>"),
            ("long-text", n, b"<r>" + b"x" * n + b"</r>"),
            ("text-with-entities", n, b"<r>" + b"&amp;" * (n // 5) + b"</r>"),
            ("text-with-ampersands", n, b"<r>" + b"&" * n + b"</r>"),
            ("many-comments", n, b"<r>" + b"<!--c-->" * (n // 8) + b"</r>"),
            ("unterminated-comment", n, b"<r><!--" + b"-" * n),
            ("comment-dashes", n, b"<r><!--" + b"- " * (n // 2) + b"--></r>"),
            ("unterminated-cdata", n, b"<r><![CDATA[" + b"]" * n),
            ("many-pis", n, b"<?p d?>" * (n // 7) + b"<r/>"),
            ("many-attributes", n, b"<r" + b"".join(b" a%d='v'" % i for i in range(n // 9)) + b"/>"),
            ("long-attribute-value", n, b"<r a='" + b"v" * n + b"'/>"),
            ("long-name", n, b"<" + b"n" * n + b"/>"),
            ("doctype-brackets", n, b"<!DOCTYPE r " + b"[" * n),
            ("whitespace", n, b" " * n + b"<r/>"),
            ("many-small-texts", n, b"<r>" + b"t<a/>" * (n // 5) + b"</r>"),
            ("unclosed-deep", n, b"<a>" * min(n // 3, 4000)),
            ("mismatched-end-tags", n, b"<r>" + b"</x>" * (n // 4)),
        ]
    return fam
