# /verif/lib/c16_respframer.py — independent reference HTTP/1.1 *response* framer (stdlib only).
#
# Splits the raw byte stream a client read from one connection into responses, following
# RFC 9112 §6.3 message-body-length rules from the receiving side:
#   1. response to HEAD, 1xx, 204, 304            -> no body (whatever Content-Length says)
#   2. Transfer-Encoding: chunked (final coding)    -> chunked framing
#   3. Content-Length (single valid value)          -> exactly that many bytes
#   4. otherwise                                    -> body runs until the connection closes
# It shares no code with iora and knows nothing about what the server intended: whether a
# response answers a HEAD request is supplied by the caller (callback), everything else is read
# from the bytes. Malformations are *reported* (Resp.problems / Garbage spans), never repaired;
# after bytes that cannot start a response the framer resynchronises at the next "HTTP/1." so
# that the remaining stream can still be judged.
import re

_STATUS_LINE = re.compile(rb"^HTTP/(\d)\.(\d) (\d{3})(?: ([^\r\n]*))?$")
_TOKEN = re.compile(rb"^[!#$%&'*+\-.^_`|~0-9A-Za-z]+$")
_BODYLESS = (204, 304)


class Resp:
    __slots__ = ("index", "start", "head_end", "end", "version", "status", "reason", "headers",
                 "body", "framing", "complete", "problems", "is_head", "declared_length")

    def __init__(self):
        self.index = 0
        self.start = 0          # offset of the first status-line byte
        self.head_end = 0       # offset just after the blank line
        self.end = 0            # offset just after the last byte of this response (if complete)
        self.version = None
        self.status = None
        self.reason = None
        self.headers = []       # list of (name bytes as sent, value bytes stripped of OWS)
        self.body = b""
        self.framing = None     # 'head' | 'nobody-status' | 'chunked' | 'length' | 'until-close'
        self.complete = False
        self.problems = []
        self.is_head = False
        self.declared_length = None

    def get_all(self, name):
        n = name.lower().encode() if isinstance(name, str) else name.lower()
        return [v for k, v in self.headers if k.lower() == n]

    def get(self, name, default=None):
        v = self.get_all(name)
        return v[0] if v else default

    def summary(self):
        return dict(index=self.index, start=self.start, end=self.end, status=self.status,
                    framing=self.framing, complete=self.complete, body_len=len(self.body),
                    declared_length=self.declared_length, problems=list(self.problems),
                    headers=[(k.decode("latin-1"), v.decode("latin-1")[:80]) for k, v in self.headers][:12])


class Garbage:
    """bytes found where a status line had to start"""
    __slots__ = ("start", "end", "data")

    def __init__(self, start, end, data):
        self.start, self.end, self.data = start, end, data


class Framed:
    def __init__(self):
        self.responses = []     # complete and (at most one, last) incomplete Resp, in stream order
        self.garbage = []       # Garbage spans
        self.consumed = 0       # offset up to which the stream was framed into complete messages


def _parse_head(data, start, head_end, r):
    """status line + header fields between start and head_end (exclusive of the final CRLFCRLF)."""
    block = data[start:head_end]
    lines = block.split(b"\r\n")
    m = _STATUS_LINE.match(lines[0])
    if not m:
        r.problems.append("bad-status-line")
        # try to salvage a status code so later checks can still talk about it
        m2 = re.match(rb"^HTTP/\d\.\d +(\d{3})", lines[0])
        if m2:
            r.status = int(m2.group(1))
    else:
        r.version = (int(m.group(1)), int(m.group(2)))
        r.status = int(m.group(3))
        r.reason = m.group(4) or b""
        if m.group(4) is None:
            r.problems.append("status-line-without-reason-separator")
    for ln in lines[1:]:
        if b"\n" in ln or b"\r" in ln:
            r.problems.append("bare-cr-or-lf-in-header")
        if not ln:
            r.problems.append("empty-line-inside-header-block")
            continue
        if ln[:1] in (b" ", b"\t"):
            r.problems.append("obs-fold-in-response")
            continue
        c = ln.find(b":")
        if c <= 0:
            r.problems.append("header-line-without-colon")
            continue
        name, value = ln[:c], ln[c + 1:].strip(b" \t")
        if not _TOKEN.match(name):
            r.problems.append("bad-header-name")
        r.headers.append((name, value))


def _chunked(data, pos, eof):
    """returns (complete, end_offset, body, problems)"""
    body = []
    problems = []
    n = len(data)
    while True:
        e = data.find(b"\r\n", pos)
        if e < 0:
            return False, pos, b"".join(body), problems
        line = data[pos:e]
        size_s = line.split(b";", 1)[0].strip(b" \t")
        if not re.match(rb"^[0-9A-Fa-f]+$", size_s):
            problems.append("bad-chunk-size")
            return False, pos, b"".join(body), problems
        size = int(size_s, 16)
        pos = e + 2
        if size == 0:
            # trailer section: zero or more field lines, then an empty line
            while True:
                e = data.find(b"\r\n", pos)
                if e < 0:
                    return False, pos, b"".join(body), problems
                if e == pos:
                    return True, e + 2, b"".join(body), problems
                pos = e + 2
        if pos + size + 2 > n:
            return False, pos, b"".join(body), problems
        body.append(data[pos:pos + size])
        if data[pos + size:pos + size + 2] != b"\r\n":
            problems.append("chunk-data-not-followed-by-crlf")
            return False, pos, b"".join(body), problems
        pos += size + 2


def frame_stream(data, is_head, eof):
    """data: all bytes read from the connection, in order.
    is_head(index, resp) -> bool: does the response with this ordinal / these headers answer a HEAD
    request (resp has status and headers filled in when the callback runs).
    eof: the peer closed the connection after the last byte of data."""
    out = Framed()
    pos, n, idx = 0, len(data), 0
    while pos < n:
        avail = data[pos:pos + 7]
        if avail != b"HTTP/1."[:len(avail)]:
            nxt = data.find(b"HTTP/1.", pos + 1)
            end = nxt if nxt >= 0 else n
            out.garbage.append(Garbage(pos, end, data[pos:end]))
            pos = end
            continue
        r = Resp()
        r.index, r.start = idx, pos
        he = data.find(b"\r\n\r\n", pos)
        if he < 0:
            r.complete = False
            r.framing = "head-incomplete"
            r.end = n
            out.responses.append(r)
            return out
        r.head_end = he + 4
        _parse_head(data, pos, he, r)
        r.is_head = bool(is_head(idx, r))
        cls = r.get_all("content-length")
        tes = b",".join(r.get_all("transfer-encoding")).lower()
        if cls:
            vals = set()
            for v in cls:
                for part in v.split(b","):
                    part = part.strip(b" \t")
                    if not re.match(rb"^\d+$", part):
                        r.problems.append("content-length-not-a-number")
                    else:
                        vals.add(int(part))
            if len(vals) > 1:
                r.problems.append("conflicting-content-length")
            if len(vals) == 1 and "content-length-not-a-number" not in r.problems:
                r.declared_length = vals.pop()
        if cls and tes:
            r.problems.append("content-length-with-transfer-encoding")
        st = r.status or 0
        if r.is_head:
            r.framing, r.end, r.complete = "head", r.head_end, True
        elif 100 <= st < 200 or st in _BODYLESS:
            r.framing, r.end, r.complete = "nobody-status", r.head_end, True
        elif tes:
            if tes.split(b",")[-1].strip() == b"chunked":
                r.framing = "chunked"
                ok, end, body, probs = _chunked(data, r.head_end, eof)
                r.body, r.problems = body, r.problems + probs
                r.complete = ok
                r.end = end if ok else n
            else:
                r.framing = "until-close"
                r.body, r.end, r.complete = data[r.head_end:], n, bool(eof)
        elif r.declared_length is not None:
            r.framing = "length"
            want = r.head_end + r.declared_length
            if want <= n:
                r.body, r.end, r.complete = data[r.head_end:want], want, True
            else:
                r.body, r.end, r.complete = data[r.head_end:], n, False
        else:
            r.framing = "until-close"
            r.body, r.end, r.complete = data[r.head_end:], n, bool(eof)
        out.responses.append(r)
        idx += 1
        if not r.complete:
            return out
        out.consumed = r.end
        pos = r.end
    return out


# ------------------------------------------------------------------------------------ self-test
def _selftest():
    s = (b"HTTP/1.1 200 OK\r\nContent-Length: 3\r\nX-Token: a\r\n\r\nabc"
         b"HTTP/1.1 200 OK\r\nContent-Length: 5\r\nX-Token: h\r\n\r\n"          # HEAD
         b"HTTP/1.1 204 No Content\r\nAllow: GET\r\n\r\n"
         b"HTTP/1.1 200 OK\r\nTransfer-Encoding: chunked\r\n\r\n3\r\nabc\r\n2;x=y\r\nde\r\n0\r\nT: v\r\n\r\n"
         b"junkHTTP/1.1 404 Not Found\r\nContent-Length: 9\r\n\r\nNot Fo")
    f = frame_stream(s, lambda i, r: r.get("x-token") == b"h", eof=True)
    st = [(r.status, r.framing, r.complete, r.body) for r in f.responses]
    assert st[0] == (200, "length", True, b"abc"), st
    assert st[1] == (200, "head", True, b""), st
    assert st[2] == (204, "nobody-status", True, b""), st
    assert st[3] == (200, "chunked", True, b"abcde"), st
    assert st[4] == (404, "length", False, b"Not Fo"), st
    assert len(f.garbage) == 1 and f.garbage[0].data == b"junk"
    f = frame_stream(b"HTTP/1.1 200 OK\r\n\r\nrest", lambda i, r: False, eof=False)
    assert f.responses[0].framing == "until-close" and not f.responses[0].complete
    f = frame_stream(b"HTT", lambda i, r: False, eof=False)
    assert f.responses and f.responses[0].framing == "head-incomplete" and not f.garbage, (f.responses, f.garbage)
    f = frame_stream(b"HTTP/1.1 200 OK\r\nContent-Length: 1\r\nContent-Length: 2\r\n\r\nab", lambda i, r: False, eof=True)
    assert "conflicting-content-length" in f.responses[0].problems
    return True


if __name__ == "__main__":
    print("selftest ok" if _selftest() else "selftest FAILED")
