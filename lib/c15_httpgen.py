# /verif/lib/c15_httpgen.py — C15 generator + ground truth for HTTP/1.1 framing.
#
# Own encoder, no iora code: every stream is built from a list of message objects and that list
# *is* the reference framing (the oracle never parses bytes with iora, and never needs to parse
# at all: what was encoded is what must come out). stdlib only.
import hashlib, random

CRLF = b"\r\n"
SERVER_CAP = 1024 * 1024          # HttpServer SessionInfo::MAX_BUFFER_SIZE (effective request cap)
SERVER_HEADER_CAP = 64 * 1024     # SessionInfo::MAX_HEADER_SIZE
CLIENT_CAP = 1024 * 1024          # configured by the harness: maxResponseBytes = json maxPayloadSize
CLIENT_TRANSPORT_CAP = 1024 * 1024  # TransportConfig::maxSyncReceiveBuffer (default) below the client

RESERVED = {"host", "content-length", "transfer-encoding", "connection", "upgrade", "trailer", "expect",
            "te", "keep-alive", "proxy-connection", "x-forwarded-for", "forwarded", "via"}

NAME_POOL = ["Accept", "Accept-Encoding", "Accept-Language", "Authorization", "Cache-Control", "Content-Type",
             "Cookie", "Date", "If-None-Match", "Origin", "Pragma", "Referer", "User-Agent", "X-Request-Id",
             "X-Trace", "X-Api-Key", "X-A", "X-Note", "X-Te", "X-Len", "Etag", "Server", "Set-Cookie", "Vary",
             "Last-Modified", "Location", "Age", "X-Powered-By", "Content-Language", "X-Frame-Options"]

TRICKY_BODIES = [
    b"\r\n\r\n", b"0\r\n\r\n", b"\r\n0\r\n\r\n", b"GET /smuggled HTTP/1.1\r\nHost: x\r\n\r\n",
    b"HTTP/1.1 200 OK\r\nContent-Length: 5\r\n\r\nhello", b"5\r\nhello\r\n0\r\n\r\n", b"\r", b"\n", b"\r\n",
    b"Content-Length: 999\r\n", b"Transfer-Encoding: chunked\r\n\r\n", b"ffffffffffffffff\r\n", b"\x00" * 7,
    b"\r\n\r", b"\n\r\n", b"1\r\n", b"0\r\n", b"0;\r\n\r\n",
]


def sha1(b):
    return hashlib.sha1(b).hexdigest()


class Enc:
    """byte accumulator that records structural marks (positions worth cutting at)."""
    def __init__(self):
        self.buf = bytearray()
        self.marks = []

    def mark(self):
        self.marks.append(len(self.buf))

    def put(self, b, mark=True):
        if mark:
            self.mark()
        self.buf += b
        if mark:
            self.mark()


class Msg:
    """One HTTP/1.1 message. `headers` are (name, raw_value) as they go on the wire (raw_value may
    carry OWS); framing: none | cl | chunked | close."""
    def __init__(self, side):
        self.side = side
        self.method = "GET"
        self.path = "/"
        self.version = "1.1"
        self.status = 200
        self.reason = "OK"
        self.headers = []          # (name:str, raw value:bytes)
        self.body = b""
        self.framing = "none"
        self.chunks = []           # (size:int, sizetext:bytes, ext:bytes)
        self.last_chunk = b"0"
        self.trailers = []         # (name, raw value)
        self.cl_name = "Content-Length"
        self.cl_pad = 0            # leading zeros in the Content-Length value (1*DIGIT allows them)
        self.te_name = "Transfer-Encoding"
        self.te_value = b"chunked"
        self.framing_first = False # put the framing header before the others
        self.raw_body_wire = b""   # what followed the header block on the wire for this message
        self.bodyless_status = False

    # ---- class label used in violation keys
    def cls(self):
        if self.framing == "chunked":
            if self.trailers:
                return "chunked-trailers"
            if any(e for _, _, e in self.chunks) or self.last_chunk not in (b"0", b"00", b"000"):
                return "chunked-ext"
            return "chunked"
        if self.framing == "cl":
            return "content-length"
        if self.framing == "close":
            return "close-delimited"
        return "no-body"

    def features(self):
        f = [self.side, self.framing, self.cls()]
        n = len(self.body)
        f.append("b0" if n == 0 else "b<64" if n < 64 else "b<1k" if n < 1024 else "b<8k" if n < 8192 else "b<64k" if n < 65536 else "b>=64k")
        if self.framing == "chunked":
            k = len(self.chunks)
            f.append("k0" if k == 0 else "k1" if k == 1 else "k<8" if k < 8 else "k>=8")
            if any(len(t) > 1 and t.startswith(b"0") for _, t, _ in self.chunks):
                f.append("lead0")
            if any(t != t.lower() for _, t, _ in self.chunks):
                f.append("upperhex")
        if self.cl_pad:
            f.append("clpad")
        f.append("h%d" % min(len(self.headers), 6))
        if any(v != v.strip(b" \t") for _, v in self.headers):
            f.append("ows")
        if any(any(c >= 0x80 for c in v) for _, v in self.headers):
            f.append("obs-text")
        if self.side == "resp":
            f.append("s%d" % self.status)
            f.append("v" + self.version)
        else:
            f.append(self.method)
        return f

    def encode(self, e):
        if self.side == "req":
            e.put(("%s %s HTTP/%s" % (self.method, self.path, self.version)).encode("latin-1"))
        else:
            e.put(("HTTP/%s %d %s" % (self.version, self.status, self.reason)).encode("latin-1"))
        e.put(CRLF)
        hdrs = list(self.headers)
        fr = []
        if self.framing == "cl":
            fr.append((self.cl_name, self.cl_text().encode()))
        elif self.framing == "chunked":
            fr.append((self.te_name, self.te_value))
        if self.framing_first:
            hdrs = hdrs[:1] + fr + hdrs[1:]
        else:
            hdrs = hdrs + fr
        for n, v in hdrs:
            e.put(n.encode("latin-1") + b":" + v)
            e.put(CRLF)
        # header terminator: mark every byte of the final CRLFCRLF
        e.mark()
        e.buf += b"\r"
        e.mark()
        e.buf += b"\n"
        e.mark()
        start = len(e.buf)
        if self.framing in ("cl", "close"):
            if self.body:
                e.put(self.body)
        elif self.framing == "chunked":
            off = 0
            for size, text, ext in self.chunks:
                e.put(text)
                if ext:
                    e.put(ext)
                e.mark(); e.buf += b"\r"; e.mark(); e.buf += b"\n"; e.mark()
                e.put(self.body[off:off + size])
                off += size
                e.mark(); e.buf += b"\r"; e.mark(); e.buf += b"\n"; e.mark()
            e.put(self.last_chunk)
            e.put(CRLF)
            for n, v in self.trailers:
                e.put(n.encode("latin-1") + b":" + v)
                e.put(CRLF)
            e.mark(); e.buf += b"\r"; e.mark(); e.buf += b"\n"; e.mark()
        self.raw_body_wire = bytes(e.buf[start:])

    # ---- ground truth
    def expected_headers(self):
        """lower-cased name -> value with OWS removed, for the headers that must be reported as
        encoded; framing headers are returned separately (an endpoint may keep or normalise them)."""
        d = {}
        for n, v in self.headers:
            d[n.lower()] = v.strip(b" \t").decode("latin-1")
        return d

    def cl_text(self):
        return "0" * self.cl_pad + str(len(self.body))

    def framing_headers(self):
        d = {}
        if self.framing == "cl":
            d[self.cl_name.lower()] = self.cl_text()
        elif self.framing == "chunked":
            d[self.te_name.lower()] = self.te_value.strip(b" \t").decode("latin-1")
        return d

    def expected(self):
        body = self.body
        if self.side == "resp" and self.bodyless_status:
            body = b""
        return dict(method=self.method, path=self.path, status=self.status, reason=self.reason, version=self.version,
                    headers=self.expected_headers(), framing=self.framing_headers(),
                    trailers={n.lower(): v.strip(b" \t").decode("latin-1") for n, v in self.trailers},
                    body_len=len(body), body_sha=sha1(body), body_head=body[:48].hex(), cls=self.cls(),
                    raw_len=len(self.raw_body_wire), raw_sha=sha1(self.raw_body_wire))


class Stream:
    def __init__(self, sid, side, kind):
        self.id, self.side, self.kind = sid, side, kind
        self.msgs = []            # the messages that must be delivered, in order
        self.wire = b""
        self.marks = []
        self.hclass = None        # hostile class (kind h/f)
        self.expect_n = 0
        self.method = "-"         # client side: request method used
        self.end = "-"            # client side: c = close after the last byte, k = keep open
        self.segspec = "A"
        self.flood_unit = b""
        self.flood_total = 0
        self.hang_risk = False
        self.note = ""
        self.interim = 0
        self.surplus = False
        self.cap = 0              # client side: response cap configured for this case (0 = harness default)

    def cls(self):
        order = ["chunked-trailers", "chunked-ext", "chunked", "close-delimited", "content-length", "no-body"]
        cs = [m.cls() for m in self.msgs] or ["no-body"]
        for c in order:
            if c in cs:
                return c
        return cs[0]

    def sig(self):
        parts = [self.side, self.kind, self.hclass or "", "n%d" % len(self.msgs), "i%d" % self.interim, "sp%d" % int(self.surplus), "cap%d" % self.cap]
        for m in self.msgs[:4]:
            parts.append("/".join(m.features()))
        return "|".join(parts)

    def nseg(self):
        n = 1
        for it in self.segspec.split(";"):
            if it == "A":
                n += max(0, len(self.wire) - 1)
            elif it[:2] == "L:":
                n += len([x for x in it[2:].split(",") if x])
            elif it[:2] == "M:":
                n += int(it[2:])
            elif it[:2] == "X:":
                n += len(it[2:].split("|"))
            elif it[:2] == "Z:":
                n += len(it[2:].split(","))
        return n

    def line(self):
        f = [self.id, self.kind, str(self.expect_n), self.method, self.end, self.segspec, self.wire.hex()]
        if self.flood_unit or self.cap:
            f += [self.flood_unit.hex(), str(self.flood_total)]
        if self.cap:
            f.append(str(self.cap))
        return "\t".join(f)

    def sample(self):
        return dict(id=self.id, side=self.side, kind=self.kind, hclass=self.hclass, classes=[m.cls() for m in self.msgs],
                    bytes=len(self.wire), segmentations=self.nseg(), head=self.wire[:160].decode("latin-1"))


# ------------------------------------------------------------------------------------------------
# random building blocks

def rand_case(rng, s):
    m = rng.randrange(4)
    if m == 0:
        return s
    if m == 1:
        return s.lower()
    if m == 2:
        return s.upper()
    return "".join(c.upper() if rng.random() < 0.5 else c.lower() for c in s)


def rand_value(rng):
    kind = rng.randrange(10)
    if kind == 0:
        return b""
    if kind == 1:
        n = rng.choice([1, 2, 3, 8, 40, 200, 900])
        return bytes(rng.choice(b"abcdefghijklmnopqrstuvwxyz0123456789-_.") for _ in range(n))
    if kind == 2:
        return rng.choice([b"chunked", b"transfer-encoding: chunked", b"content-length: 7", b"0", b"close, keep-alive",
                           b"text/html; charset=utf-8", b"a=b; c=d; e=\"f,g\"", b"W/\"abc:def\"", b"Mon, 01 Jan 2024 00:00:00 GMT"])
    if kind == 3:
        n = rng.randrange(1, 30)
        return bytes(rng.choice(b"abc XYZ:;,=\"/()<>@[]{}?!*'+~|^`#$%&") for _ in range(n)).strip(b" ") or b"x"
    if kind == 4:
        n = rng.randrange(1, 20)
        v = bytes(rng.randrange(0x80, 0x100) if rng.random() < 0.4 else rng.choice(b"abcxyz019") for _ in range(n))
        return v
    n = rng.randrange(1, 24)
    return bytes(rng.choice(b"abcdefghijklmnopqrstuvwxyz0123456789 -_./:") for _ in range(n)).strip(b" ") or b"v"


def rand_ows(rng, v):
    pre = rng.choice([b" ", b" ", b" ", b"", b"  ", b"\t", b" \t "])
    post = rng.choice([b"", b"", b"", b" ", b"\t", b"  \t"])
    return pre + v + post


def rand_headers(rng, maxn=6):
    n = rng.choice([0, 0, 1, 1, 2, 3, 4, maxn])
    names, out = set(), []
    for _ in range(n):
        nm = rng.choice(NAME_POOL)
        if rng.random() < 0.3:
            nm = "X-" + "".join(rng.choice("abcdefghijklmnopqrstuvwxyz0123456789-") for _ in range(rng.randrange(1, 12)))
            nm = nm.rstrip("-") or "X-q"
        if nm.lower() in names or nm.lower() in RESERVED:
            continue
        names.add(nm.lower())
        out.append((rand_case(rng, nm), rand_ows(rng, rand_value(rng))))
    return out


BODY_SIZES_SMALL = [0, 0, 1, 1, 2, 3, 4, 5, 7, 8, 10, 13, 15, 16, 17, 26, 31, 32, 33, 48, 63, 64, 65]
BODY_SIZES_MID = [100, 127, 128, 129, 200, 255, 256, 257, 500, 1000, 1023, 1024, 1025, 2000, 4095, 4096, 4097]
BODY_SIZES_BIG = [8191, 8192, 8193, 16383, 16384, 16385, 20000, 32768, 65535, 65536, 65537, 100000, 131072, 262144]


def rand_body(rng, n):
    if n == 0:
        return b""
    k = rng.randrange(6)
    if k == 0:
        return rng.randbytes(n) if hasattr(rng, "randbytes") else bytes(rng.getrandbits(8) for _ in range(n))
    if k == 1:
        t = rng.choice(TRICKY_BODIES)
        return (t * (n // len(t) + 1))[:n]
    if k == 2:
        # text with embedded line structure that looks like HTTP
        parts = bytearray()
        while len(parts) < n:
            parts += rng.choice(TRICKY_BODIES + [b"lorem ipsum ", b"{\"k\":1}", b"a", b"\r\n"])
        return bytes(parts[:n])
    if k == 3:
        return bytes((i * 31 + 7) & 0xff for i in range(n))
    if k == 4:
        return (b"0123456789abcdef" * (n // 16 + 1))[:n]
    return bytes(rng.choice(b"\r\n0123456789abcdefABCDEF;= ") for _ in range(n))


def hex_text(rng, size):
    t = "%x" % size
    m = rng.randrange(5)
    if m == 1:
        t = t.upper()
    elif m == 2:
        t = "".join(c.upper() if rng.random() < 0.5 else c for c in t)
    if rng.random() < 0.2:
        t = "0" * rng.choice([1, 1, 2, 3, 6, 17]) + t
    return t.encode()


def rand_ext(rng):
    r = rng.random()
    if r < 0.55:
        return b""
    return rng.choice([b";x", b";x=y", b";name=value;other=1", b";q=\"quoted;,\\\"str\"", b";a=1;b", b" ;x=y", b";x=\"\"",
                       b";" + b"e" * 40 + b"=1", b"\t;x", b";x = y"])


def chunk_plan(rng, n):
    """partition n body bytes into chunk sizes (all > 0)."""
    if n == 0:
        return []
    k = rng.randrange(6)
    if k == 0:
        return [n]
    if k == 1 and n <= 96:
        return [1] * n
    if k == 2:
        a = n // 2
        return [x for x in (a, n - a) if x]
    if k == 3:
        out, left, s = [], n, 1
        while left:
            t = min(s, left)
            out.append(t); left -= t; s *= 2
        return out
    out, left = [], n
    while left:
        t = min(left, rng.choice([1, 2, 3, 9, 15, 16, 17, 255, 256, 4096, left]))
        t = max(1, t)
        out.append(t); left -= t
        if len(out) > 60:
            out.append(left) if left else None
            break
    return [x for x in out if x]


def make_chunked(rng, m, allow_trailers=True, force_plain=False):
    m.framing = "chunked"
    m.chunks = []
    exts = (not force_plain) and rng.random() < 0.4
    for s in chunk_plan(rng, len(m.body)):
        m.chunks.append((s, hex_text(rng, s), rand_ext(rng) if exts else b""))
    m.last_chunk = b"0"
    if not force_plain:
        r = rng.random()
        if r < 0.15:
            m.last_chunk = rng.choice([b"00", b"000"])
        elif r < 0.3 and exts:
            m.last_chunk = rng.choice([b"0;last", b"0;x=y", b"0 ;x=y"])
    m.trailers = []
    if allow_trailers and not force_plain and rng.random() < 0.3:
        for i in range(rng.choice([1, 1, 2, 3])):
            m.trailers.append(("X-Trailer-%d" % i, rand_ows(rng, rand_value(rng) or b"t")))
    m.te_name = rand_case(rng, "Transfer-Encoding")
    m.te_value = rng.choice([b" chunked", b" chunked", b" Chunked", b"chunked", b" CHUNKED", b"\tchunked ", b" chunked "])
    m.framing_first = rng.random() < 0.3


def pick_size(rng, big_ok):
    r = rng.random()
    if r < 0.7:
        return rng.choice(BODY_SIZES_SMALL)
    if r < 0.93 or not big_ok:
        return rng.choice(BODY_SIZES_MID)
    return rng.choice(BODY_SIZES_BIG)


def interesting_cuts(marks, L, rng, limit):
    s = set()
    for m in marks:
        for d in (-1, 0, 1):
            if 0 < m + d < L:
                s.add(m + d)
    s = sorted(s)
    if len(s) > limit:
        keep = set(rng.sample(s, limit))
        s = sorted(keep)
    return s


def finish_stream(st, rng, msgs_all, all_cut_limit=420, listed=110, multi=4):
    e = Enc()
    for m in msgs_all:
        e.mark()
        m.encode(e)
    e.mark()
    st.wire = bytes(e.buf)
    st.marks = sorted(set(e.marks))
    L = len(st.wire)
    if L <= all_cut_limit:
        st.segspec = "A;M:%d" % multi
    else:
        cuts = interesting_cuts(st.marks, L, rng, listed)
        extra = sorted(set(rng.randrange(1, L) for _ in range(10)))
        st.segspec = "L:%s;M:%d" % (",".join(map(str, sorted(set(cuts) | set(extra)))), multi + 2)
    return st


# ------------------------------------------------------------------------------------------------
# server side: valid request streams

REQ_METHODS_BODY = ["POST", "PUT", "PATCH", "POST", "POST", "DELETE"]
REQ_METHODS_NOBODY = ["GET", "GET", "GET", "HEAD", "DELETE", "OPTIONS"]


def gen_request(rng, sid, idx, big_ok=False, want=None):
    m = Msg("req")
    m.path = "/c/%s/%d" % (sid, idx)
    if rng.random() < 0.4:
        m.path += "/" + "".join(rng.choice("abcdefghijklmnopqrstuvwxyz0123456789-._~%") for _ in range(rng.randrange(1, 30)))
    m.version = "1.1"
    hosts = [b" example.test", b" localhost:8080", b"h", b" 127.0.0.1", b"\texample.test "]
    m.headers = [(rand_case(rng, "Host"), rng.choice(hosts))] + rand_headers(rng)
    kind = want or rng.choice(["none", "none", "cl", "cl", "cl", "chunked", "chunked", "chunked", "cl0"])
    if kind == "none":
        m.method = rng.choice(REQ_METHODS_NOBODY)
        m.framing = "none"
    elif kind == "cl0":
        m.method = rng.choice(REQ_METHODS_NOBODY + REQ_METHODS_BODY)
        m.framing = "cl"
        m.body = b""
        m.cl_name = rand_case(rng, "Content-Length")
    elif kind == "cl":
        m.method = rng.choice(REQ_METHODS_BODY)
        m.framing = "cl"
        m.body = rand_body(rng, pick_size(rng, big_ok))
        m.cl_name = rand_case(rng, "Content-Length")
        m.framing_first = rng.random() < 0.3
        if rng.random() < 0.12:
            m.cl_pad = rng.choice([1, 2, 5, 19])
    else:
        m.method = rng.choice(REQ_METHODS_BODY)
        m.body = rand_body(rng, pick_size(rng, big_ok))
        make_chunked(rng, m, force_plain=(kind == "chunked-plain"))
    return m


def server_valid(rng, n, prefix="sv", multi=4):
    out = []
    for i in range(n):
        sid = "%s%d" % (prefix, i)
        st = Stream(sid, "server", "v")
        r = rng.random()
        k = 1 if r < 0.45 else 2 if r < 0.7 else 3 if r < 0.85 else rng.choice([4, 5, 6, 8])
        big_ok = (i % 9 == 0)
        st.msgs = [gen_request(rng, sid, j, big_ok=big_ok and j == 0) for j in range(k)]
        st.expect_n = k
        finish_stream(st, rng, st.msgs, multi=multi)
        out.append(st)
    return out


def server_cap_streams(rng, prefix="sc"):
    """bodies close to the effective request cap (MAX_BUFFER_SIZE, 1 MiB per session buffer)."""
    out = []
    for i, (kind, size) in enumerate([("cl", SERVER_CAP - 4096), ("chunked-plain", SERVER_CAP - 8192), ("cl", 700000), ("chunked", 500000)]):
        sid = "%s%d" % (prefix, i)
        st = Stream(sid, "server", "v")
        m = Msg("req")
        m.method = "POST"
        m.path = "/c/%s/0" % sid
        m.headers = [("Host", b" cap.test")]
        m.body = rand_body(rng, size)
        if kind == "cl":
            m.framing = "cl"
        else:
            make_chunked(rng, m, force_plain=(kind == "chunked-plain"))
            if len(m.chunks) > 40 or kind == "chunked-plain":
                m.chunks = [(65536, b"10000", b"")] * (size // 65536)
                rest = size - 65536 * (size // 65536)
                if rest:
                    m.chunks.append((rest, b"%x" % rest, b""))
        st.msgs = [m]
        st.expect_n = 1
        finish_stream(st, rng, st.msgs, listed=12, multi=2)
        out.append(st)
    return out


# ------------------------------------------------------------------------------------------------
# server side: hostile dictionary

def _req_head(sid, idx, method="POST", extra=()):
    lines = [("%s /c/%s/%d HTTP/1.1" % (method, sid, idx)).encode(), b"Host: hostile.test"]
    lines += list(extra)
    return CRLF.join(lines) + CRLF + CRLF


CL_DICT = [
    ("cl-prefix-number", [b"3abc", b"1e3", b"5 6", b"5;q=1", b"0x10", b"10.0", b"7\t7", b"4,"]),
    ("cl-signed", [b"+5", b"+0", b"-0", b"+10"]),
    ("cl-list-conflict", [b"5, 6", b"10,9", b"10, 10, 3"]),
    ("cl-overflow", [b"18446744073709551616", b"99999999999999999999999999", b"184467440737095516150"]),
    ("cl-over-cap", [b"18446744073709551615", b"9223372036854775807", b"4294967296"]),
    ("cl-negative", [b"-1", b"-10"]),
    ("cl-empty", [b"", b" "]),
    ("cl-nondigit", [b"abc", b"ten", "٣".encode("utf-8"), b"\xb2"]),
]
CHUNK_SIZE_NONHEX = [b"xyz", b"5g", b"0x5", b"-5", b"+5", b" 5", b"", b"5 5", b"g", b"5,5", b"-0"]
TE_BAD = [b"gzip", b"chunked, gzip", b"xchunkedx", b"identity", b"notchunked"]


def overflow_sizes(rng, quick):
    base = ["FFFFFFFFFFFFFFFF", "FFFFFFFFFFFFFFFE", "FFFFFFFFFFFFFFEC", "ffffffffffffffec", "FFFFFFFFFFFFFFE6",
            "8000000000000000", "7FFFFFFFFFFFFFFF", "10000000000000000", "100000000000000000000", "FFFFFFFFFFFFFFFFF",
            "FFFFFFFFFFFFFFED", "FFFFFFFFFFFFFFEB", "00FFFFFFFFFFFFFFEA"]
    ks = list(range(1, 49)) if not quick else [1, 2, 3, 18, 19, 20, 21, 22, 24, 26, 27, 32]
    for k in ks:
        base.append("%X" % (2 ** 64 - k))
    seen, out = set(), []
    for b in base:
        if b not in seen:
            seen.add(b); out.append(b)
    return out


def server_hostile(rng, quick=True):
    out = []
    n = [0]

    def new(hclass, hostile_bytes_fn, with_prefix, with_suffix=True, hang_risk=False, note=""):
        sid = "sh%d" % n[0]
        n[0] += 1
        st = Stream(sid, "server", "h")
        st.hclass = hclass
        st.hang_risk = hang_risk
        st.note = note
        e = Enc()
        idx = 0
        if with_prefix:
            pm = gen_request(rng, sid, idx, want=rng.choice(["none", "cl"]))
            pm.body = pm.body[:64]
            e.mark(); pm.encode(e)
            st.msgs = [pm]
            idx += 1
        e.mark()
        hstart = len(e.buf)
        hb = hostile_bytes_fn(sid, idx)
        e.put(hb)
        idx += 1
        if with_suffix:
            e.put(_req_head(sid, idx, "GET"))
        st.wire = bytes(e.buf)
        st.marks = sorted(set(e.marks))
        st.expect_n = len(st.msgs)
        L = len(st.wire)
        cuts = sorted(set(c for c in (hstart + 1, hstart + len(hb) // 2, hstart + len(hb) - 1, hstart + len(hb), L - 1,
                                      rng.randrange(1, L)) if 0 < c < L))
        st.segspec = "L:%s;M:1" % ",".join(map(str, cuts))
        out.append(st)
        return st

    body10 = b"abcdefghij"
    for hclass, vals in CL_DICT:
        for v in vals:
            for with_prefix in ((False, True) if not quick or hclass in ("cl-prefix-number", "cl-signed") else (rng.random() < 0.5,)):
                new(hclass, lambda sid, idx, v=v: _req_head(sid, idx, "POST", [b"Content-Length: " + v]) + body10, with_prefix,
                    note="Content-Length: " + v.decode("latin-1"))
    for a, b in [(b"10", b"4"), (b"4", b"10"), (b"0", b"10"), (b"10", b"0")]:
        new("cl-dup-conflict", lambda sid, idx, a=a, b=b: _req_head(sid, idx, "POST", [b"Content-Length: " + a, b"content-length: " + b]) + body10,
            rng.random() < 0.5, note="Content-Length: %s + content-length: %s" % (a.decode(), b.decode()))
    te = [b"Transfer-Encoding: chunked"]
    for v in CHUNK_SIZE_NONHEX:
        for first in (True, False):
            pre = b"" if first else b"3\r\nabc\r\n"
            new("chunk-size-nonhex", lambda sid, idx, v=v, pre=pre: _req_head(sid, idx, "POST", te) + pre + v + b"\r\nhello\r\n0\r\n\r\n",
                rng.random() < 0.4, note="chunk-size line %r" % v.decode("latin-1"))
    for v in overflow_sizes(rng, quick):
        for pre in ((b"", b"1\r\na\r\n") if not quick else (rng.choice([b"", b"1\r\na\r\n"]),)):
            new("chunk-size-overflow", lambda sid, idx, v=v, pre=pre: _req_head(sid, idx, "POST", te) + pre + v.encode() + b"\r\nhello\r\n0\r\n\r\n",
                False, hang_risk=True, note="chunk-size %s%s" % (v, " after a valid chunk" if pre else ""))
    for tail in (b"XX", b"\rX", b"\n\r", b"X"):
        new("chunk-bad-terminator", lambda sid, idx, tail=tail: _req_head(sid, idx, "POST", te) + b"5\r\nhello" + tail + b"0\r\n\r\n",
            rng.random() < 0.5, note="chunk data followed by %r instead of CRLF" % tail.decode("latin-1"))
    for v in TE_BAD:
        new("te-unsupported", lambda sid, idx, v=v: _req_head(sid, idx, "POST", [b"Transfer-Encoding: " + v]) + b"5\r\nhello\r\n0\r\n\r\n",
            rng.random() < 0.5, note="Transfer-Encoding: " + v.decode())
    # conflicting length information: Transfer-Encoding x Content-Length (RFC 9112 6.3 rule 3). Reference
    # framer: TE + *any* Content-Length (also one that parses to zero, zero-padded, list form) -> rejected
    # and connection closed, handler not invoked, the pipelined request behind it never served.
    # Enumerated: CL value x header order x body shape (plain chunk / chunk whose data is itself a request),
    # cuts inside and right after the header block (body in a later segment) and around the message end.
    plain_body = b"5\r\nhello\r\n0\r\n\r\n"
    cl_vals = [b"0", b"00", b"000", b"0, 0", b"0,0", b"1", b"5", b"4", b"6", b"%d" % len(plain_body), b"%d" % (len(plain_body) - 1),
               b"%d" % (len(plain_body) + 1), b"5, 5", b"05", b"4294967296", b"18446744073709551615"]
    for ci, v in enumerate(cl_vals):
        zero = v.replace(b",", b"").replace(b" ", b"").strip(b"0") == b""
        orders = (True, False) if (zero or not quick) else (ci % 2 == 0,)
        for te_first in orders:
            shapes = ("plain", "smuggle") if (zero or not quick) else (("plain", "smuggle")[(ci // 2) % 2],)
            for shape in shapes:
                def build(sid, idx, v=v, te_first=te_first, shape=shape):
                    hs = [b"Transfer-Encoding: chunked", b"Content-Length: " + v]
                    if not te_first:
                        hs.reverse()
                    if shape == "plain":
                        body = plain_body
                    else:
                        inner = b"GET /c/%s/9 HTTP/1.1\r\nHost: smuggled.test\r\n\r\n" % sid.encode()
                        body = b"%x\r\n" % len(inner) + inner + b"\r\n0\r\n\r\n"
                    return _req_head(sid, idx, "POST", hs) + body
                st = new("cl-and-te", build, (ci + int(te_first)) % 3 == 0,
                         note="Transfer-Encoding: chunked %s Content-Length: %s (%s)" % ("before" if te_first else "after", v.decode(),
                              "chunk data is itself a request" if shape == "smuggle" else "one 5-byte chunk"))
                # extra cuts: exactly behind the hostile header block (body arrives in a later read), inside
                # its CRLFCRLF, and right behind the hostile message (pipelined request in its own read)
                hb_at = st.wire.find(b"Transfer-Encoding: chunked")
                he = st.wire.find(b"\r\n\r\n", hb_at) + 4
                extra = sorted(set(c for c in (he - 2, he, he + 3) if 0 < c < len(st.wire)))
                st.segspec = st.segspec.replace(";M:1", "") + "," + ",".join(map(str, extra)) + ";X:%d,%d;M:1" % (he, min(len(st.wire) - 1, he + 3))
    for size in (SERVER_HEADER_CAP + 2000, 200000):
        new("header-over-cap", lambda sid, idx, size=size: _req_head(sid, idx, "GET", [b"X-Huge: " + b"h" * size]), False,
            note="single header line of %d bytes" % size)
    return out


def server_floods(rng):
    out = []
    unit = b"a" * 16384
    specs = [
        ("flood-header-no-terminator", lambda sid: b"GET /c/%s/0 HTTP/1.1\r\nHost: flood.test\r\nX-Fill: " % sid.encode(), unit),
        ("flood-header-lines", lambda sid: b"GET /c/%s/0 HTTP/1.1\r\nHost: flood.test\r\n" % sid.encode(), (b"X-L: " + b"b" * 1018 + CRLF) * 16),
        ("flood-request-line", lambda sid: b"GET /c/%s/0/" % sid.encode(), unit),
        ("flood-body-content-length", lambda sid: b"POST /c/%s/0 HTTP/1.1\r\nHost: flood.test\r\nContent-Length: 9437184\r\n\r\n" % sid.encode(), unit),
        ("flood-body-one-chunk", lambda sid: b"POST /c/%s/0 HTTP/1.1\r\nHost: flood.test\r\nTransfer-Encoding: chunked\r\n\r\n900000\r\n" % sid.encode(), unit),
        ("flood-body-many-chunks", lambda sid: b"POST /c/%s/0 HTTP/1.1\r\nHost: flood.test\r\nTransfer-Encoding: chunked\r\n\r\n" % sid.encode(),
         (b"3f8\r\n" + b"c" * 1016 + CRLF) * 16),
    ]
    for i, (hclass, pre, u) in enumerate(specs):
        sid = "sf%d" % i
        st = Stream(sid, "server", "f")
        st.hclass = hclass
        st.wire = pre(sid)
        st.flood_unit = u
        st.flood_total = 6 * 1024 * 1024
        st.segspec = ""
        st.expect_n = 0
        out.append(st)
    return out


# ------------------------------------------------------------------------------------------------
# mutation of valid streams (robustness only)

def mutate(rng, wire):
    b = bytearray(wire)
    for _ in range(rng.choice([1, 1, 2, 3])):
        if not b:
            break
        op = rng.randrange(7)
        p = rng.randrange(len(b))
        if op == 0:
            b[p] ^= 1 << rng.randrange(8)
        elif op == 1:
            del b[p:p + rng.choice([1, 1, 2, 4, 16])]
        elif op == 2:
            ins = rng.choice([b"\r\n", b"\r", b"\n", b"0", b"f", b"ffffffffffffffff", b";", b":", b" ", b"\x00", b"\xff", b"-", b"+",
                              b"Content-Length: 0\r\n", b"Transfer-Encoding: chunked\r\n", b"\r\n\r\n"])
            b[p:p] = ins
        elif op == 3:
            q = min(len(b), p + rng.choice([2, 8, 40]))
            b[p:p] = b[p:q]
        elif op == 4:
            # corrupt a digit run
            for i in range(p, min(len(b), p + 80)):
                if chr(b[i]).isdigit():
                    b[i] = rng.choice(b"0123456789abcdefxg+-e, ")
                    break
        elif op == 5:
            del b[p:]
        else:
            b[p] = rng.choice(b"\r\n:; \t0")
    return bytes(b)


def mutated(rng, valid_streams, n, side, prefix):
    out = []
    pool = [s for s in valid_streams if len(s.wire) < 3000]
    for i in range(n):
        src = rng.choice(pool)
        st = Stream("%s%d" % (prefix, i), side, "m")
        st.hclass = "mutated"
        st.wire = mutate(rng, src.wire)
        if not st.wire:
            st.wire = b"\r\n"
        st.method, st.end = src.method, ("c" if side == "client" else "-")
        L = len(st.wire)
        cuts = sorted(set(rng.randrange(1, L) for _ in range(3))) if L > 1 else []
        st.segspec = ("L:%s" % ",".join(map(str, cuts))) if cuts else ""
        st.expect_n = -1
        out.append(st)
    return out


# ------------------------------------------------------------------------------------------------
# client side: valid response streams

STATUS_BODY = [(200, "OK"), (200, "OK"), (200, "OK"), (201, "Created"), (404, "Not Found"), (500, "Internal Server Error"),
               (200, ""), (299, "Custom Reason With Spaces"), (400, "Bad Request"), (503, "Service Unavailable"), (206, "Partial Content")]
STATUS_NOBODY = [(204, "No Content"), (304, "Not Modified")]
INTERIM = [(100, "Continue"), (102, "Processing"), (103, "Early Hints"), (199, "Misc")]


def gen_response(rng, method="GET", want=None, big_ok=False):
    m = Msg("resp")
    m.method = method
    m.version = "1.0" if rng.random() < 0.1 else "1.1"
    m.headers = rand_headers(rng)
    if rng.random() < 0.2:
        m.headers.append((rand_case(rng, "Connection"), rng.choice([b" close", b" keep-alive", b" Keep-Alive", b" close, x"])))
    kind = want or rng.choice(["cl", "cl", "cl", "chunked", "chunked", "chunked", "close", "close", "nobody", "cl0"])
    m.status, m.reason = rng.choice(STATUS_BODY)
    if kind == "nobody":
        m.status, m.reason = rng.choice(STATUS_NOBODY)
        m.bodyless_status = True
        # a bodyless status may still carry a Content-Length (304) — no body bytes follow
        m.framing = "none"
        if rng.random() < 0.5:
            m.headers.append((rand_case(rng, "Content-Length"), b" %d" % rng.choice([0, 5, 1234])))
    elif kind == "cl0":
        m.framing = "cl"
        m.body = b""
    elif kind == "cl":
        m.framing = "cl"
        m.body = rand_body(rng, pick_size(rng, big_ok))
        m.cl_name = rand_case(rng, "Content-Length")
        m.framing_first = rng.random() < 0.3
        if rng.random() < 0.12:
            m.cl_pad = rng.choice([1, 2, 5, 19])
    elif kind == "chunked":
        m.body = rand_body(rng, pick_size(rng, big_ok))
        make_chunked(rng, m)
    else:
        m.framing = "close"
        m.body = rand_body(rng, pick_size(rng, big_ok))
        if rng.random() < 0.25:
            # a non-chunked final transfer coding is close-delimited (RFC 9112 6.3 rule 4)
            m.headers.append((rand_case(rng, "Transfer-Encoding"), rng.choice([b" gzip", b" chunked, gzip", b" xchunkedx"])))
    if method == "HEAD":
        m.bodyless_status = True
    return m


def client_valid(rng, n, prefix="cv"):
    out = []
    for i in range(n):
        sid = "%s%d" % (prefix, i)
        st = Stream(sid, "client", "v")
        st.method = rng.choice(["GET", "GET", "GET", "POST", "DELETE", "HEAD"])
        m = gen_response(rng, st.method, big_ok=(i % 7 == 0))
        msgs_all = []
        if m.version == "1.1" and rng.random() < 0.3:
            for _ in range(rng.choice([1, 1, 2, 3])):
                im = Msg("resp")
                im.status, im.reason = rng.choice(INTERIM)
                im.framing = "none"
                im.headers = rand_headers(rng, 2)
                msgs_all.append(im)
                st.interim += 1
        if st.method == "HEAD":
            # a HEAD response carries the framing headers of the GET response but no body bytes
            wire_m = Msg("resp")
            wire_m.__dict__.update(m.__dict__)
            wire_m.framing = "none"
            wire_m.headers = list(m.headers)
            if m.framing == "cl":
                wire_m.headers.append((m.cl_name, b" " + m.cl_text().encode()))
            elif m.framing == "chunked":
                wire_m.headers.append((m.te_name, m.te_value))
            wire_m.body = b""
            m = wire_m
        msgs_all.append(m)
        st.msgs = [m]
        st.expect_n = 1
        st.end = "c" if m.framing == "close" and st.method != "HEAD" and not m.bodyless_status else rng.choice(["k", "k", "c"])
        if st.end == "c" and not any(n.lower() == "connection" and b"close" in v for n, v in m.headers):
            # a server that is going to close announces it (otherwise the client may legitimately try to
            # reuse the cached connection for the next exchange and fail there — not a framing matter)
            m.headers = [(n, v) for n, v in m.headers if n.lower() != "connection"] + [(rand_case(rng, "Connection"), b" close")]
        if st.end == "k" and m.framing != "close" and rng.random() < 0.12:
            st.surplus = True
        finish_stream(st, rng, msgs_all, all_cut_limit=0, listed=14, multi=3)
        if st.surplus:
            st.wire += rng.choice([b"HTTP/1.1 200 OK\r\nContent-Length: 3\r\n\r\nxyz", b"\r\n", b"garbage after the message"])
        out.append(st)
    return out


# ------------------------------------------------------------------------------------------------
# client side: hostile dictionary

def _resp(extra, body, status=b"HTTP/1.1 200 OK"):
    return CRLF.join([status, b"X-Case: hostile"] + list(extra)) + CRLF + CRLF + body


def client_hostile(rng, quick=True):
    out = []
    n = [0]

    def new(hclass, wire, end="c", note="", method="GET", kind="h"):
        st = Stream("ch%d" % n[0], "client", kind)
        n[0] += 1
        st.hclass, st.wire, st.end, st.note, st.method = hclass, wire, end, note, method
        L = len(wire)
        cuts = sorted(set(c for c in (1, L // 2, L - 1, rng.randrange(1, max(2, L))) if 0 < c < L))
        st.segspec = "L:%s" % ",".join(map(str, cuts)) if cuts else ""
        st.expect_n = 0
        out.append(st)
        return st

    body10 = b"abcdefghij"
    for hclass, vals in CL_DICT:
        if hclass == "cl-over-cap":
            continue
        for v in vals:
            new(hclass, _resp([b"Content-Length: " + v], body10), end=rng.choice("ck"), note="Content-Length: " + v.decode("latin-1"))
    for v in (b"1048577", b"4294967296", b"18446744073709551615"):
        new("cl-over-cap", _resp([b"Content-Length: " + v], body10), note="Content-Length: %s (cap %d)" % (v.decode(), CLIENT_CAP))
    for a, b in [(b"10", b"4"), (b"4", b"10"), (b"0", b"10")]:
        new("cl-dup-conflict", _resp([b"Content-Length: " + a, b"content-length: " + b], body10), note="duplicate Content-Length %s/%s" % (a.decode(), b.decode()))
    te = [b"Transfer-Encoding: chunked"]
    for v in CHUNK_SIZE_NONHEX:
        for pre in (b"", b"3\r\nabc\r\n"):
            new("chunk-size-nonhex", _resp(te, pre + v + b"\r\nhello\r\n0\r\n\r\n"), end=rng.choice("ck"), note="chunk-size line %r" % v.decode("latin-1"))
    for v in overflow_sizes(rng, quick):
        new("chunk-size-overflow", _resp(te, rng.choice([b"", b"1\r\na\r\n"]) + v.encode() + b"\r\nhello\r\n0\r\n\r\n"), note="chunk-size " + v)
    for tail in (b"XX", b"\rX", b"\n\r", b"X"):
        new("chunk-bad-terminator", _resp(te, b"5\r\nhello" + tail + b"0\r\n\r\n"), note="chunk data followed by %r" % tail.decode("latin-1"))
    new("chunk-bad-line-end", _resp(te, b"5\rhello\r\n0\r\n\r\n"), note="chunk-size line ended by a bare CR")
    new("cl-and-te", _resp([b"Content-Length: 3", b"Transfer-Encoding: chunked"], b"5\r\nhello\r\n0\r\n\r\n"), note="both Content-Length and Transfer-Encoding")
    new("header-over-cap", _resp([b"X-Huge: " + b"h" * (CLIENT_CAP + 5000)], b""), note="header block beyond the response cap")
    # truncated valid messages: the peer closes early; a truncated message must never be returned as complete
    for i in range(10 if quick else 40):
        m = gen_response(rng, "GET", want=rng.choice(["cl", "chunked"]))
        if len(m.body) < 2:
            m.body = b"truncate-me-please"
            if m.framing == "chunked":
                make_chunked(rng, m)
        e = Enc(); m.encode(e)
        w = bytes(e.buf)
        body_at = len(w) - len(m.raw_body_wire)
        cut = rng.randrange(body_at + 1, len(w)) if len(w) - body_at > 1 else len(w) - 1
        if rng.random() < 0.25:
            cut = rng.randrange(1, body_at)
        new("truncated-" + m.cls(), w[:cut], end="c", note="valid %s response cut at byte %d of %d, then close" % (m.cls(), cut, len(w)))
    return out


def client_floods(rng):
    out = []
    unit = b"z" * 16384
    specs = [
        ("flood-header-no-terminator", b"HTTP/1.1 200 OK\r\nX-Fill: ", unit),
        ("flood-status-line", b"HTTP/1.1 200 ", unit),
        ("flood-body-close-delimited", b"HTTP/1.1 200 OK\r\nX-A: b\r\n\r\n", unit),
        ("flood-body-many-chunks", b"HTTP/1.1 200 OK\r\nTransfer-Encoding: chunked\r\n\r\n", (b"3f8\r\n" + b"c" * 1016 + CRLF) * 16),
        ("flood-interim-responses", b"", (b"HTTP/1.1 100 Continue\r\nX-P: " + b"p" * 990 + CRLF + CRLF) * 16),
    ]
    for i, (hclass, pre, u) in enumerate(specs):
        st = Stream("cf%d" % i, "client", "f")
        st.hclass = hclass
        st.wire = pre or u[:1]
        if not pre:
            st.wire = u
        st.flood_unit = u
        st.flood_total = 12 * 1024 * 1024
        st.method, st.end = "GET", "c"
        st.segspec = ""
        out.append(st)
    return out


# ------------------------------------------------------------------------------------------------
# client side: chunked framing *overhead* against the response cap (raw bytes >> decoded bytes)

CLIENT_READ_CHUNK = 8192   # HttpClient reads at most this much per receiveSync call
KERNEL_SLACK = 512 * 1024  # scripted server SO_SNDBUF 64 KiB (doubled by the kernel) + the client's socket receive buffer
SMALL_CAPS = (64 * 1024, 256 * 1024)


def _overhead_msg(shape, raw_target):
    """a *valid* chunked 200 response whose wire size is close to raw_target while the decoded body stays tiny."""
    m = Msg("resp")
    m.status, m.reason, m.version = 200, "OK", "1.1"
    m.headers = [("X-Shape", b" " + shape.encode())]
    m.framing = "chunked"
    m.te_value = b" chunked"
    room = max(64, raw_target - 120)
    if shape == "huge-extensions":
        ext = b";pad=" + b"e" * 4000
        n = max(1, room // (len(ext) + 6))
        m.body = bytes(97 + (i % 26) for i in range(n))
        m.chunks = [(1, b"1", ext)] * n
    elif shape == "long-size-line":
        m.body = b"hello"
        m.chunks = [(5, b"0" * max(1, room - 20) + b"5", b"")]
    elif shape == "huge-trailers":
        m.body = b"hello"
        m.chunks = [(5, b"5", b"")]
        n = max(1, (room - 20) // 1012)
        m.trailers = [("X-T-%d" % i, b" " + b"t" * (1000 - len(str(i)))) for i in range(n)]
    elif shape == "one-byte-chunks":
        n = max(1, room // 6)
        m.body = bytes(65 + (i % 26) for i in range(n))
        m.chunks = [(1, b"1", b"")] * n
    elif shape == "last-chunk-extension":
        m.body = b"hello"
        m.chunks = [(5, b"5", b"")]
        m.last_chunk = b"0;pad=" + b"z" * max(1, room - 40)
    else:
        raise ValueError(shape)
    return m


OVERHEAD_SHAPES = ["huge-extensions", "long-size-line", "huge-trailers", "one-byte-chunks", "last-chunk-extension"]


def client_overhead(rng, quick=True):
    """returns (controls, hostile, floods): controls = same shapes just under the cap (must be returned exactly),
    hostile = complete messages / truncated streams whose raw size exceeds the cap (all below the transport's
    1 MiB sync receive buffer, so the client's own cap is the only bound in play), floods = never-ending
    overhead, paced, plus one unpaced flood above the sync buffer (which bound fires is recorded)."""
    controls, hostile, floods = [], [], []
    k = 0
    for cap in SMALL_CAPS:
        for shape in OVERHEAD_SHAPES:
            if shape == "one-byte-chunks" and cap != SMALL_CAPS[0]:
                continue
            # control: whole response (headers included) just under the cap
            for slack in ((1500,) if quick else (1500, 200)):
                m = _overhead_msg(shape, cap - slack)
                st = Stream("cc%d" % k, "client", "v"); k += 1
                st.cap, st.method = cap, "GET"
                st.msgs, st.expect_n = [m], 1
                st.end = "k"
                finish_stream(st, rng, [m], all_cut_limit=0, listed=3, multi=1)
                assert len(st.wire) <= cap, (shape, cap, len(st.wire))
                st.note = "%s, %d raw bytes under a %d-byte cap" % (shape, len(st.wire), cap)
                controls.append(st)
            # over the cap: complete valid message, raw = 2.4 x cap (< 1 MiB), decoded tiny
            m = _overhead_msg(shape, int(cap * 2.4))
            e = Enc(); m.encode(e)
            w = bytes(e.buf)
            st = Stream("co%d" % k, "client", "h"); k += 1
            st.cap, st.method, st.end = cap, "GET", rng.choice("kc")
            st.hclass = "chunk-overhead-" + shape
            st.wire = w
            L = len(w)
            cuts = sorted(set([cap - 1, cap + 1, cap + CLIENT_READ_CHUNK + 1, L // 2, L - 1]))
            st.segspec = "L:" + ",".join(str(c) for c in cuts if 0 < c < L)
            st.note = "complete chunked response, %s: %d raw bytes (%d decoded) against a %d-byte cap" % (shape, L, len(m.body), cap)
            hostile.append(st)
        # truncated overhead, then the peer closes: the cap must fire long before the end of the stream
        for shape, pre, fill in (("unterminated-size-line", b"", b"0"), ("unterminated-extension", b"1;x=", b"a"),
                                 ("unterminated-trailer-section", b"5\r\nhello\r\n0\r\n", b"X-T: " + b"t" * 1017 + CRLF)):
            total = int(cap * 2.4)
            w = b"HTTP/1.1 200 OK\r\nTransfer-Encoding: chunked\r\n\r\n" + pre
            w += (fill * (total // len(fill) + 1))[: total - len(w)]
            st = Stream("co%d" % k, "client", "h"); k += 1
            st.cap, st.method, st.end = cap, "GET", "c"
            st.hclass = "chunk-overhead-" + shape
            st.wire = w
            st.segspec = "L:%d,%d" % (cap + 1, len(w) // 2)
            st.note = "%s: %d raw bytes, 0-5 decoded, then close, against a %d-byte cap" % (shape, len(w), cap)
            hostile.append(st)
    cap = SMALL_CAPS[0]
    head = b"HTTP/1.1 200 OK\r\nTransfer-Encoding: chunked\r\n\r\n"
    specs = [
        # 's' = slow pace (~4 MB/s in 4 KiB units): the client keeps up, nothing is dropped by the transport, so
        # the bytes sent before the client stops reading bound what it consumed
        ("flood-chunk-size-line", head, b"0" * 4096, "ks"),
        ("flood-chunk-extension", head + b"1;x=", b"a" * 4096, "ks"),
        ("flood-trailer-section", head + b"5\r\nhello\r\n0\r\n", (b"X-T: " + b"t" * 1017 + CRLF) * 4, "ks"),
        ("flood-tiny-chunks-big-extensions", head, (b"1;e=" + b"e" * 1010 + b"\r\nx\r\n") * 4, "ks"),
        ("flood-one-byte-chunks", head, b"1\r\nx\r\n" * 680, "ks"),
        ("flood-unpaced-chunk-extension", head + b"1;x=", b"a" * 16384, "ku"),
    ]
    for i, (hclass, pre, u, end) in enumerate(specs):
        st = Stream("cg%d" % i, "client", "f")
        st.hclass, st.wire, st.flood_unit = hclass, pre, u
        st.flood_total = 3 * 1024 * 1024 if "u" in end else 2560 * 1024
        st.cap, st.method, st.end, st.segspec = cap, "GET", end, ""
        st.note = "%s against a %d-byte cap" % (hclass, cap)
        floods.append(st)
    return controls, hostile, floods
