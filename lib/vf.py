# /verif/lib/vf.py — shared driver machinery: build cache, case runner, evidence, known findings.
# stdlib only (runs under /usr/bin/python3).
import hashlib, json, os, re, shutil, signal, subprocess, sys, tempfile, time, random
from concurrent.futures import ThreadPoolExecutor

VERIF = os.path.dirname(os.path.dirname(os.path.abspath(__file__)))
REPO = os.environ.get("VF_REPO", "/repo")
REPO_INCLUDE = os.environ.get("VF_REPO_INCLUDE", os.path.join(REPO, "include"))
BUILD_DIR = os.path.join(VERIF, "build")
EVID_DIR = os.path.join(VERIF, "evidence")
INCONCLUSIVE_TOLERATED = int(os.environ.get("VF_INCONCLUSIVE_TOLERATED", "5"))
REPLAY_DIR = os.path.join(VERIF, "replays")
HARNESS = os.path.join(VERIF, "harness")
NCPU = int(os.environ.get("VF_JOBS", str(os.cpu_count() or 4)))

FLAVORS = {
    "plain": dict(cxx="g++", flags=["-O1", "-g"]),
    "asan": dict(cxx="g++", flags=["-O1", "-g", "-fno-omit-frame-pointer",
                                   "-fsanitize=address,undefined", "-fno-sanitize-recover=all"]),
    "tsan": dict(cxx="g++", flags=["-O1", "-g", "-fsanitize=thread"]),
    "fuzz": dict(cxx="clang++", flags=["-O1", "-g", "-fsanitize=fuzzer,address,undefined",
                                       "-fno-sanitize-recover=all", "-fno-sanitize=object-size"]),
}
COMMON = ["-std=gnu++17", "-pthread", "-DIORA_VERIF=1", "-Wno-deprecated-declarations", "-w"]
LIBS = ["-lssl", "-lcrypto", "-lpthread", "-ldl"]

SAN_ENV = {
    "asan": {
        "ASAN_OPTIONS": "abort_on_error=0:exitcode=86:detect_leaks=0:allocator_may_return_null=1:"
                        "detect_stack_use_after_return=0:handle_abort=1",
        "UBSAN_OPTIONS": "print_stacktrace=1:halt_on_error=1:exitcode=86",
    },
    "tsan": {
        "TSAN_OPTIONS": "halt_on_error=0:exitcode=87:second_deadlock_stack=1:history_size=4:"
                        "report_signal_unsafe=0",
    },
    "plain": {},
    "fuzz": {
        "ASAN_OPTIONS": "abort_on_error=0:exitcode=86:detect_leaks=0:allocator_may_return_null=1",
        "UBSAN_OPTIONS": "print_stacktrace=1:halt_on_error=1:exitcode=86",
    },
}


class HarnessFailure(Exception):
    pass


# --------------------------------------------------------------------------------------------
# build cache

_include_hash_cache = {}


def tree_hash(root):
    """sha256 over (relative path, content) of every file under root."""
    if root in _include_hash_cache:
        return _include_hash_cache[root]
    h = hashlib.sha256()
    for d, dirs, files in sorted(os.walk(root)):
        dirs.sort()
        for f in sorted(files):
            p = os.path.join(d, f)
            h.update(os.path.relpath(p, root).encode())
            h.update(b"\0")
            try:
                with open(p, "rb") as fh:
                    h.update(fh.read())
            except OSError:
                pass
            h.update(b"\0")
    _include_hash_cache[root] = h.hexdigest()
    return _include_hash_cache[root]


_INC = re.compile(r'^\s*#\s*include\s*"([^"]+)"', re.M)


def _local_deps(src, seen=None):
    """harness-local files reachable through quoted #include lines (transitively)."""
    seen = seen if seen is not None else set()
    src = os.path.abspath(src)
    if src in seen or not os.path.exists(src):
        return seen
    seen.add(src)
    try:
        text = open(src, "r", errors="replace").read()
    except OSError:
        return seen
    for inc in _INC.findall(text):
        for base in (os.path.dirname(src), HARNESS):
            cand = os.path.join(base, inc)
            if os.path.exists(cand):
                _local_deps(cand, seen)
                break
    return seen


def _deps_hash(src):
    """hash of a harness source and the harness-local headers it includes (transitively)."""
    h = hashlib.sha256()
    for f in sorted(_local_deps(src)):
        with open(f, "rb") as fh:
            h.update(os.path.basename(f).encode() + b"\0" + fh.read() + b"\0")
    return h.hexdigest()


def build(name, flavor="plain", extra_flags=(), src=None, quiet=False):
    """Compile harness/<name>.cpp against the *current* /repo/include tree. Cached by content hash
    of (repo include tree, harness sources, flags); any edit under /repo/include recompiles."""
    src = src or os.path.join(HARNESS, name + ".cpp")
    fl = FLAVORS[flavor]
    flags = COMMON + fl["flags"] + list(extra_flags)
    key = hashlib.sha256(
        (tree_hash(REPO_INCLUDE) + _deps_hash(src) + " ".join(flags) + fl["cxx"]).encode()
    ).hexdigest()[:20]
    os.makedirs(BUILD_DIR, exist_ok=True)
    out = os.path.join(BUILD_DIR, f"{name}.{flavor}.{key}")
    if os.path.exists(out):
        try:
            os.utime(out, None)
        except OSError:
            pass
        return out
    # remove STALE binaries of the same name/flavor (disk is limited) — but never one that may still be
    # in use by a concurrently running check (e.g. a VF_REPO_INCLUDE mutant run next to a normal run):
    # only binaries not touched for two hours go
    now = time.time()
    for f in os.listdir(BUILD_DIR):
        if f.startswith(f"{name}.{flavor}."):
            fp = os.path.join(BUILD_DIR, f)
            try:
                if now - os.path.getmtime(fp) > 7200:
                    os.unlink(fp)
            except OSError:
                pass
    tmp = out + f".tmp{os.getpid()}"
    cmd = [fl["cxx"]] + flags + ["-I", REPO_INCLUDE, "-I", HARNESS, src, "-o", tmp] + LIBS
    t0 = time.time()
    r = subprocess.run(cmd, capture_output=True, text=True)
    if r.returncode != 0:
        try:
            os.unlink(tmp)
        except OSError:
            pass
        raise HarnessFailure(f"build of {name}.{flavor} failed:\n{' '.join(cmd)}\n{r.stderr[-6000:]}")
    os.replace(tmp, out)
    if not quiet:
        print(f"[build] {name}.{flavor} {time.time()-t0:.1f}s", file=sys.stderr)
    return out


def build_many(specs):
    """specs: list of (name, flavor) or (name, flavor, extra_flags). Builds in parallel."""
    res = {}
    with ThreadPoolExecutor(max_workers=min(NCPU, max(1, len(specs)))) as ex:
        futs = {}
        for s in specs:
            name, flavor = s[0], s[1]
            extra = s[2] if len(s) > 2 else ()
            futs[(name, flavor)] = ex.submit(build, name, flavor, extra)
        for k, f in futs.items():
            res[k] = f.result()
    return res


# --------------------------------------------------------------------------------------------
# running harness processes

class RunResult:
    def __init__(self, rc, out, err, timed_out, wall, records, san_reports):
        self.rc, self.out, self.err, self.timed_out, self.wall = rc, out, err, timed_out, wall
        self.records = records          # parsed JSON lines from the --out file / stdout
        self.san_reports = san_reports  # list of dict(kind, key, text)


def flavor_of(binary):
    b = os.path.basename(binary).split(".")
    return b[1] if len(b) >= 3 else "plain"


def run_harness(binary, args, timeout=120, stdin_data=None, env_extra=None, cwd=None,
                out_file=None, parse_stdout=True):
    """Run one harness process in its own process group. Returns RunResult.
    JSON-lines records are read from out_file if given, else from stdout."""
    flavor = flavor_of(binary)
    env = dict(os.environ)
    env.update(SAN_ENV.get(flavor, {}))
    if env_extra:
        for k, v in env_extra.items():
            if k in ("ASAN_OPTIONS", "TSAN_OPTIONS", "UBSAN_OPTIONS") and k in env:
                env[k] = env[k] + ":" + v
            else:
                env[k] = v
    t0 = time.time()
    p = subprocess.Popen([binary] + [str(a) for a in args], stdin=subprocess.PIPE if stdin_data is not None else subprocess.DEVNULL,
                         stdout=subprocess.PIPE, stderr=subprocess.PIPE, env=env, cwd=cwd,
                         start_new_session=True)
    timed_out = False
    try:
        out, err = p.communicate(stdin_data, timeout=timeout)
    except subprocess.TimeoutExpired:
        timed_out = True
        try:
            os.killpg(p.pid, signal.SIGKILL)
        except OSError:
            pass
        out, err = p.communicate()
    wall = time.time() - t0
    try:
        os.killpg(p.pid, signal.SIGKILL)   # stray children
    except OSError:
        pass
    out_s = out.decode("utf-8", "replace")
    err_s = err.decode("utf-8", "replace")
    records = []
    src = None
    if out_file and os.path.exists(out_file):
        with open(out_file, "r", errors="replace") as fh:
            src = fh.read()
    elif parse_stdout:
        src = out_s
    if src:
        for line in src.splitlines():
            line = line.strip()
            if line.startswith("{"):
                try:
                    records.append(json.loads(line))
                except ValueError:
                    pass
    rr = RunResult(p.returncode, out_s, err_s, timed_out, wall, records,
                   parse_sanitizer(err_s))
    rr.flavor = flavor
    rr.argv = [binary] + [str(a) for a in args]
    return rr


_FRAME = re.compile(r"^\s*#(\d+)\s+(?:0x[0-9a-f]+\s+)?(?:in\s+)?(.*?)(?:\s+(/\S+?)(?::(\d+))?(?::\d+)?)?(?:\s+\(.*\))?$")


def _iora_frames(block_lines):
    """function names of frames that live in iora headers, outermost last."""
    res = []
    for ln in block_lines:
        m = _FRAME.match(ln)
        if not m:
            continue
        fn, path = m.group(2), m.group(3) or ""
        if "/iora/" in path or "iora::" in fn:
            fn = re.sub(r"\(.*", "", fn)
            fn = re.sub(r"<.*?>", "", fn)
            fn = re.sub(r"\{lambda.*", "lambda", fn)
            res.append(fn.strip())
    return res


def parse_sanitizer(err):
    """Split sanitizer output into reports; key each by kind + innermost iora frames of the
    first two stacks (line numbers stripped)."""
    reports = []
    if not err:
        return reports
    lines = err.splitlines()
    i = 0
    n = len(lines)
    while i < n:
        ln = lines[i]
        kind = None
        if "WARNING: ThreadSanitizer:" in ln:
            kind = "tsan:" + ln.split("ThreadSanitizer:")[1].split("(")[0].strip().replace(" ", "-")
            j = i + 1
            while j < n and "SUMMARY: ThreadSanitizer" not in lines[j]:
                j += 1
            block = lines[i:j + 1]
            i = j + 1
        elif "ERROR: AddressSanitizer:" in ln:
            kind = "asan:" + ln.split("AddressSanitizer:")[1].split()[0].strip()
            j = i + 1
            while j < n and "SUMMARY: AddressSanitizer" not in lines[j]:
                j += 1
            block = lines[i:j + 1]
            i = j + 1
        elif "runtime error:" in ln:
            msg = ln.split("runtime error:")[1].strip()
            msg = re.sub(r"0x[0-9a-f]+", "ADDR", msg)
            msg = re.sub(r"-?\d+", "N", msg)
            kind = "ubsan:" + msg[:60].replace(" ", "-")
            j = i + 1
            while j < n and (lines[j].lstrip().startswith("#") or not lines[j].strip()):
                j += 1
                if j - i > 60:
                    break
            block = lines[i:j]
            i = j
        elif "ERROR: LeakSanitizer" in ln or "ERROR: libFuzzer" in ln:
            kind = ("lsan" if "Leak" in ln else "libfuzzer:" + ln.split("libFuzzer:")[1].strip()[:40].replace(" ", "-"))
            block = lines[i:i + 40]
            i += 1
        else:
            i += 1
            continue
        # split stacks; for TSan keep only the stacks of the accesses / mutex operations
        # themselves (not allocation or thread-creation stacks)
        stacks, cur, keep = [], [], True
        for b in block[1:]:
            if b.lstrip().startswith("#"):
                if keep:
                    cur.append(b)
            else:
                if cur:
                    stacks.append(cur)
                    cur = []
                if kind.startswith("tsan") and b.strip():
                    t = b.strip()
                    keep = bool(re.match(r"(Write|Read|Previous|Atomic|Mutex|Cycle|Thread T\d+ .*(acquired|locked)|As if)", t)) \
                        and "created by" not in t
                    if "[failed to restore the stack]" in t:
                        stacks.append([])
        if cur:
            stacks.append(cur)
        tops = []
        for st in stacks[:2]:
            fr = _iora_frames(st)
            tops.append(fr[0] if fr else "?")
        key = kind + ":" + "/".join(tops)
        reports.append(dict(kind=kind, key=key, text="\n".join(block[:80])))
    return reports


# --------------------------------------------------------------------------------------------
# context: evidence + verdicts

class Ctx:
    def __init__(self, prop, tier, seed, level="exploration"):
        self.prop, self.tier, self.seed, self.level = prop, tier, seed, level
        self.t0 = time.time()
        self.evaluations = 0
        self.sigs = set()
        self.samples = []
        self.observed = {}
        self.violations = []     # dict(key, what, detail)
        self.inconclusive = []
        self.flavors = set()
        self.san_reports = 0
        self.rule = ""
        self.assumptions = []
        self.exhaustive = None
        self.extra = {}
        self.required_obs = []   # counters that must be non-zero for a pass
        self.rng = random.Random(seed)
        self.tmp = tempfile.mkdtemp(prefix=f"vf-{prop}-", dir=os.environ.get("TMPDIR", "/tmp"))
        self.kf = load_known_findings()

    # ---- evidence
    def case(self, sig=None, sample=None, n=1):
        self.evaluations += n
        if sig is not None:
            self.sigs.add(sig if isinstance(sig, (str, int)) else json.dumps(sig, sort_keys=True))
        if sample is not None and len(self.samples) < 6:
            self.samples.append(sample)

    def add_sigs(self, sigs):
        for s in sigs:
            self.sigs.add(s)

    def obs(self, name, n=1):
        self.observed[name] = self.observed.get(name, 0) + n

    def obs_max(self, name, v):
        self.observed[name] = max(self.observed.get(name, v), v)

    def require_obs(self, *names):
        self.required_obs.extend(names)

    def violation(self, key, what, detail=None):
        self.violations.append(dict(key=key, what=what, detail=detail))

    def inconcl(self, what):
        self.inconclusive.append(what)

    def ingest(self, rr, where="", expect_rc=(0,)):
        """Fold a RunResult's standard records into the context. Records:
           {"t":"viol","key","what","detail"}  {"t":"obs","name","n"}  {"t":"obsmax","name","v"}
           {"t":"case","sig","sample","n"}  {"t":"sigs","list":[...],"n":N}"""
        self.flavors.add(flavor_of_rr(rr))
        for r in rr.records:
            t = r.get("t")
            if t == "viol":
                self.violation(r.get("key", "?"), r.get("what", ""), r.get("detail"))
            elif t == "obs":
                self.obs(r["name"], r.get("n", 1))
            elif t == "obsmax":
                self.obs_max(r["name"], r.get("v", 0))
            elif t == "case":
                self.case(r.get("sig"), r.get("sample"), r.get("n", 1))
            elif t == "sigs":
                self.evaluations += r.get("n", 0)
                self.add_sigs(r.get("list", []))
            elif t == "inconclusive":
                self.inconcl(r.get("what", ""))
        for rep in rr.san_reports:
            self.san_reports += 1
            self.violation(f"{self.prop}:san:{rep['key']}", f"sanitizer report {rep['key']} {where}",
                           dict(text=rep["text"][:4000]))
        return rr

    # ---- finish
    def finish(self):
        wall = time.time() - self.t0
        # de-duplicate violations by key
        bykey = {}
        for v in self.violations:
            bykey.setdefault(v["key"], []).append(v)
        known_hit, new = [], []
        for key, vs in bykey.items():
            ent = self.kf_match(key)
            if ent is not None:
                known_hit.append((key, ent, len(vs)))
            else:
                new.append((key, vs))
        missing = [n for n in self.required_obs if not self.observed.get(n)]
        status = 0
        lines = []
        for key, ent, cnt in sorted(known_hit):
            lines.append(f"KNOWN-FINDING: property={self.prop} {ent['what']} [key={key} hits={cnt}]")
        if new:
            os.makedirs(REPLAY_DIR, exist_ok=True)
            for key, vs in sorted(new):
                fn = os.path.join(REPLAY_DIR, f"{self.prop}-{hashlib.sha1(key.encode()).hexdigest()[:10]}.json")
                with open(fn, "w") as fh:
                    json.dump(dict(property=self.prop, key=key, tier=self.tier, seed=self.seed,
                                   count=len(vs), first=vs[0]), fh, indent=1, default=str)
                lines.append(f"VIOLATION property={self.prop} replay={fn}")
                lines.append(f"  key={key} count={len(vs)} what={vs[0]['what'][:300]}")
            status = 1
        elif missing:
            status = 2
        elif len(self.inconclusive) > INCONCLUSIVE_TOLERATED:
            # many cases could not be decided: the run as a whole says nothing (harness trouble)
            status = 2
        # a handful of undecided cases (watchdogs on a loaded machine, a peer that never got scheduled)
        # are reported as INCONCLUSIVE lines and in the evidence, never counted as held; the property held
        # on everything that WAS explored and every required observation was made, so the exit code stays 0
        ev = dict(
            property_id=self.prop, tier=self.tier, seed=self.seed, level=self.level,
            coverage=dict(
                evaluations=int(self.evaluations),
                distinct_nontrivial=len(self.sigs),
                rule=self.rule,
                samples=self.samples[:6] if self.samples else ["(no sample recorded)"],
                observed=self.observed,
                flavors=sorted(self.flavors),
                sanitizer_reports=self.san_reports,
                known_findings_hit=[dict(key=k, hits=c) for k, e, c in sorted(known_hit)],
                inconclusive=self.inconclusive[:20],
                missing_required_observations=missing,
                **({"exhaustive": self.exhaustive} if self.exhaustive is not None else {}),
                **self.extra,
            ),
            assumptions=self.assumptions,
            wall_s=round(wall, 2),
            violations=len(new),
        )
        scratch_tree = os.path.realpath(REPO_INCLUDE) != os.path.realpath(os.path.join(REPO, "include"))
        if scratch_tree:
            print(f"[{self.prop}] note: built against scratch tree {REPO_INCLUDE}; evidence file not rewritten")
        # a --replay run or a run against a scratch include tree never overwrites the check's evidence
        if not getattr(self, "is_replay", False) and not scratch_tree:
            os.makedirs(EVID_DIR, exist_ok=True)
            tmp = os.path.join(EVID_DIR, f".{self.prop}.json.tmp{os.getpid()}")
            with open(tmp, "w") as fh:
                json.dump(ev, fh, indent=1, default=str)
            os.replace(tmp, os.path.join(EVID_DIR, f"{self.prop}.json"))
        for l in lines:
            print(l)
        if missing:
            print(f"INCONCLUSIVE property={self.prop} monitors never observed: {missing}")
        for w in self.inconclusive[:10]:
            print(f"INCONCLUSIVE property={self.prop} {w}")
        print(f"[{self.prop}] tier={self.tier} seed={self.seed} evaluations={self.evaluations} "
              f"distinct={len(self.sigs)} violations={len(new)} known={len(known_hit)} "
              f"inconclusive={len(self.inconclusive)} wall={wall:.1f}s exit={status}")
        shutil.rmtree(self.tmp, ignore_errors=True)
        return status

    def kf_match(self, key):
        for e in self.kf:
            if e.get("property") != self.prop:
                continue
            if not str(e.get("status", "")).startswith("open"):
                continue
            pat = e.get("key", "")
            if pat == key or (e.get("key_regex") and re.fullmatch(e["key_regex"], key)):
                return e
        return None


def flavor_of_rr(rr):
    return getattr(rr, "flavor", None) or "plain"


def load_known_findings():
    res = []
    paths = [os.path.join(VERIF, "known_findings.json")]
    d = os.path.join(VERIF, "known_findings.d")
    if os.path.isdir(d):
        paths += [os.path.join(d, f) for f in sorted(os.listdir(d)) if f.endswith(".json")]
    for p in paths:
        try:
            with open(p) as fh:
                res.extend(json.load(fh).get("findings", []))
        except (OSError, ValueError):
            pass
    return res


def run_many(ctx, jobs, workers=None):
    """jobs: list of callables returning anything; run on a thread pool (each spawns processes)."""
    workers = workers or NCPU
    with ThreadPoolExecutor(max_workers=workers) as ex:
        return list(ex.map(lambda f: f(), jobs))


def h64(s):
    if isinstance(s, str):
        s = s.encode()
    return hashlib.blake2b(s, digest_size=8).hexdigest()


def run_resumable(ctx, binary, base_args, start, count, timeout=600, tag="w", crash_key=None,
                  max_restarts=50):
    """Run harness scenarios [start, start+count) passing --from/--count/--out. The harness prints
    {"t":"begin","i":k} before scenario k and, when a scenario leaves the process unusable (stuck
    threads), {"t":"stopped","at":k} before _exit. A crash (signal / sanitizer abort) or watchdog
    kill is attributed to the last begun scenario, reported through crash_key(rr, k) -> (key, what)
    (default: <prop>:crash:<signal>) and the run resumes at k+1. Returns the RunResults."""
    results = []
    cur, end = start, start + count
    restarts = 0
    while cur < end and restarts <= max_restarts:
        out = os.path.join(ctx.tmp, f"{tag}-{flavor_of(binary)}-{start}-{cur}.jsonl")
        rr = run_harness(binary, list(base_args) + ["--from", cur, "--count", end - cur, "--out", out],
                         timeout=timeout, out_file=out)
        results.append(rr)
        try:
            os.unlink(out)
        except OSError:
            pass
        stopped = [r for r in rr.records if r.get("t") == "stopped"]
        begun = [r["i"] for r in rr.records if r.get("t") == "begin"]
        if stopped:
            cur = stopped[0]["at"] + 1
            restarts += 1
            continue
        if rr.timed_out or rr.rc != 0:
            last = begun[-1] if begun else cur
            if rr.san_reports and rr.rc in (86, 87) and not rr.timed_out:
                # sanitizer report ended the process (asan) or set the exit code at the end (tsan)
                done = [r for r in rr.records if r.get("t") == "done"]
                if done:
                    break
                cur = last + 1
                restarts += 1
                continue
            if rr.timed_out:
                rr.bad = f"watchdog: scenario {last} did not finish within {timeout}s ({tag}, {flavor_of(binary)})"
            else:
                sig = -rr.rc if rr.rc < 0 else rr.rc
                key, what = (crash_key(rr, last) if crash_key else
                             (f"{ctx.prop}:crash:{'signal' if rr.rc < 0 else 'exit'}-{sig}",
                              f"harness process died (rc={rr.rc}) in scenario {last}"))
                rr.records.append(dict(t="viol", key=key, what=what,
                                       detail=dict(scenario=last, seed=ctx.seed, argv=rr.argv, stderr=rr.err[-3000:])))
            cur = last + 1
            restarts += 1
            continue
        break
    return results
