#!/bin/bash
# usage: lib/seed_regress.sh <out-file> <seed-id>...   — re-runs the quick check of each stored seeded change against a scratch
# copy of the CURRENT /repo/include with the change applied (never touches /repo); one line per seed: id, apply status, exit code.
out=$1; shift
cd /verif
for id in "$@"; do
  prop=${id%%-*}
  inc=/tmp/seedreg-$id
  rm -rf $inc; mkdir -p $inc; cp -r /repo/include $inc/include
  if (cd $inc && patch -p1 -s --no-backup-if-mismatch < /verif/seeded/$id/patch.diff > /dev/null 2>&1); then
    find $inc -name "*.orig" -delete
    VF_REPO_INCLUDE=$inc/include VERIF_SEED=1 timeout 2400 ./check $prop --tier quick > /tmp/seedreg-$id.log 2>&1
    rc=$?
    echo "$id applied rc=$rc $(grep -oE 'key=\S+' /tmp/seedreg-$id.log | head -2 | tr '\n' ' ')" >> $out
  else
    echo "$id patch-does-not-apply" >> $out
  fi
  rm -rf $inc
done
