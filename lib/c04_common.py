# Shared by lib/props/c04.py and lib/props/c05.py (owned by the C04/C05 builder).
# Worker loop with resume-after-death, isolated re-runs of timing-bound suspects, TSan filter.
import json, os
import vf


def filter_tsan(ctx, rr):
    """TSan reports whose two access stacks contain no iora frame at all (libstdc++ / OpenSSL /
    libc internals) are counted and dropped; anything with an iora frame is kept. vf.py keys a
    report by the innermost iora frame of its first two stacks, '?' when a stack has none."""
    keep = []
    stuck = any(r.get("t") == "stuck" for r in rr.records)
    for rep in rr.san_reports:
        if rep["kind"] == "tsan:thread-leak" and stuck:
            continue  # consequence of _exit() with stranded threads still alive; the stranding itself is judged

        if rep["kind"].startswith("tsan") and rep["key"].endswith(":?/?"):
            txt = rep["text"]
            if "c04_" in txt or "c05_" in txt or "vf.hpp" in txt:
                # a race inside the harness itself is a harness bug, never a finding and never silence
                ctx.inconcl("TSan report inside the harness itself: " + txt[:600])
            else:
                ctx.obs("tsan_reports_without_iora_frame_filtered")
            continue
        keep.append(rep)
    rr.san_reports = keep


def annotate(rr, seed):
    """attach (flavor, idx, seed) to every violation record so a replay file can re-run the case"""
    idx = None
    for r in rr.records:
        if r.get("t") == "begin":
            idx = r.get("idx")
        elif r.get("t") in ("viol", "suspect", "stuck"):
            r["idx"] = r.get("idx", idx)
            if r.get("t") == "viol":
                d = r.get("detail")
                if not isinstance(d, dict):
                    d = {"detail": d}
                d["_run"] = {"flavor": getattr(rr, "flavor", "plain"), "idx": r["idx"], "seed": seed}
                r["detail"] = d


def worker(ctx, binary, base_args, start, count, timeout, tag):
    """Run cases [start, start+count) in one process; if the process dies or is stopped (ASan
    report, crash, stuck call -> _exit) resume after the case that was running."""
    results = []
    cur, end = start, start + count
    guard = 0
    while cur < end and guard < count + 2:
        guard += 1
        out = os.path.join(ctx.tmp, f"{tag}-{vf.flavor_of(binary)}-{start}-{cur}.jsonl")
        rr = vf.run_harness(binary, base_args + ["--from", cur, "--count", end - cur, "--out", out],
                            timeout=timeout, out_file=out)
        results.append(rr)
        begins = [r["idx"] for r in rr.records if r.get("t") == "begin"]
        completed = (not rr.timed_out) and rr.rc in (0, 87) and any(r.get("t") == "sigs" for r in rr.records)
        if completed:
            break
        rr.died_at = begins[-1] if begins else cur
        rr.died_scn = next((r for r in reversed(rr.records) if r.get("t") == "begin"), {})
        cur = rr.died_at + 1
    return results


def death_kind(rr):
    if rr.timed_out:
        return "python-watchdog"
    if any(r.get("t") == "stuck" for r in rr.records):
        return "stuck"
    if rr.san_reports:
        return "sanitizer"
    return f"exit-{rr.rc}"
