# ./check setup — pre-build every harness flavor the registered checks use (offline, from disk).
import importlib, os, sys, pkgutil
import vf


def main():
    specs = []
    import props, json
    claimed = None
    try:
        with open(os.path.join(vf.VERIF, "MANIFEST.json")) as fh:
            claimed = {c["property_id"].lower() for c in json.load(fh)["checks"]}
    except Exception:
        pass
    for m in pkgutil.iter_modules(props.__path__):
        if claimed is not None and m.name not in claimed:
            continue   # only pre-build what MANIFEST.json registers
        try:
            mod = importlib.import_module("props." + m.name)
        except Exception as e:
            print(f"[setup] cannot import props.{m.name}: {e}", file=sys.stderr)
            continue
        for s in getattr(mod, "BUILDS", []):
            if s not in specs:
                specs.append(s)
        if hasattr(mod, "setup"):
            try:
                mod.setup()
            except Exception as e:  # a failing optional setup step must not break the others
                print(f"[setup] {m.name}.setup(): {e}", file=sys.stderr)
    failed = 0
    from concurrent.futures import ThreadPoolExecutor
    def one(s):
        try:
            vf.build(*s)
            return None
        except vf.HarnessFailure as e:
            return f"{s}: {e}"
    with ThreadPoolExecutor(max_workers=max(2, vf.NCPU // 2)) as ex:
        for r in ex.map(one, specs):
            if r:
                failed += 1
                print("[setup] BUILD FAILED " + r[:3000], file=sys.stderr)
    print(f"[setup] {len(specs) - failed}/{len(specs)} harness binaries ready")
    return 0 if failed == 0 else 2
