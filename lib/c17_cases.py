# /verif/lib/c17_cases.py — C17 case language: response builders, fault programs, enumerations.
# A case is rendered to the line format read by harness/c17_httpclient.cpp. Everything the
# scripted server does is decided here; the harness only executes and reports.

IDEMPOTENT = {"GET", "HEAD", "PUT", "DELETE", "OPTIONS", "TRACE"}   # RFC 9110 §9.2.2, exact case
BODY_METHODS = {"POST", "PUT", "PATCH", "PURGE", "Post"}
METHODS_QUICK = ["GET", "HEAD", "PUT", "DELETE", "POST", "PATCH", "get", "PURGE"]
METHODS_MORE = ["OPTIONS", "TRACE", "Post"]
BUDGETS = [0, 1, 2, 3]
LONG_RT = 30000      # request timeout where no peer is ever silent: a spurious timeout needs a 30 s stall
ID_WIDTH = 7
USER_AGENT = "Iora-HttpClient/1.0"


def is_idempotent(method):
    return method in IDEMPOTENT


def body_len(method, big=0):
    if method in BODY_METHODS:
        return big or 48
    return 0


# ------------------------------------------------------------------------------ responses
def resp_body(tok):
    return b"R:" + tok.encode() + b":ok"


def ok_response(tok, method, conn=b"Connection: keep-alive\r\n", version=b"1.1", extra=b"", cl=True,
                chunked=False, interim=False):
    body = resp_body(tok)
    head = b"HTTP/" + version + b" 200 OK\r\nContent-Type: text/plain\r\n"
    if chunked:
        head += b"Transfer-Encoding: chunked\r\n"
    elif cl:
        head += b"Content-Length: %d\r\n" % len(body)
    head += conn + b"\r\n"
    if method == "HEAD":
        payload = b""
    elif chunked:
        payload = b"%x\r\n" % len(body) + body + b"\r\n0\r\n\r\n"
    else:
        payload = body
    pre = b"HTTP/1.1 100 Continue\r\n\r\n" if interim else b""
    return pre + head + payload + extra


def malformed_responses(tok):
    """class -> bytes. Every one is a complete message that violates RFC 9112 framing/syntax
    deterministically: re-sending the request cannot change the outcome."""
    b = resp_body(tok)
    n = len(b)
    H = b"HTTP/1.1 200 OK\r\n"
    CH = b"Transfer-Encoding: chunked\r\n\r\n"
    return {
        "status-line-not-http": b"HTTX/1.1 200 OK\r\nContent-Length: %d\r\n\r\n" % n + b,
        "status-line-no-space": b"HTTP/1.1\r\nContent-Length: %d\r\n\r\n" % n + b,
        "version-2.0": b"HTTP/2.0 200 OK\r\nContent-Length: %d\r\n\r\n" % n + b,
        "status-code-nondigit": b"HTTP/1.1 2x0 OK\r\nContent-Length: %d\r\n\r\n" % n + b,
        "status-code-4digits": b"HTTP/1.1 2000 OK\r\nContent-Length: %d\r\n\r\n" % n + b,
        "obs-fold": H + b"X-A: one\r\n two\r\nContent-Length: %d\r\n\r\n" % n + b,
        "header-no-colon": H + b"ThisLineHasNoColon\r\nContent-Length: %d\r\n\r\n" % n + b,
        "cl-duplicate-conflict": H + b"Content-Length: %d\r\nContent-Length: %d\r\n\r\n" % (n, n + 1) + b,
        "cl-not-a-number": H + b"Content-Length: %dabc\r\n\r\n" % n + b,
        "cl-negative": H + b"Content-Length: -%d\r\n\r\n" % n + b,
        "cl-list-conflict": H + b"Content-Length: %d, %d\r\n\r\n" % (n, n + 1) + b,
        "cl-overflow": H + b"Content-Length: 99999999999999999999999\r\n\r\n" + b,
        "cl-and-te": H + b"Content-Length: %d\r\nTransfer-Encoding: chunked\r\n\r\n" % n + b"%x\r\n" % n + b + b"\r\n0\r\n\r\n",
        "cl-exceeds-cap": H + b"Content-Length: 999999999999\r\n\r\n" + b,
        "chunk-size-not-hex": H + b"Transfer-Encoding: chunked\r\n\r\nzz\r\n" + b + b"\r\n0\r\n\r\n",
        "chunk-size-lone-lf": H + b"Transfer-Encoding: chunked\r\n\r\n%x\n" % n + b + b"\r\n0\r\n\r\n",
        "chunk-data-no-crlf": H + b"Transfer-Encoding: chunked\r\n\r\n%x\r\n" % n + b + b"XX0\r\n\r\n",
        "chunk-size-overflow": H + b"Transfer-Encoding: chunked\r\n\r\nfffffffffffffffff\r\n" + b + b"\r\n0\r\n\r\n",
        "chunk-size-trailing-ws": H + b"Transfer-Encoding: chunked\r\n\r\n%x \r\n" % n + b + b"\r\n0\r\n\r\n",
        "chunk-size-junk": H + b"Transfer-Encoding: chunked\r\n\r\n%xq\r\n" % n + b + b"\r\n0\r\n\r\n",
        # --- added after seeded change C17-c was missed: one class per remaining grammar position
        "status-line-no-version": b"HTTP/ 200 OK\r\nContent-Length: %d\r\n\r\n" % n + b,
        "cl-empty": H + b"Content-Length: \r\n\r\n" + b,
        "cl-plus-sign": H + b"Content-Length: +%d\r\n\r\n" % n + b,
        "chunk-size-empty": H + CH + b"\r\n" + b + b"\r\n0\r\n\r\n",
        "chunk-size-negative": H + CH + b"-%x\r\n" % n + b + b"\r\n0\r\n\r\n",
        "chunk-size-0x-prefix": H + CH + b"0x%x\r\n" % n + b + b"\r\n0\r\n\r\n",
        "chunk-size-bare-cr": H + CH + b"%x\r" % n + b + b"\r\n0\r\n\r\n",
        "chunk-ext-lone-lf": H + CH + b"%x;ext=1\n" % n + b + b"\r\n0\r\n\r\n",
        "chunk-ext-missing-semicolon": H + CH + b"%x ext=1\r\n" % n + b + b"\r\n0\r\n\r\n",
        "chunk-data-lone-lf": H + CH + b"%x\r\n" % n + b + b"\n0\r\n\r\n",
        "chunk-data-bare-cr": H + CH + b"%x\r\n" % n + b + b"\r0\r\n\r\n",
        "last-chunk-lone-lf": H + CH + b"%x\r\n" % n + b + b"\r\n0\n\r\n",
        "last-chunk-junk": H + CH + b"%x\r\n" % n + b + b"\r\n0 x\r\n\r\n",
        "trailer-field-lone-lf": H + CH + b"%x\r\n" % n + b + b"\r\n0\r\nX-T: v\n\r\n",
        "trailer-first-of-two-lone-lf": H + CH + b"%x\r\n" % n + b + b"\r\n0\r\nX-T: v\nX-U: w\r\n\r\n",
        "trailer-final-lone-lf": H + CH + b"%x\r\n" % n + b + b"\r\n0\r\n\n",
        "trailer-final-lone-lf-after-field": H + CH + b"%x\r\n" % n + b + b"\r\n0\r\nX-T: v\r\n\n",
    }


def ambiguous_responses(tok):
    """Complete messages with a bare CR where RFC 9112 §2.2 lets a recipient EITHER reject the element OR
    treat the CR as SP. Accepting and rejecting are both fine; what is never fine is transmitting the request again
    after having read all of it (reject => deterministic error; accept => success)."""
    b = resp_body(tok)
    n = len(b)
    H = b"HTTP/1.1 200 OK\r\n"
    CH = b"Transfer-Encoding: chunked\r\n\r\n"
    return {
        "trailer-field-bare-cr": H + CH + b"%x\r\n" % n + b + b"\r\n0\r\nX-T: v\rX-U: w\r\n\r\n",
        "trailer-line-only-cr": H + CH + b"%x\r\n" % n + b + b"\r\n0\r\n\r\r\n\r\n",
        "header-value-bare-cr": H + b"X-A: a\rb\r\nContent-Length: %d\r\n\r\n" % n + b,
        "chunk-ext-bare-cr": H + CH + b"%x;e=a\rb\r\n" % n + b + b"\r\n0\r\n\r\n",
    }


AMBIGUOUS_CLASSES = sorted(ambiguous_responses("T").keys())
# grammar position -> classes located there (documentation + evidence; every position must be non-empty)
GRAMMAR_POSITIONS = {
    "status-line": ["status-line-not-http", "status-line-no-space", "status-line-no-version", "version-2.0",
                    "status-code-nondigit", "status-code-4digits"],
    "header-line": ["obs-fold", "header-no-colon"],
    "length-headers": ["cl-duplicate-conflict", "cl-not-a-number", "cl-negative", "cl-list-conflict", "cl-overflow", "cl-empty",
                       "cl-plus-sign", "cl-and-te", "cl-exceeds-cap"],
    "chunk-size-line": ["chunk-size-not-hex", "chunk-size-lone-lf", "chunk-size-overflow", "chunk-size-trailing-ws",
                        "chunk-size-junk", "chunk-size-empty", "chunk-size-negative", "chunk-size-0x-prefix", "chunk-size-bare-cr"],
    "chunk-ext": ["chunk-ext-lone-lf", "chunk-ext-missing-semicolon"],
    "chunk-data-terminator": ["chunk-data-no-crlf", "chunk-data-lone-lf", "chunk-data-bare-cr"],
    "last-chunk": ["last-chunk-lone-lf", "last-chunk-junk"],
    "trailer-field-line": ["trailer-field-lone-lf", "trailer-first-of-two-lone-lf"],
    "final-crlf": ["trailer-final-lone-lf", "trailer-final-lone-lf-after-field"],
}


MALFORMED_CLASSES = sorted(malformed_responses("T").keys())
# classes whose defect sits in the body framing: a HEAD response has no body, so for HEAD these
# bytes are a complete header block (+ surplus), not a framing error
MALFORMED_BODY_ONLY = {c for c in MALFORMED_CLASSES if c.startswith(("chunk-", "last-chunk-", "trailer-")) or c in
                       ("cl-not-a-number", "cl-negative", "cl-list-conflict", "cl-overflow", "cl-and-te", "cl-exceeds-cap")}

CLOSE_SIGNALS = {
    "resp-connection-close": dict(conn=b"Connection: close\r\n"),
    "resp-connection-close-lc-name": dict(conn=b"connection: close\r\n"),
    "resp-connection-close-uc-value": dict(conn=b"Connection: CLOSE\r\n"),
    "resp-connection-close-in-list": dict(conn=b"Connection: keep-alive, close\r\n"),
    "resp-http10-no-keepalive": dict(conn=b"", version=b"1.0"),
}
# positive controls: these leave the connection reusable
CLEAN_VARIANTS = {
    "ok": dict(),
    "ok-chunked": dict(chunked=True),
    "ok-interim-100": dict(interim=True),
    "ok-http10-keepalive": dict(version=b"1.0"),
    "ok-no-connection-header": dict(conn=b""),
    "ok-x-close-hint": dict(conn=b"Connection: keep-alive, X-Close-Hint\r\n"),
}


# ---- persistence signals by grammar position: version x Connection header shape x framing (RFC 9112 §9.3)
# variant -> (header lines, tokens carried by ALL Connection field lines together, lower-cased)
CONN_VARIANTS = {
    "absent": (b"", []),
    "close": (b"Connection: close\r\n", ["close"]),
    "keep-alive": (b"Connection: keep-alive\r\n", ["keep-alive"]),
    "other-te": (b"Connection: TE\r\n", ["te"]),
    "other-list": (b"Connection: Upgrade, X-Legacy-Option\r\n", ["upgrade", "x-legacy-option"]),
    "other-mixed-case": (b"Connection: uPgRaDe\r\n", ["upgrade"]),
    "keep-alive-plus-others": (b"Connection: Upgrade, keep-alive, X-Opt\r\n", ["upgrade", "keep-alive", "x-opt"]),
    "close-plus-others": (b"Connection: X-Opt, close, TE\r\n", ["x-opt", "close", "te"]),
    "keep-alive-and-close": (b"Connection: keep-alive, close\r\n", ["keep-alive", "close"]),
    "close-mixed-case": (b"connection: cLoSe\r\n", ["close"]),
    "keep-alive-mixed-case": (b"CONNECTION: Keep-Alive\r\n", ["keep-alive"]),
    "close-hint-substring": (b"Connection: X-Close-Hint, keep-alive\r\n", ["x-close-hint", "keep-alive"]),
    "lines-keep-alive-then-close": (b"Connection: keep-alive\r\nConnection: close\r\n", ["keep-alive", "close"]),
    "lines-close-then-keep-alive": (b"Connection: close\r\nConnection: keep-alive\r\n", ["close", "keep-alive"]),
    "lines-others-only": (b"Connection: TE\r\nConnection: Upgrade\r\n", ["te", "upgrade"]),
    "lines-other-then-keep-alive": (b"Connection: TE\r\nConnection: keep-alive\r\n", ["te", "keep-alive"]),
    "lines-keep-alive-then-other": (b"Connection: keep-alive\r\nConnection: TE\r\n", ["keep-alive", "te"]),
    "empty-value": (b"Connection: \r\n", []),
    "ows-padded-close": (b"Connection:   close  \r\n", ["close"]),
}
VERSIONS = ("1.0", "1.1")
FRAMINGS = ("content-length", "chunked", "close-delimited")


def reference_persistent(version, tokens, framing):
    """RFC 9112 §9.3: 'close' present -> not persistent; HTTP/1.1 -> persistent; HTTP/1.0 -> persistent only with
    'keep-alive'. A close-delimited body ends with the connection, whatever the headers say."""
    if framing == "close-delimited" or "close" in tokens:
        return False
    if version == "1.1":
        return True
    return "keep-alive" in tokens


def hx(b):
    return b.hex()


# ------------------------------------------------------------------------------ fault programs
class Fault:
    """kind, pos (byte offset or None), cls (sub-class), label (stable, used in keys), steps(tok, method)."""

    def __init__(self, kind, pos=None, cls=None):
        self.kind, self.pos, self.cls = kind, pos, cls

    @property
    def label(self):
        return self.kind + (":" + self.cls if self.cls else "")

    def sig(self):
        return (self.kind, self.cls, self.pos)

    def silent(self):
        return self.kind.startswith("silence")

    def rt(self, rng):
        """request timeout the case needs for this fault"""
        if self.silent():
            return rng.choice([100, 150, 200])
        if self.kind == "malformed-hold-timeout":
            return 300
        if self.kind == "ambiguous-hold":
            return 1000
        return LONG_RT

    def steps(self, tok, method):
        k, p = self.kind, self.pos
        ok = ok_response(tok, method)
        if k == "ok":
            return "readfull;send:%s;done" % hx(ok_response(tok, method, **CLEAN_VARIANTS[self.cls or "ok"]))
        if k.startswith("persist"):                     # cls = "<version>|<conn variant>|<framing>"
            ver, var, framing = self.cls.split("|")
            lines, tokens = CONN_VARIANTS[var]
            m2 = "GET" if (method == "HEAD" and framing != "content-length") else method
            r = ok_response(tok, m2, conn=lines, version=ver.encode(), cl=(framing == "content-length"), chunked=(framing == "chunked"))
            if reference_persistent(ver, tokens, framing):
                return "readfull;send:%s;done" % hx(r)
            name = "close-delimited" if framing == "close-delimited" and reference_persistent(ver, tokens, "content-length") \
                else "resp-http%s-conn-%s" % (ver.replace(".", ""), var)
            if k == "persist-open" and framing != "close-delimited":   # keeps serving: a reuse is answered, and flagged
                return "readfull;send:%s;taint:%s;done" % (hx(r), name)
            # the server closes as the reference demands; the half-close keeps the socket readable so that any byte the
            # client still writes on it is recorded
            return "readfull;send:%s;taint:%s;done;fin;observe" % (hx(r), name)
        if k == "ok-slow":                              # healthy but slow: answers after pos ms
            return "readfull;sleep:%d;send:%s;done" % (p, hx(ok))
        if k == "rst-before-read":
            return "rst"
        if k == "rst-unread-request":
            return "peekfull:400;rst"
        if k == "rst-after-request-bytes":
            return "readn:%d;rst" % p
        if k == "rst-after-request":
            return "readfull;rst"
        if k == "close-after-request-bytes":          # orderly close in the middle of the request
            return "readn:%d;close" % p
        # a cut position at or beyond the end of THIS method's response (HEAD has no body) is not a truncation: the
        # exchange completes and the close that follows is an event on an idle connection
        if k == "fin-after-response-bytes":           # half close, observer keeps watching the connection
            if p >= len(ok):
                return "readfull;send:%s;done;fin;taint:idle-fin;observe" % hx(ok)
            return "readfull;send:%s;fin;taint:truncated;observe" % hx(ok[:p])
        if k == "close-after-response-bytes":
            if p >= len(ok):
                return "readfull;send:%s;done;close" % hx(ok)
            return "readfull;send:%s;close" % hx(ok[:p])
        if k == "rst-after-response-bytes":
            if p >= len(ok):
                return "readfull;send:%s;done;rst" % hx(ok)
            return "readfull;send:%s;rst" % hx(ok[:p])
        if k == "fin-after-chunked-response-bytes":
            okc = ok_response(tok, method, chunked=True)
            if p >= len(okc):
                return "readfull;send:%s;done;fin;taint:idle-fin;observe" % hx(okc)
            return "readfull;send:%s;fin;taint:truncated;observe" % hx(okc[:p])
        if k == "silence-after-request":
            return "readfull;taint:silence;observe"
        if k == "silence-mid-request":
            return "readn:%d;taint:silence;observe" % p
        if k == "silence-after-response-bytes":
            if p >= len(ok):
                return "readfull;send:%s;done" % hx(ok)
            return "readfull;send:%s;taint:silence;observe" % hx(ok[:p])
        if k == "malformed":
            return "readfull;send:%s;taint:malformed:%s;observe" % (hx(malformed_responses(tok)[self.cls]), self.cls)
        if k == "malformed-close":                     # same bytes, then the server closes (no more bytes can ever come)
            return "readfull;send:%s;taint:malformed:%s;fin;observe" % (hx(malformed_responses(tok)[self.cls]), self.cls)
        if k == "malformed-hold-timeout":              # same bytes, socket held open, short request timeout on the case
            return "readfull;send:%s;taint:malformed:%s;observe" % (hx(malformed_responses(tok)[self.cls]), self.cls)
        if k == "ambiguous-close":
            return "readfull;send:%s;taint:ambiguous:%s;done;fin;observe" % (hx(ambiguous_responses(tok)[self.cls]), self.cls)
        if k == "ambiguous-hold":
            return "readfull;send:%s;taint:ambiguous:%s;done" % (hx(ambiguous_responses(tok)[self.cls]), self.cls)
        if k == "over-cap-body":                       # needs cap=4096 on the case
            big = b"HTTP/1.1 200 OK\r\nContent-Type: text/plain\r\n\r\n" + b"y" * 9000
            return "readfull;send:%s;taint:malformed:over-cap-body;observe" % hx(big)
        if k == "close-signal":                        # complete response that forbids reuse; socket stays open
            return "readfull;send:%s;taint:%s;done" % (hx(ok_response(tok, method, **CLOSE_SIGNALS[self.cls])), self.cls)
        if k == "close-signal-fin":
            return "readfull;send:%s;taint:%s;done;fin;observe" % (hx(ok_response(tok, method, **CLOSE_SIGNALS[self.cls])), self.cls)
        if k == "surplus":
            return "readfull;send:%s;taint:surplus;done" % hx(ok + b"SURPLUS-BYTES")
        if k == "surplus-late":                        # separate segment, after the exchange completed
            return "readfull;send:%s;done;sleep:%d;send:%s;taint:surplus-late" % (hx(ok), p or 20, hx(b"LATE-SURPLUS"))
        if k == "head-with-body":
            return "readfull;send:%s;taint:surplus;done" % hx(ok_response(tok, "GET"))
        if k == "close-delimited":
            r = ok_response(tok, method, cl=False, conn=b"")
            return "readfull;send:%s;taint:close-delimited;done;fin;observe" % hx(r)
        if k == "idle-fin":
            return "readfull;send:%s;done;sleep:%d;fin;taint:idle-fin;observe" % (hx(ok), p or 20)
        raise ValueError(k)


# ------------------------------------------------------------------------------ case objects
class Req:
    def __init__(self, method, budget, faults, stop=None, th=0, refuse=0, blackhole=0, gap=0, big=0, via="auto", srv=0, pre=0):
        # faults: list of Fault for attempts 0,1,2,… (last repeats). stop is informational.
        self.method, self.budget, self.faults, self.stop = method, budget, faults, stop
        self.th, self.refuse, self.blackhole, self.gap, self.big, self.via = th, refuse, blackhole, gap, big, via
        self.srv, self.pre = srv, pre
        self.token = None


class Case:
    def __init__(self, group, reqs, rt=LONG_RT, ct=1000, ka=1, th=1, ident="cur", hold=None, rcvbuf=0, cap=0, wd=45000, nsrv=1, lease=0,
                 sdiv=10, solo=False):
        self.group, self.reqs = group, reqs
        self.sdiv, self.solo = sdiv, solo      # sdiv >= 1000: virtual back-off; solo: run in a process of its own
        self.nsrv, self.lease = nsrv, lease
        self.rt, self.ct, self.ka, self.th, self.ident, self.rcvbuf, self.cap, self.wd = rt, ct, ka, th, ident, rcvbuf, cap, wd
        self.hold = hold if hold is not None else (rt + 8000 if rt < 5000 else 4000)
        self.id = None

    def assign(self, n):
        self.id = "Q%0*d" % (ID_WIDTH - 1, n)
        for i, r in enumerate(self.reqs):
            r.token = ("T%05dr%d" % (n % 100000, i) if len(self.reqs) <= 10 else
                       "T%05dr%02d" % (n % 100000, i) if len(self.reqs) <= 100 else "T%05dr%03d" % (n % 100000, i))

    def silent(self):
        return any(f.silent() for r in self.reqs for f in r.faults) or any(r.blackhole for r in self.reqs)

    def cost(self):
        c = 1
        if self.silent():
            c += 4
        if any(r.big for r in self.reqs):
            c += 3
        return c + min(len(self.reqs) // 3, 12)

    def render(self):
        L = ["case id=%s rt=%d ct=%d ka=%d th=%d ident=%s hold=%d rcvbuf=%d cap=%d wd=%d sdiv=%d nsrv=%d lease=%d" %
             (self.id, self.rt, self.ct, self.ka, self.th, self.ident, self.hold, self.rcvbuf, self.cap, self.wd, self.sdiv, self.nsrv,
              self.lease)]
        for i, r in enumerate(self.reqs):
            L.append("req i=%d th=%d m=%s b=%d tok=%s body=%d refuse=%d blackhole=%d gap=%d via=%s srv=%d pre=%d" %
                     (i, r.th, r.method, r.budget, r.token, body_len(r.method, r.big), r.refuse, r.blackhole, r.gap, r.via, r.srv, r.pre))
            for a, f in enumerate(r.faults):
                L.append("act i=%d a=%d label=%s steps=%s" % (i, a, f.label, f.steps(r.token, r.method)))
        L.append("end")
        return "\n".join(L)

    def describe(self):
        reqs = self.reqs if len(self.reqs) <= 12 else self.reqs[:12]
        return dict(id=self.id, group=self.group, rt=self.rt, keepalive=self.ka, threads=self.th, servers=self.nsrv,
                    lease_ms=self.lease, n_requests=len(self.reqs),
                    requests=[dict(method=r.method, budget=r.budget, refuse=r.refuse, blackhole=r.blackhole, server=r.srv, thread=r.th,
                                   faults=[dict(kind=f.kind, cls=f.cls, pos=f.pos) for f in r.faults], stop=r.stop)
                              for r in reqs])


OK = Fault("ok")


def seq(fault, stop):
    """fault for attempts 0..stop-1, then ok; stop=None: the fault never stops."""
    if stop is None:
        return [fault]
    return [fault] * stop + [OK]


# ------------------------------------------------------------------------------ geometry
class Geometry:
    """Byte landmarks of the request iora builds for (method) and of the scripted ok response; the
    request side is measured by a probe run, never assumed."""

    def __init__(self):
        self.req = {}    # method -> dict(L, line_end, hdr_end, mlen)

    def learn(self, method, raw):
        le = raw.find(b"\r\n") + 2
        he = raw.find(b"\r\n\r\n") + 4
        self.req[method] = dict(L=len(raw), line_end=le, hdr_end=he, mlen=len(method))

    def req_boundaries(self, method):
        g = self.req[method]
        s = {1, g["mlen"], g["mlen"] + 1, g["line_end"] - 1, g["line_end"], g["hdr_end"] - 2, g["hdr_end"] - 1,
             g["hdr_end"], g["L"] - 1}
        if g["L"] > g["hdr_end"]:
            s.add(g["hdr_end"] + 1)
        return sorted(x for x in s if 1 <= x < g["L"])

    def req_all(self, method):
        return list(range(1, self.req[method]["L"]))

    @staticmethod
    def resp_len(method, chunked=False):
        return len(ok_response("T00000r0", method, chunked=chunked))

    @staticmethod
    def resp_boundaries(method, chunked=False):
        r = ok_response("T00000r0", method, chunked=chunked)
        le = r.find(b"\r\n") + 2
        he = r.find(b"\r\n\r\n") + 4
        s = {0, 1, 5, le - 1, le, he - 4, he - 1, he, len(r) - 1}
        if len(r) > he:
            s.add(he + 1)
        return sorted(x for x in s if 0 <= x < len(r))

    @staticmethod
    def resp_all(method, chunked=False):
        return list(range(0, Geometry.resp_len(method, chunked)))


# ------------------------------------------------------------------------------ fault catalogue
def fault_positions(geo, method, exhaustive_req=False, exhaustive_resp=False):
    """All (fault) instances for one method: kinds × positions (+ classes)."""
    out = []
    out.append(Fault("rst-before-read"))
    out.append(Fault("rst-unread-request"))
    rp = geo.req_all(method) if exhaustive_req else geo.req_boundaries(method)
    for p in rp:
        out.append(Fault("rst-after-request-bytes", p))
    for p in (rp if exhaustive_req else rp[::3]):
        out.append(Fault("close-after-request-bytes", p))
    out.append(Fault("rst-after-request"))
    sp = geo.resp_all(method) if exhaustive_resp else geo.resp_boundaries(method)
    for p in sp:
        out.append(Fault("fin-after-response-bytes", p))
    for p in (sp if exhaustive_resp else sp[::2]):
        out.append(Fault("close-after-response-bytes", p))
        out.append(Fault("rst-after-response-bytes", p))
    if method != "HEAD":
        cp = geo.resp_all(method, True) if exhaustive_resp else geo.resp_boundaries(method, True)
        for p in (cp if exhaustive_resp else cp[::2]):
            out.append(Fault("fin-after-chunked-response-bytes", p))
    for c in MALFORMED_CLASSES:
        out.append(Fault("malformed", cls=c))
        out.append(Fault("malformed-close", cls=c))
    for pos, classes in sorted(GRAMMAR_POSITIONS.items()):          # one held-open + short-timeout case per grammar position
        out.append(Fault("malformed-hold-timeout", cls=classes[-1]))
    for c in ("trailer-field-lone-lf", "trailer-final-lone-lf"):
        out.append(Fault("malformed-hold-timeout", cls=c))
    for c in AMBIGUOUS_CLASSES:
        out.append(Fault("ambiguous-close", cls=c))
        out.append(Fault("ambiguous-hold", cls=c))
    for c in CLOSE_SIGNALS:
        out.append(Fault("close-signal", cls=c))
    out.append(Fault("close-signal-fin", cls="resp-connection-close"))
    out.append(Fault("surplus"))
    out.append(Fault("close-delimited") if method != "HEAD" else Fault("head-with-body"))
    return out


def silence_positions(geo, method, exhaustive=False):
    out = [Fault("silence-after-request")]
    rp = geo.req_boundaries(method)
    for p in (rp[1::3]):
        out.append(Fault("silence-mid-request", p))
    sp = geo.resp_all(method) if exhaustive else geo.resp_boundaries(method)
    for p in sp:
        if p > 0:
            out.append(Fault("silence-after-response-bytes", p))
    return out


STOPS = [1, 2, 3, None]


def single_case(rng, method, budget, fault, stop, refuse=0, blackhole=0, rt=None):
    rt = rt or (rng.choice([100, 150, 200]) if blackhole and not fault.silent() and fault.rt(rng) == LONG_RT else fault.rt(rng))
    cap = 4096 if fault.kind == "over-cap-body" else 0
    r = Req(method, budget, seq(fault, stop), stop=stop, refuse=refuse, blackhole=blackhole, gap=0)
    # a second, clean request after a successful first one shows whether the connection is reused
    follow = Req("GET", 0, [OK], gap=0)
    r.gap = 70 if fault.kind in ("surplus-late", "idle-fin") else 0
    return Case("single", [r, follow], rt=rt, ct=200, cap=cap)
