# C14 reference side: independent entity/char-ref decoder, expat event stream (oracle 2), the
# independent tag-balance scanner and limit recomputation over the tokens iora emitted.  stdlib only.
import re
import xml.parsers.expat as expat

_ENC = re.compile(rb"""encoding\s*=\s*(["'])([^"']*)\1""")

PREDEF = {b"lt": b"<", b"gt": b">", b"amp": b"&", b"apos": b"'", b"quot": b'"'}
XML_WS = b" \t\r\n"


def is_xml_char(cp):
    return cp in (0x9, 0xa, 0xd) or 0x20 <= cp <= 0xd7ff or 0xe000 <= cp <= 0xfffd or 0x10000 <= cp <= 0x10ffff


def decode_refs(raw):
    """XML 1.0 reference decoding of a raw slice -> ('ok', bytes) | ('undefined', name) | ('invalid', why)"""
    out = bytearray()
    i, n = 0, len(raw)
    while i < n:
        c = raw[i]
        if c != 0x26:
            out.append(c)
            i += 1
            continue
        j = raw.find(b";", i + 1)
        if j < 0:
            return ("invalid", "no semicolon")
        body = raw[i + 1:j]
        if body.startswith(b"#"):
            try:
                if body[1:2] in (b"x",):
                    digits = body[2:]
                    if not digits or any(ch not in b"0123456789abcdefABCDEF" for ch in digits):
                        return ("invalid", "bad hex digits")
                    cp = int(digits, 16)
                elif body[1:2] == b"X":
                    return ("invalid", "&#X is not XML")          # XML requires lower-case x
                else:
                    digits = body[1:]
                    if not digits or any(ch not in b"0123456789" for ch in digits):
                        return ("invalid", "bad decimal digits")
                    cp = int(digits)
            except ValueError:
                return ("invalid", "number")
            if not is_xml_char(cp):
                return ("invalid", "not an XML Char: %x" % cp)
            out += chr(cp).encode("utf-8")
        elif body in PREDEF:
            out += PREDEF[body]
        else:
            nm = bytes(body)
            if nm and (nm[:1].isalpha() or nm[:1] in b"_:") and all(ch > 0x20 and ch not in b"&<>\"'" for ch in nm):
                return ("undefined", nm)
            return ("invalid", "malformed reference")
        i = j + 1
    return ("ok", bytes(out))


# ------------------------------------------------------------------------------- expat (oracle 2)
class ExpatReject(Exception):
    pass


def expat_stream(data):
    """-> normalised event list, or raises ExpatReject. Events:
    ('S', name, [(an, av)..]) ('E', name) ('T', text) ('C', cdata) ('M', comment) ('P', target, data)
    Character data is concatenated between markup events; text is stripped of leading XML whitespace and
    dropped when empty (iora skips whitespace before every token)."""
    ev = []
    buf = []
    state = {"cdata": False, "doctype": False}

    def flush():
        if buf:
            t = "".join(buf).encode("utf-8")
            del buf[:]
            if state["cdata"]:
                ev.append(("C", t))
            else:
                t = t.lstrip(XML_WS)
                if t:
                    ev.append(("T", t))

    def start(name, attrs):
        flush()
        ev.append(("S", name.encode("utf-8"), [(attrs[i].encode("utf-8"), attrs[i + 1].encode("utf-8")) for i in range(0, len(attrs), 2)]))

    def end(name):
        flush()
        ev.append(("E", name.encode("utf-8")))

    def chars(s):
        buf.append(s)

    def cd_start():
        flush()
        state["cdata"] = True

    def cd_end():
        if not buf:
            ev.append(("C", b""))
        flush()
        state["cdata"] = False

    def comment(s):
        if state["doctype"]:
            return
        flush()
        ev.append(("M", s.encode("utf-8")))

    def pi(t, d):
        if state["doctype"]:
            return
        flush()
        ev.append(("P", t.encode("utf-8"), d.encode("utf-8")))

    def dt_start(*a):
        state["doctype"] = True
        state["doctype_at"] = p.CurrentByteIndex

    def dt_end():
        state["doctype"] = False

    m = _ENC.search(data[:300])
    if m and m.group(2).lower() not in (b"utf-8", b"utf8"):
        raise ExpatReject("declared encoding %r is outside the subset" % m.group(2))
    p = expat.ParserCreate()           # no namespace processing: names stay 'prefix:local'
    p.ordered_attributes = True
    p.buffer_text = False
    p.StartElementHandler, p.EndElementHandler, p.CharacterDataHandler = start, end, chars
    p.StartCdataSectionHandler, p.EndCdataSectionHandler = cd_start, cd_end
    p.CommentHandler, p.ProcessingInstructionHandler = comment, pi
    p.StartDoctypeDeclHandler, p.EndDoctypeDeclHandler = dt_start, dt_end
    try:
        p.Parse(data, True)
    except expat.ExpatError as e:
        raise ExpatReject(str(e))
    except (UnicodeError, ValueError, LookupError) as e:     # e.g. an encoding name damaged by a mutation
        raise ExpatReject(str(e))
    flush()
    return ev, state.get("doctype_at")


# ------------------------------------------------------------------------------- balance + limits over emitted tokens
def balance_and_limits(tokens):
    """tokens: [(kind_letter, depth, name_bytes, textlen, nattrs, max_attr_name_len, max_attr_value_len)].
    Independent recomputation: -> dict(balanced, why, depth, attrs, name, text, tokens, depth_faithful)"""
    stack = []
    res = dict(balanced=True, why="", depth=0, attrs=0, name=0, text=0, tokens=len(tokens), depth_faithful=True)
    for k, dp, nm, tl, na, an, av in tokens:
        if len(nm) > res["name"]:
            res["name"] = len(nm)
        if k == "S" or k == "M":
            if an > res["name"]:
                res["name"] = an
            if na > res["attrs"]:
                res["attrs"] = na
            if av > res["text"]:
                res["text"] = av
        if k == "T" and tl > res["text"]:
            res["text"] = tl
        if k == "S":
            stack.append(nm)
            if len(stack) > res["depth"]:
                res["depth"] = len(stack)
            if dp != len(stack):
                res["depth_faithful"] = False
        elif k == "M":
            if len(stack) + 1 > res["depth"]:
                res["depth"] = len(stack) + 1
            if dp != len(stack) + 1:
                res["depth_faithful"] = False
        elif k == "E":
            if not stack:
                res["balanced"] = False
                res["why"] = "end tag </%s> with no open element" % nm.decode("latin-1")
                return res
            if stack[-1] != nm:
                res["balanced"] = False
                res["why"] = "end tag </%s> closes <%s>" % (nm.decode("latin-1"), stack[-1].decode("latin-1"))
                return res
            if dp != len(stack):
                res["depth_faithful"] = False
            stack.pop()
        else:
            if dp != len(stack):
                res["depth_faithful"] = False
    if stack:
        res["balanced"] = False
        res["why"] = "%d element(s) still open at the end: <%s>" % (len(stack), stack[-1].decode("latin-1"))
    return res


# ------------------------------------------------------------------------------- DOCTYPE extent
def doctype_slice(data, at=None):
    """For a document expat accepted (prolog and DTD are well-formed): the bytes between '<!DOCTYPE' and the '>' that
    ends the declaration. The keyword is located by a forward scan of the prolog (BOM, XML declaration, white space,
    comments, PIs), the end by a literal-aware scan (quoted literals anywhere, comments and PIs inside the internal
    subset may contain '[', ']' and '>'). -> bytes, or None when the document has no DOCTYPE."""
    n = len(data)
    pos = 3 if data.startswith(b"\xef\xbb\xbf") else 0
    while True:
        while pos < n and data[pos] in XML_WS:
            pos += 1
        if data.startswith(b"<?", pos):
            e = data.find(b"?>", pos + 2)
            if e < 0:
                return None
            pos = e + 2
        elif data.startswith(b"<!--", pos):
            e = data.find(b"-->", pos + 4)
            if e < 0:
                return None
            pos = e + 3
        elif data.startswith(b"<!DOCTYPE", pos):
            break
        else:
            return None
    start = pos + 9
    pos = start
    in_subset = False
    while pos < n:
        c = data[pos:pos + 1]
        if in_subset and data.startswith(b"<!--", pos):
            e = data.find(b"-->", pos + 4)
            if e < 0:
                return None
            pos = e + 3
        elif in_subset and data.startswith(b"<?", pos):
            e = data.find(b"?>", pos + 2)
            if e < 0:
                return None
            pos = e + 2
        elif c in (b'"', b"'"):
            q = data.find(c, pos + 1)
            if q < 0:
                return None
            pos = q + 1
        elif c == b"[":
            in_subset = True
            pos += 1
        elif c == b"]":
            in_subset = False
            pos += 1
        elif c == b">" and not in_subset:
            return data[start:pos]
        else:
            pos += 1
    return None


def has_non_ascii_names(stream):
    for e in stream:
        if e[0] in ("S", "E", "P") and any(ch >= 0x80 for ch in e[1]):
            return True
        if e[0] == "S" and any(ch >= 0x80 for an, _ in e[2] for ch in an):
            return True
    return False
