# Shard runner shared by the C13 (JSON) and C14 (XML) checks.
# A shard = generate cases -> write a case file -> run the batch harness (resuming after a sanitizer
# abort / crash / stuck case, which is attributed to the case that was running) -> judge in Python.
# Shards run in forked worker processes (generation and judging are Python-bound), each returns a
# picklable summary that the parent folds into the vf.Ctx.  stdlib only.
import json, multiprocessing, os, traceback
import vf


def new_summary():
    return dict(viol=[], obs={}, obsmax={}, sigs=set(), evals=0, samples=[], inconcl=[], san=0,
                flavors=set(), extra={})


class S:
    """thin helper around a summary dict"""

    def __init__(self):
        self.d = new_summary()
        self._per_key = {}

    def viol(self, key, what, detail=None):
        n = self._per_key.get(key, 0) + 1
        self._per_key[key] = n
        if n <= 5:          # keep summaries small: full detail for the first few, at most 50 entries per key and shard
            self.d["viol"].append((key, what, detail))
        elif n <= 50:
            self.d["viol"].append((key, what, None))
        self.d["obs"]["violation_records"] = self.d["obs"].get("violation_records", 0) + 1

    def obs(self, name, n=1):
        self.d["obs"][name] = self.d["obs"].get(name, 0) + n

    def obs_max(self, name, v):
        self.d["obsmax"][name] = max(self.d["obsmax"].get(name, v), v)

    def case(self, sig=None, sample=None, n=1):
        self.d["evals"] += n
        if sig is not None:
            self.d["sigs"].add(sig if isinstance(sig, str) else vf.h64(json.dumps(sig, sort_keys=True, default=str)))
        if sample is not None and len(self.d["samples"]) < 2:
            self.d["samples"].append(sample)

    def inconcl(self, what):
        self.d["inconcl"].append(what)


def run_cases(binary, lines, tmp, tag, extra_args=(), timeout=900, max_restarts=3000):
    """Run the batch harness over `lines`. Returns (records: {index: rec}, events: [dict]).
    events: kind in {'san','crash','stuck','timeout'}, index = culprit case, reports = sanitizer reports."""
    cases = os.path.join(tmp, f"{tag}.cases")
    with open(cases, "w") as fh:
        fh.write("\n".join(lines))
        fh.write("\n")
    records, events = {}, []
    cur, restarts = 0, 0
    n = len(lines)
    while cur < n and restarts <= max_restarts:
        out = os.path.join(tmp, f"{tag}.{cur}.out")
        rr = vf.run_harness(binary, ["--cases", cases, "--from", cur, "--out", out, "--tmp", tmp] + list(extra_args),
                            timeout=timeout, out_file=out)
        try:
            os.unlink(out)
        except OSError:
            pass
        done = False
        last = cur - 1
        stuck = None
        for r in rr.records:
            if "i" in r and "t" not in r:
                records[r["i"]] = r
                last = max(last, r["i"])
            elif r.get("t") == "done":
                done = True
            elif r.get("t") == "stuck":
                stuck = r["i"]
            elif r.get("t") == "viol":
                events.append(dict(kind="harness-viol", index=(r.get("detail") or {}).get("index", -1), rec=r, rc=0, reports=[], stderr=""))
        if done and rr.rc == 0 and not rr.san_reports:
            break
        culprit = stuck if stuck is not None else last + 1
        if stuck is not None:
            kind = "stuck"
        elif rr.timed_out:
            kind = "timeout"
        elif rr.san_reports:
            kind = "san"
        else:
            kind = "crash"
        events.append(dict(kind=kind, index=culprit, rc=rr.rc, reports=rr.san_reports, stderr=rr.err[-1500:]))
        if done:
            break
        cur = culprit + 1
        restarts += 1
    try:
        os.unlink(cases)
    except OSError:
        pass
    return records, events


def _call(job):
    fn, kwargs = job
    import time
    t0 = time.time()
    try:
        d = fn(**kwargs)
        d["extra"].setdefault("shard_wall_s", []).append([getattr(fn, "__name__", "?"), kwargs.get("idx"), round(time.time() - t0, 1)])
        return d
    except Exception:
        s = S()
        s.inconcl(f"worker exception in {getattr(fn, '__name__', fn)}: {traceback.format_exc()[-1500:]}")
        return s.d


def run_pool(jobs, workers=None):
    """jobs: [(module-level function, kwargs)] -> list of summaries (forked workers)."""
    workers = max(1, min(workers or vf.NCPU, len(jobs)))
    ctx = multiprocessing.get_context("fork")
    with ctx.Pool(workers, maxtasksperchild=4) as pool:
        return list(pool.imap_unordered(_call, jobs, chunksize=1))


def merge(ctx, summaries, flavor="asan"):
    counts = {}
    for d in summaries:
        for key, what, detail in d["viol"]:
            counts[key] = counts.get(key, 0) + 1
            ctx.violation(key, what, detail)
        for k, n in d["obs"].items():
            ctx.obs(k, n)
        for k, v in d["obsmax"].items():
            ctx.obs_max(k, v)
        ctx.evaluations += d["evals"]
        ctx.add_sigs(d["sigs"])
        for smp in d["samples"]:
            if len(ctx.samples) < 6:
                ctx.samples.append(smp)
        for w in d["inconcl"]:
            ctx.inconcl(w)
        ctx.san_reports += d["san"]
        for f in d["flavors"]:
            ctx.flavors.add(f)
        for k, v in d["extra"].items():
            ctx.extra.setdefault(k, []).extend(v if isinstance(v, list) else [v])
    return counts


def handle_events(s, prop, events, lines, describe, rerun=None):
    """Turn harness events into violations / inconclusives. describe(index) -> short class string for keys.
    rerun(index) -> (records, events) re-runs that single case in isolation (stuck / timeout)."""
    for ev in events:
        k = ev["index"]
        line = lines[k] if 0 <= k < len(lines) else ""
        det = dict(case=line[:20000], index=k, stderr=ev["stderr"])
        if ev["kind"] == "harness-viol":
            r = ev["rec"]
            d = r.get("detail") if isinstance(r.get("detail"), dict) else dict(detail=r.get("detail"))
            s.viol(r.get("key", "?"), r.get("what", "") + f" ({describe(k)})", dict(d, case=line[:20000]))
        elif ev["kind"] == "san":
            for rep in ev["reports"]:
                s.d["san"] += 1
                s.viol(f"{prop}:san:{rep['key']}", f"sanitizer report {rep['key']} on a {describe(k)} case",
                       dict(det, text=rep["text"][:4000]))
        elif ev["kind"] == "crash":
            rc = ev["rc"]
            sig = -rc if rc is not None and rc < 0 else rc
            s.viol(f"{prop}:crash:{'signal' if (rc or 0) < 0 else 'exit'}-{sig}:{describe(k)}",
                   f"harness process died (rc={rc}) on a {describe(k)} case", det)
        else:
            again = rerun(k) if rerun else None
            if again is not None and any(e["kind"] in ("stuck", "timeout") for e in again[1]):
                s.viol(f"{prop}:nontermination:{describe(k)}",
                       f"case did not finish within the CPU/step guard, reproduced in isolation ({describe(k)})", det)
            elif again is not None and again[1]:
                handle_events(s, prop, again[1], [line], lambda _i: describe(k))
            else:
                s.inconcl(f"{ev['kind']} on case {k} ({describe(k)}) not reproduced in isolation")
