#!/usr/bin/python3
# Regenerates /verif/MANIFEST.json from the table below (kept in one place so it stays valid).
import json, os, subprocess

VERIF = os.path.dirname(os.path.dirname(os.path.abspath(__file__)))

BASELINE_OFF = ("cmake -G Ninja -B /repo/_build -S /repo >/dev/null && cmake --build /repo/_build && "
                "ctest --test-dir /repo/_build -j8 --timeout 900")

# id -> dict(level, text, note, technique)
CHECKS = {
    "C10": dict(
        level="exploration",
        text="Seeded multi-threaded scenarios on the real BlockingQueue (1-6 producers/consumers, blocking/timed/non-blocking mixes, "
             "close at seeded moments, pre-park delays injected by a pthread_cond_* interposer) judged by an in-harness history checker "
             "over unique items (exactly-once, per-producer order, total FIFO for 1P/1C, conservation at close, capacity bound, "
             "stuck-caller detector); SPSC runs on RingBuffer/DynamicRingBuffer (capacities 1..64, single/batch/peek, resize at quiescent "
             "points) with the same oracle and, in the -fsanitize=thread build, TSan as the oracle for the memory-model clause. "
             "Held on the executions produced, nothing more.",
        note="Trusts: TSan's happens-before model; that a caller parked 6 s after close() returned with the queue closed is stuck for good; "
             "size() of the rings sampled only from producer/consumer threads.",
        technique="runtime monitoring: history checker over unique items + stuck-caller detector + ThreadSanitizer, condvar pre-park delay injection",
        design_ref="DESIGN.md §3 C10"),
}

NOT_YET = {}


def main():
    props = [json.loads(l) for l in open(os.path.join(VERIF, "properties.jsonl"))]
    checks, na = [], []
    for p in props:
        pid = p["id"]
        c = CHECKS.get(pid)
        if c and os.path.exists(os.path.join(VERIF, "lib", "props", pid.lower() + ".py")):
            checks.append(dict(
                property_id=pid,
                quick_cmd=f"./check {pid} --tier quick",
                thorough_cmd=f"./check {pid} --tier thorough",
                evidence_file=f"/verif/evidence/{pid}.json",
                replay_cmd_template=f"./check {pid} --replay {{path}}",
                engine="vf",
                level_claimed=dict(category=c["level"], text=c["text"], design_ref=c.get("design_ref", "DESIGN.md §3 " + pid)),
                level_note=c["note"],
                technique=c["technique"],
            ))
        else:
            na.append(dict(property_id=pid, reason=NOT_YET.get(pid, "check designed in DESIGN.md §3 but not yet built/validated at this commit; not claimed until it runs silently on the unchanged tree")))
    hooks_commits = []
    m = dict(
        version=1,
        setup_cmd="./check setup",
        hooks=dict(
            guard="IORA_VERIF",
            enable="harnesses compile /repo/include header-only with -DIORA_VERIF=1; no guarded hook exists in /repo at this commit (all observation is through public API, the befriended test seam, protected members via subclassing, and libc interposition inside the harness executables)",
            baseline_off_cmd=BASELINE_OFF,
            source_commits=hooks_commits,
            add_only=True,
        ),
        engines=[dict(name="vf", path="/verif/check", serves_properties=[c["property_id"] for c in checks],
                      kind_free_text="Python driver + C++17 harnesses compiled per sanitizer flavor (plain / address+undefined / thread / libFuzzer) against /repo/include with a content-hash build cache; libc interposers for schedule, clock, socket and file-operation perturbation; offline/online monitors; evidence + known-findings matcher")],
        checks=checks,
        notes="Every check rebuilds its harness from /repo's current working tree (cache key = sha256 of /repo/include + harness sources + flags). Exit 0 held / 1 VIOLATION / 2 harness failure or inconclusive. known_findings.json lists fixed and open findings.",
        not_applicable=na,
    )
    with open(os.path.join(VERIF, "MANIFEST.json"), "w") as fh:
        json.dump(m, fh, indent=1)
    print(f"MANIFEST.json: {len(checks)} checks, {len(na)} not claimed")


if __name__ == "__main__":
    main()
