#!/usr/bin/python3
# Regenerates /verif/MANIFEST.json from the table below (kept in one place so it stays valid).
import json, os, subprocess

VERIF = os.path.dirname(os.path.dirname(os.path.abspath(__file__)))

BASELINE_OFF = ("cmake -G Ninja -B /repo/_build -S /repo >/dev/null && cmake --build /repo/_build && "
                "ctest --test-dir /repo/_build -j8 --timeout 900")

# id -> dict(level, text, note, technique)
# properties whose check is built, validated (3 seeds silent, mutants caught) and claimed
READY = ["C01", "C02", "C03", "C04", "C05", "C06", "C07", "C08", "C09", "C10", "C11", "C12", "C13", "C14", "C15", "C16", "C17", "C18", "C19", "C20"]

CHECKS = {
    "C01": dict(
        level="exploration",
        text="Real Transport::tcp sessions against independent raw TCP peers and an OpenSSL peer written directly against libssl, over the matrix {plain, TLS 1.2/1.3} x {edge, level triggered} x "
             "{batching on/off} x {1, 4, 16 sender threads} x payload-size distributions, with real kernel back-pressure (soSndBuf 4096, small peer buffers, bursty peer reads) and a send/recv/read/"
             "write interposer that shortens counts at a seeded subset of calls, at every call, or at exactly call i / cut c (single-cut sweep, exhaustive in thorough for a 3-payload script, including "
             "cuts inside TLS handshake writes and inside the pending-write drain). Every payload is self-describing (sender, sequence, length, checksum); an offline checker that shares no code with "
             "iora parses what the peer received: whole payloads only, each at most once, per-sender order, cross-thread order by real-time precedence, no loss while the session stays open, a prefix "
             "plus exactly one close otherwise; the reverse direction is a position-encoded stream verified inside onData. A stall is a violation only when logically characterised (accepted bytes "
             "outstanding, engine counters frozen, peer blocked on an empty socket, kernel send queue empty, session not closed) and reproduced in an isolated re-run.",
        note="Loopback kernel of this sandbox; closeOnBackpressure=false is excluded by the property; idle/connect/handshake timeouts are raised in the cells (not part of this property). "
             "Bytes still sitting in kernel queues are reported as kernel-not-delivering and can never become a violation.",
        technique="runtime monitoring: self-describing byte stream checked at an independent peer, short-count injection at the syscall boundary, real back-pressure, ASan/UBSan/TSan"),
    "C02": dict(
        level="exploration",
        text="Randomised histories on the real TCP and UDP engines (8-22 concurrently driven sessions per transport; every close origin: app close, peer FIN, "
             "RST, refused, unresolvable, connect/handshake/write-stall timers, TLS failure, idle GC, back-pressure, stop(); observers and user data "
             "registered/unregistered from actor threads and from inside callbacks; restarts) watched by an online per-session-id state machine fed "
             "from every callback on one global atomic sequence: exactly one close per seen id, nothing before announce or after close, ids never "
             "reused, fan-out order global callback -> observers in registration order -> user-data cleanup, sessions gauge never under-counts and "
             "returns to zero. plain + tsan (quick), + asan (thorough). Held on the executions produced; each close origin must have been observed or the run is inconclusive.",
        note="Trusts the raw loopback peers and the kernel's TCP/UDP behaviour on loopback; 'seen' = returned by connect()/connectViaListener() or carried by an accept/connect callback; "
             "UDP back-pressure close is unreachable on loopback (not required). "
             "One open known finding (a setReadMode flush already inside its delivery loop hands exactly one more chunk to the data callback after the close was reported; tcp and udp keys).",
        technique="runtime monitoring: online per-id state machine over callback/observer/cleanup events + stats conservation, under TSan/ASan"),
    "C03": dict(
        level="exploration",
        text="Transport driven through the befriended engine seam by a scripted engine (exact arrival chunking and close placement) with a reader thread "
             "(seeded buffer lengths/timeouts), a mode switcher (Async/Sync/Disabled), local closes and a late caller; condvar pre-park delays injected by a "
             "pthread_cond_* interposer; plus an end-to-end variant on the real TCP engine with a raw peer writing data+FIN back to back. An offline checker "
             "that shares no code with iora attributes every observed byte to its stream position and flags duplicates, loss without a justifying overflow/"
             "Disabled interval, early PeerClosed, misordered flush, overlapping callbacks, non-sticky or late overflow. Thorough tier enumerates a 129,024-history small scope completely.",
        note="One receiveSync caller per session (documented contract); events are ordered only when one ended before the other began on the global sequence, overlapping events accept either order.",
        technique="runtime monitoring: position-encoded stream + offline history checker over scripted-engine and real-TCP executions, condvar delay injection, TSan/ASan"),
    "C04": dict(
        level="exploration",
        text="Batches of 1-32 concurrent connectSync / connectSyncCancellable callers on a fresh real Transport against 14 scripted loopback targets (accepting, refusing, "
             "black-holing, reset after accept, TLS ok / wrong CA / garbage / slow / stalled / reset after ClientHello, resolver failure and slow resolver via a getaddrinfo "
             "interposer, TLS requested without TLS configured) with timeouts swept 0..20 ms so completion and expiry collide, seeded cancels, and a pre-park delay before "
             "pthread_cond_clockwait that makes the 'success arrives in the unlock window of the timeout path' ordering frequent. The oracle joins the client-boundary history "
             "{call, return}, the global callback log and the raw peer's own view: ok(sid) <-> exactly one live, echo-verified peer connection; no global onConnect/onClose for an id "
             "never handed out; every non-ok attempt leaves no open connection; definite error codes; return within timeout + slack (judged only when a heartbeat shows the process was scheduled, re-run in isolation).",
        note="Real DNS and unroutable addresses are emulated (resolver interposer, listen(fd,0) black hole); timing verdicts are watchdogs with isolated re-run, logical rules decide.",
        technique="runtime monitoring: client-boundary call/return history + peer-side view + global callback log, condvar pre-park delay injection, TSan/ASan"),
    "C05": dict(
        level="exploration",
        text="Teardown storms on real TCP and UDP transports: callers verifiably parked in connectSync (black hole), receiveSync and a setReadMode flush held in a slow data callback, "
             "racers entering those calls around the teardown instant, storm threads doing send/close/addListener/connect until stop() has returned; teardown by stop() from another "
             "thread, last owner dropped on a user thread / inside onClose / inside onData (deferred self-destruct), stop() from a callback (must throw logic_error), start/stop cycles, "
             "two concurrent stops. Oracles: ASan+UBSan and TSan with reports fatal (any report with an iora frame is a violation), a per-call return deadline measured from the moment "
             "teardown began (15 s against 60 s call timeouts, isolated re-run), a callback fence stamped when stop() returned, and clean failure of every operation issued afterwards.",
        note="Compiled with -fno-access-control only to read the parked-caller counters under iora's own lock (observation of which interleaving class was hit). Absence of races holds for the interleavings TSan saw. "
             "Operations issued from inside callbacks fired by a teardown drain, connectSync bursts against slow onClose handlers, connectViaListener around the teardown and datagrams after every restart are part of the storms. "
             "One open known finding (a setReadMode flush past its closed-check enters onData with one chunk after stop() returned; same window as the C02 entry).",
        technique="runtime monitoring: sanitizers + call-return deadlines + callback fence over teardown storms, schedule perturbation"),
    "C11": dict(
        level="fault_enumeration",
        text="A file-operation interposer (open/fopen/write/writev/rename/truncate/unlink/close) records every operation the real KVStore / JsonFileStore issues during a seeded history, tagged "
             "with the API call in flight and with when each call returned. Crash images are materialised by replaying the trace up to operation k and byte cut b (process-crash model) — every "
             "operation boundary plus structural byte cuts per write in quick, every byte of every small write in thorough — and each image is recovered by a fresh store in a forked child "
             "(a crash, abort or hang of recovery is itself observed), dumped, continued with further operations, closed, reopened and dumped again (second-level crashes in thorough). An "
             "independent Python oracle computes the admissible states: last returned operation per key, old-or-new for keys touched by the in-flight call, never torn/foreign/resurrected; "
             "JsonFileStore: last completed flush or the one in progress, never empty/unreadable.",
        note="Process-crash model as the property states it (data handed to the OS survives; fsync is recorded, not executed). Exhaustive per history over the cuts enumerated (reported per history in the evidence); "
             "writes larger than the every-byte limit get sampled cuts. TTL keys use far-future expiries so expiry does not blur the admissible set (expiry semantics are C12's).",
        technique="fault enumeration by trace replay: recorded file-operation trace cut at every boundary/byte, recovery in a child process, independent admissible-state oracle, ASan"),
    "C06": dict(
        level="exploration",
        text="Histories on a real Transport::udp with 1-2 listeners and 2-8 raw UDP peers on 127.0.0.1 / ::1 (30-70 seeded steps: peer batches to listeners and to connected sessions, foreign peers, "
             "sends on open/closed/unknown sessions, several destinations queued under an injected EAGAIN burst, connect, connectViaListener biased to peers that already have a receiving session, "
             "closes biased to OTHER sessions of such a peer, error closes, idle expiry with real 1 s timeouts, a second sending thread). Every datagram carries (origin, id, length, checksum) plus "
             "a regenerated body, sizes 1..65507 boundary-biased; raw sockets log (src, dst, payload) on the wire, the transport side logs (event, sid, remote address, payload). An offline checker "
             "without any iora include requires: wire datagrams from iora are a sub-multiset of accepted sends, byte-identical, to the session's peer; every datagram the kernel delivered appears as "
             "exactly one data event with identical bytes on a session of that source address; between accept(sid,P) and close(sid) every datagram from P arrives on sid with no second accept, "
             "whatever other sessions are closed or expire. plain+asan (quick), +tsan (thorough).",
        note="Real EAGAIN is unreachable on loopback (the skb is orphaned inside sendto), so the queue paths are reached by answering a seeded burst of iora's own send/sendto calls with EAGAIN (a legal kernel "
             "answer; payloads never altered). Kernel drops (SO_RXQ_OVFL, /proc/net/udp) make a history inconclusive for the loss rule, never a violation. Peers are indexed by address only, so delivery on a session "
             "of the other listener is tolerated.",
        technique="runtime monitoring: tagged datagrams logged at raw sockets vs transport events, offline history checker, EAGAIN injection, ASan/TSan"),
    "C07": dict(
        level="fault_enumeration",
        text="A pruned 754-cell configuration matrix (verify on/off x trust anchor x server certificate x client certificate x protocol ceiling x peer kind x entry point "
             "{Transport client/server, HttpClient, HttpServer} x target kind x lifecycle (fresh, second life, retried start) x HttpClient request sequences (http-then-https and https-then-http on one host:port, setTlsConfig between requests) x name-matching family (exact / wildcard / partial / non-leftmost wildcard / IP SAN / CN-only certificates against 14 target spellings) x shape of iora's own certificate file (leaf, fullchain, leaf+unrelated CA, CA first)) is executed for real against an independent libssl / plaintext / garbage peer through a "
             "recording relay; the expected outcome of each cell (must-reject / must-accept / either) is computed from its coordinates alone; admission is decided by "
             "application data exchanged, the relay scans for clear-text tokens, the peer reports the negotiated version. Quick runs a seeded covering subset (every coordinate "
             "value, every reject class, all 36 TLS-floor classes as required observations) on plain+asan; thorough runs the whole matrix on plain+asan+tsan (exhaustive over the matrix).",
        note="System OpenSSL 3.0.x; TLS 1.0/1.1 are only negotiable at security level 0, so low-ceiling cells run at @SECLEVEL=0 and reference libssl-vs-libssl cells must prove "
             "negotiability for the floor cells to count. Revocation, name constraints, cipher strength are out of scope. "
             "One open known finding (HttpClient::setTlsConfig() after the first request is ignored; seq-settls-* cells only).",
        technique="runtime monitoring over an enumerated configuration matrix: differential oracle from cell coordinates, independent libssl peer, wire-capturing relay"),
    "C08": dict(
        level="exploration",
        text="Seeded scenarios on the real TimingWheel (1-3 levels x 4/8/16 slots x 1-4 ms tick, started mode), TimerService and TimerServicePool: 2-6 threads issue "
             "schedule/cancel/reschedule/periodic with boundary-biased delays (zero, sub-tick, shared bucket, level and cascade boundaries, at and beyond the wheel span) against "
             "firing; handlers are quick, slow (making the tick thread lag), throwing, scheduling and cancelling; stop()/drain() at quiescence or racing the schedulers with a delay "
             "injected after the scheduler's clock read. Every call/return and the first/last statement of every handler is stamped on the un-shimmed monotonic clock; an offline "
             "checker applies: never early (minus one tick for the wheel), one-shot at most once, k-th periodic firing not before k intervals, no start after a successful cancel/"
             "reschedule returned, cancel false => ran exactly once, never dropped, nothing after stop/drain returned, refused after stop, no API call stuck. "
             "A long-handler family (handler outliving TimerService::stop()'s internal 5 s drain or a drain(300), schedulers running across the teardown; stop / timed-out drain then stop / "
             "pool stop / destructor / wheel stop / wheel drain) checks the same shutdown rules where a fixed internal wait expires.",
        note="A timer's deadline is bounded below by (schedule call time + delay), so earliness is judged conservatively; timers handed to a user dispatcher are out of scope. "
             "One open known finding (a periodic firing already past the service's last look-up when cancel() returns still starts; the broad class was fixed by 8c61823).",
        technique="runtime monitoring: client-boundary timer history + offline checker, clock-read and condvar delay injection, TSan"),
    "C09": dict(
        level="exploration",
        text="Seeded scenarios on the real ThreadPool: 1-16 submitters released by a spin barrier (tight one-submission-per-submitter bursts, streams, streams racing stop(), "
             "submissions around the idle-exit instant) against pools (min,max) in {(0,1),(1,2),(2,8),(4,4),(1,1),(0,4),(1,3)}, idle timeouts 1-500 ms, queue sizes 1-1024, task kinds "
             "quick/sleep/throw/nested-submit/latched, enqueue/tryEnqueue/enqueueWithResult, shutdown by destructor, stop(), drain()+stop(), stop() racing submitters. Each task "
             "counts its own executions and stamps entry/exit; the checker requires exactly-once for every accepted task, ready futures with the right value/exception, justified "
             "refusals only, no task start/run after shutdown returned, and an exact concurrently-running-workers high-water mark <= max (plus sampled getTotalThreadCount()). "
             "A long-task family (every worker busy with a 5.35-7.6 s task, i.e. on either side of shutdown()'s 5 s + 1 s waits and the destructor's 5 s drain phase, quick tasks queued behind; "
             "teardown by shutdown() / timed-out drain()+stop() / stop() / destructor) checks that the returning call left nothing running and nothing starts later.",
        note="Task bodies are bounded; DETACHED shutdown mode excluded (documented as leaking); the pool object is never destroyed while a submitter may still call into it.",
        technique="runtime monitoring: per-task counters + shutdown fence + thread high-water mark, spin-barrier bursts, condvar delay injection, TSan"),
    "C10": dict(
        level="exploration",
        text="Seeded multi-threaded scenarios on the real BlockingQueue (1-6 producers/consumers, blocking/timed/non-blocking mixes, "
             "close at seeded moments, pre-park delays injected by a pthread_cond_* interposer) judged by an in-harness history checker "
             "over unique items (exactly-once, per-producer order, total FIFO for 1P/1C, conservation at close, capacity bound, "
             "stuck-caller detector); SPSC runs on RingBuffer/DynamicRingBuffer (capacities 1..64, single/batch/peek, resize at quiescent "
             "points) with the same oracle and, in the -fsanitize=thread build, TSan as the oracle for the memory-model clause. "
             "Held on the executions produced, nothing more.",
        note="Trusts: TSan's happens-before model; that a caller parked 6 s after close() returned with the queue closed is stuck for good; "
             "size() of the rings sampled only from producer/consumer threads.",
        technique="runtime monitoring: history checker over unique items + stuck-caller detector + ThreadSanitizer, condvar pre-park delay injection"),
    "C12": dict(
        level="exploration",
        text="Seeded operation histories (set, TTL set, batch, remove, prefix remove, clear, expireAt, persist, compaction, clean close/reopen) on the real KVStore with a frozen/"
             "advanced wall clock (system_clock replaced in the harness, steady clock offset independently so eviction can be made to run or not); after EVERY step every read API "
             "(get, exists, keys, prefix scan, size, getBatch, ttl) is compared with a reference map with absolute expiry evaluated at the read instant, probing just before / exactly "
             "at / just after each expiry and across restarts. A concurrent mode races writers, readers and an admin thread (compaction, clock jumps) against the eviction worker with "
             "per-key linearizability checking (reads overlapping a write or an expiry instant accept either side). plain+asan histories, tsan for the concurrent part.",
        note="Convention checked: expired iff now >= expiry (what every read path in kvstore.hpp implements); model resolution 1 ms; wall-clock jumps inside a single API call and 100 MiB values are out of reach.",
        technique="runtime monitoring: reference-model differential after every step under a controlled wall clock + per-key linearizability checking, ASan/TSan"),
    "C13": dict(
        level="exploration",
        text="Python generates RFC 8259 texts from the grammar (every escape form incl. \\uXXXX and surrogate pairs, every number form, duplicate keys, depths and sizes up to and just beyond each "
             "ParseLimits value) and values (finite doubles incl. subnormals, +-0, 1e+-308, 17-digit cases, int64 boundaries, valid UTF-8 incl. control characters); a batch driver built with "
             "ASan+UBSan at -O0 parses/dumps with the real Json code and emits a canonical typed rendering (exact integer text, doubles as 64-bit hex, strings as UTF-8 hex). Python's json module "
             "(with parse_int/parse_float hooks) is the independent reference: decoded values must agree, every dump (compact / pretty / sorted) must be accepted by the reference and parse back to an "
             "equal value, JsonFileStore round-trips through its public API. 50k mutated byte strings and large pathological inputs go through the robustness oracle: documented exception types only, "
             "error offset inside the input, sanitizer silence, CPU time linear in the input (re-measured alone). Thorough: x100 and a libFuzzer target with the same in-process assertions.",
        note="Texts iora accepts but the reference rejects are counted, not judged (the property speaks about valid texts and arbitrary bytes' robustness). The step guard is thread CPU time (no PMU in this VM), "
             "best of three isolated re-runs.",
        technique="runtime monitoring: differential against Python json + round-trip + mutation robustness under ASan/UBSan, CPU-time monitor, libFuzzer"),
    "C14": dict(
        level="exploration",
        text="Python builds random trees and serialises them with randomised surface syntax (quote styles, whitespace, entity and character references incl. astral code points, CDATA, comments, PIs, "
             "doctype with internal subset incl. brackets inside literals/comments, namespaces/prefixes); oracle 1 is the generating tree, oracle 2 is xml.parsers.expat on documents both accept. The "
             "real pull, SAX and DOM interfaces are driven by an ASan+UBSan (-O0) batch driver that emits canonical event streams and checks that every string_view of every token lies inside "
             "[input.begin, input.end]. For 100k mutants x 4 option sets and limit sweeps (each limit at 0 / 1 / exact / exact+1) an independent tag-balance scanner and limit recomputation run over "
             "the tokens iora emitted: an accepted document must be balanced and within limits; undefined/external entities must be refused; CPU time linear. Thorough: x100 and libFuzzer.",
        note="Supported-subset normalisation as fixed in DESIGN §3 C14 (leading XML whitespace of text stripped, whitespace-only text absent, <?xml ...?> reported as a PI; PI data compared with expat after "
             "stripping the target separator). DTD-defined entities and non-UTF-8 encodings are outside the subset.",
        technique="runtime monitoring: generating-tree and expat differential + independent balance/limit recomputation + slice-range checks under ASan/UBSan, libFuzzer"),
    "C15": dict(
        level="exploration",
        text="A Python generator with its own HTTP/1.1 encoder (header sets, bodies 0..cap, every chunk-size pattern with extensions and trailers, interim 1xx, close-delimited bodies, "
             "pipelines; a hostile dictionary of invalid lengths, unsupported codings, over-cap headers and floods; mutated streams) is the ground truth. Streams are fed to the real HttpServer "
             "in-process through the protected handleIncomingData on sessions primed through a real connection — at EVERY single cut point and random multi-cuts — and over loopback from a raw "
             "socket; responses are played to a real HttpClient by a scripted raw-socket server (plus direct frameResponse calls in an optional build). Python compares what handlers / callers "
             "received with the generator's message list and across segmentations; a per-call CPU-time watchdog (isolated re-run) detects non-termination, exceptions escaping the data path are "
             "caught at a harness frame, a counting operator new measures buffered memory against the caps, and invalid length information must be rejected, never framed. plain+asan (quick), +tsan (thorough).",
        note="Loopback segment boundaries are paced/forced by short reads, exact cuts are in the in-process modes. The client memory bound uses a 2 MiB cap (HttpClient 1 MiB + transport sync buffer 1 MiB). "
             "Not judged: duplicate non-length header fields, HTTP/1.0 requests, ordering between pipelined requests (C16).",
        technique="runtime monitoring: generator-as-oracle differential over all single cut points, CPU-time and allocation monitors, ASan/UBSan/TSan"),
    "C16": dict(
        level="exploration",
        text="A real HttpServer (routes with handlers that sleep 0-20 ms, throw, return 204/304, large bodies, HEAD/OPTIONS/404/405) is driven by raw-socket clients over 1-32 concurrent "
             "connections with sequential and pipelined (2-16 deep) request sequences, each request carrying a unique token echoed in a header and the body, malformed requests at random "
             "pipeline positions, five spellings of Connection: close, slow readers and a capped server send() (short writes). The whole byte stream of every connection is recorded with EOF "
             "timing and split by an independent Python response framer; responses are matched to requests by position and token: count, order, no interleaving, Content-Length == body, "
             "HEAD without body, 500 on throw, error-or-close on unparsable input, close after Connection: close and completeness before EOF. plain+tsan (quick), +asan (thorough).",
        note="Time-bounded verdicts (silence, missing EOF) are re-run alone with doubled bounds and count only if reproduced. The 503 overload path (>1000 queued requests) is not driven. "
             "One open known finding (close drops the unsent tail of a response larger than the socket buffer).",
        technique="runtime monitoring: wire capture + independent response framer + token matching over pipelined/concurrent connections, short-write injection, TSan/ASan"),
    "C17": dict(
        level="fault_enumeration",
        text="The case space (method incl. lower-case/extension tokens x retry budget x fault kind x fault position x attempt at which the fault stops, kept-alive sequences with the fault on "
             "the 2nd/3rd request, idle-connection events, 2-8 concurrent callers) is enumerated in Python; each case runs a fresh real HttpClient against a scripted raw-socket server that logs "
             "every received byte and executes the fault (refuse, black hole, RST before/after k request bytes, close/half-close/RST/silence after k response bytes, 20 malformed-response classes, "
             "Connection: close variants, surplus bytes now or later, close-delimited body). The judge uses logical facts only — bytes attributed by the token a reference framer finds in each "
             "connection's send() stream, attempts counted by back-off sleeps, ordering from intercepted syscalls: non-idempotent at most one transmission, at most budget+1 attempts, no retry "
             "after a fully read malformed response, no reuse of a connection that saw a failure/close signal/surplus bytes, silent peers abandoned within the timeout. Quick samples every sub-space "
             "(boundary-biased); thorough enumerates them (every byte offset of request and response for representative requests) on plain+asan+tsan.",
        note="PUT/PATCH/extension methods have no public entry point and are reached through performRequest via explicit template instantiation. The 'waited beyond timeout' rule adds measured scheduling noise "
             "and must reproduce three times in isolation. HTTPS exchanges are covered by C07, not here.",
        technique="fault enumeration with a scripted server as observer: per-connection byte logs + syscall-order interposers, rules over logical facts"),
    "C18": dict(
        level="exploration",
        text="A Python reference codec and protocol-aware generator (fragmentation, control frames between fragments, all length encodings at 125/126/65535/65536, masked/unmasked, invalid UTF-8, "
             "close at any position; hostile dictionary: 2^64-1, 2^63, lengths just beyond the maximum, control frames with length codes 126/127, reserved opcodes, RSV bits) is the ground truth. "
             "Frame level: 240k random round trips through the public WebSocketFrame parse/serialize with every truncation required to be 'incomplete' (18M checks). Endpoint level: a real "
             "WebSocketServer after a real upgrade, fed through the protected onUpgradedData at EVERY single cut point and over the socket; a real WebSocketClient against a raw-socket server with "
             "capped/short reads; delivered message lists must equal the generator's and agree across segmentations, pings must be answered with equal payloads, text must be valid UTF-8. Close races: "
             "application threads sending in a loop while either side initiates close — the wire captured by the raw peer and parsed by the reference codec must show no data frame after the endpoint's "
             "close frame. A counting operator new bounds allocation by 2 x max(configured maximum, bytes received) + 1 MiB; exceptions escaping the data path are caught or seen as process death. "
             "plain+asan (+tsan for the races); thorough adds tsan everywhere and libFuzzer on the frame parser and the server data path.",
        note="WebSocketClient has no protected data seam, so its segmentations are recv-capped/short-read/paced rather than byte-exact, and it has no configurable maximum. Extensions (RSV, per-message deflate) "
             "are robustness-only. Verdicts that depend on a lost sync point must reproduce in an isolated re-run.",
        technique="runtime monitoring: reference-codec differential over all single cut points + wire capture for close ordering + allocation counter, ASan/UBSan/TSan, libFuzzer"),
    "C19": dict(
        level="exploration",
        text="A Python DNS encoder with its own name compressor (random choice of compressed suffixes, pointers into RDATA names, every supported record type, 255-octet names) generates "
             "well-formed responses whose record list is the ground truth; nine mutators produce truncations at every offset, inflated counts, pointer rewrites to self/loop/forward/out-of-range, "
             "oversize labels and names, random strings and pointer-chain messages. Each input is decoded by the real DnsMessage code in a forked ASan child with an exact-size heap buffer: decoded "
             "records must equal the generator's, queries built by the library must decode back (by an independent decoder and by iora), malformed input must end in a decoded message or "
             "DnsParseException (never a crash, never an accepted loop / out-of-range pointer), within a CPU-time bound linear in the input (re-measured alone). DnsCache histories (put / negative put / "
             "get / remove / clear) run against a reference model with steady_clock frozen and stepped to 1 ns..1 s before / exactly at / after each expiry. Thorough adds many more rounds and a libFuzzer target.",
        note="EDNS/DNSSEC record types decode as generic records only (outside the supported subset); well-formed forward pointers and labels containing '.' are excluded from the generator. "
             "One open known finding (A records 192.0-63.x.x rejected as 'malicious pointer', pinned by an existing test).",
        technique="runtime monitoring: generator-as-oracle differential + mutation robustness in forked ASan children + CPU-time monitor + reference cache model under a frozen clock, libFuzzer"),
    "C20": dict(
        level="exploration",
        text="Python builds a per-case directory tree (nested directories, 22-23 symlinks per root: inside/outside, file/dir, relative/absolute, chains, dangling, a loop, a .gz sibling pointing at "
             "the secret; sibling-prefix directories such as static-evil; a secret file outside every root; every inside file's content unique and encoding its real path) and a traversal-aware name "
             "generator/mutator (dot/dot-dot variants, absolute paths, repeated/trailing separators, backslashes, percent-encoding, NUL, 255/4096-byte components, symlink names). The real web::Assets "
             "serves the names through getStatic/getTemplate in filesystem (cached and per-request) and embedded+external-directory modes; the oracle (os.lstat / os.path.realpath) requires returned bytes "
             "to identify a regular file whose realpath is under the root, the secret token never. TOCTOU: interposers on open/read/close and the stat family (stat, lstat, statx, readlink, realpath, "
             "access) count the syscalls of one lookup and the leaf is swapped for a symlink to the secret immediately before syscall k for every k (enumerated, exhaustive per leaf), plus a background "
             "swapper thread racing 360k lookups.",
        note="Swaps of intermediate path components and windows inside realpath() itself are not enumerable by interposition (the property names the final component). POSIX only.",
        technique="runtime monitoring: content-identifies-file oracle via realpath + syscall-indexed symlink swap enumeration at the libc boundary + racing swapper, ASan"),
}

NOT_YET = {}


def main():
    props = [json.loads(l) for l in open(os.path.join(VERIF, "properties.jsonl"))]
    checks, na = [], []
    for p in props:
        pid = p["id"]
        c = CHECKS.get(pid)
        if c and pid in READY and os.path.exists(os.path.join(VERIF, "lib", "props", pid.lower() + ".py")):
            checks.append(dict(
                property_id=pid,
                quick_cmd=f"./check {pid} --tier quick",
                thorough_cmd=f"./check {pid} --tier thorough",
                evidence_file=f"/verif/evidence/{pid}.json",
                replay_cmd_template=f"./check {pid} --replay {{path}}",
                engine="vf",
                level_claimed=dict(category=c["level"], text=c["text"], design_ref=c.get("design_ref", "DESIGN.md §3 " + pid)),
                level_note=c["note"],
                technique=c["technique"],
            ))
        else:
            na.append(dict(property_id=pid, reason=NOT_YET.get(pid, "check designed in DESIGN.md §3 but not yet built/validated at this commit; not claimed until it runs silently on the unchanged tree")))
    hooks_commits = []
    m = dict(
        version=1,
        setup_cmd="./check setup",
        hooks=dict(
            guard="IORA_VERIF",
            enable="harnesses compile /repo/include header-only with -DIORA_VERIF=1; no guarded hook exists in /repo at this commit (all observation is through public API, the befriended test seam, protected members via subclassing, and libc interposition inside the harness executables)",
            baseline_off_cmd=BASELINE_OFF,
            source_commits=hooks_commits,
            add_only=True,
        ),
        engines=[dict(name="vf", path="/verif/check", serves_properties=[c["property_id"] for c in checks],
                      kind_free_text="Python driver + C++17 harnesses compiled per sanitizer flavor (plain / address+undefined / thread / libFuzzer) against /repo/include with a content-hash build cache; libc interposers for schedule, clock, socket and file-operation perturbation; offline/online monitors; evidence + known-findings matcher")],
        checks=checks,
        notes="Every check rebuilds its harness from /repo's current working tree (cache key = sha256 of /repo/include + harness sources + flags). Exit 0 held / 1 VIOLATION / 2 harness failure or inconclusive. known_findings.json lists fixed and open findings.",
        not_applicable=na,
    )
    with open(os.path.join(VERIF, "MANIFEST.json"), "w") as fh:
        json.dump(m, fh, indent=1)
    print(f"MANIFEST.json: {len(checks)} checks, {len(na)} not claimed")


if __name__ == "__main__":
    main()
