# C13 generators: grammar-based JSON *texts*, programmatic *values*, byte-level *mutants*.
# The generator never predicts what a text means (Python's json module does that, lib/c13_ref.py);
# it only guarantees RFC 8259 validity and records which syntactic features a text exercises.
# stdlib only.
import math, random, struct

DEFAULT_LIMITS = (10000, 10000, 100, 1000000)      # arrayItemsMax, membersMax, depthMax, stringLengthMax
SMALL_LIMITS = [(4, 3, 3, 8), (1, 1, 1, 1), (0, 0, 0, 0), (2, 5, 6, 3), (7, 2, 2, 16)]

WS = " \t\n\r"
SIMPLE_ESC = ['\\"', "\\\\", "\\/", "\\b", "\\f", "\\n", "\\r", "\\t"]
ASCII_RAW = [chr(c) for c in range(0x20, 0x7f) if chr(c) not in '"\\']
INTERESTING_CP = [0x80, 0xa9, 0xe9, 0x7ff, 0x800, 0x20ac, 0x2028, 0x2029, 0xd7ff, 0xe000, 0xfeff, 0xfffd,
                  0xffff, 0x10000, 0x1f600, 0x1f680, 0xfffff, 0x100000, 0x10ffff]


def lim_str(lim):
    return "%d,%d,%d,%d" % lim


def dbits(x):
    return struct.unpack("<Q", struct.pack("<d", x))[0]


def bits_to_float(b):
    return struct.unpack("<d", struct.pack("<Q", b))[0]


def rand_cp(rng):
    r = rng.random()
    if r < 0.3:
        return rng.choice(INTERESTING_CP)
    if r < 0.5:
        return rng.randrange(0x80, 0x800)
    if r < 0.8:
        while True:
            c = rng.randrange(0x800, 0x10000)
            if not 0xd800 <= c <= 0xdfff:
                return c
    return rng.randrange(0x10000, 0x110000)


def hex4(rng, v):
    s = "%04x" % v
    m = rng.randrange(3)
    if m == 1:
        s = s.upper()
    elif m == 2:
        s = "".join(ch.upper() if rng.random() < 0.5 else ch for ch in s)
    return s


def u_escape(rng, cp):
    """\\uXXXX (BMP) or a surrogate pair (astral)"""
    if cp < 0x10000:
        return "\\u" + hex4(rng, cp)
    c = cp - 0x10000
    return "\\u" + hex4(rng, 0xd800 + (c >> 10)) + "\\u" + hex4(rng, 0xdc00 + (c & 0x3ff))


def rand_finite_double(rng):
    while True:
        b = rng.getrandbits(64)
        if (b >> 52) & 0x7ff != 0x7ff:
            return bits_to_float(b)


def special_double(rng):
    r = rng.randrange(14)
    if r == 0: return 0.0
    if r == 1: return -0.0
    if r == 2: return bits_to_float(rng.randrange(1, 1 << 52) | (rng.getrandbits(1) << 63))   # subnormal
    if r == 3: return rng.choice([5e-324, -5e-324, 2.2250738585072014e-308, 2.225073858507201e-308])
    if r == 4: return rng.choice([1e308, -1e308, 1e-308, 1.7976931348623157e308, -1.7976931348623157e308])
    if r == 5: return rng.choice([0.1, 0.2, 0.3, 1 / 3, 2 / 3, 1e-7, 1.5e-7, 123456.789, 1e21, 1e22, 1e23, 9007199254740993.0])
    if r == 6: return float(rng.randrange(-1000, 1000))                                         # integral double
    if r == 7: return rng.choice([9.223372036854775807e18, -9.223372036854775808e18, 1.8446744073709552e19, 4294967296.0])
    if r == 8: return rng.uniform(-1, 1) * 10 ** rng.randrange(-20, 20)
    if r == 9: return round(rng.uniform(-1000, 1000), rng.randrange(0, 8))
    if r == 10: return math.ldexp(rng.randrange(1 << 52, 1 << 53), rng.randrange(-1074, 971))    # 17-digit cases
    if r == 11: return rng.random()
    return rand_finite_double(rng)


class TextGen:
    """Produces one RFC 8259 text; self.feat collects the syntactic features used."""

    def __init__(self, rng, max_depth=8, max_items=6, ws_p=0.3, long_strings=False):
        self.rng, self.max_depth, self.max_items, self.ws_p = rng, max_depth, max_items, ws_p
        self.long_strings = long_strings
        self.feat = set()

    # --- whitespace
    def ws(self):
        r = self.rng
        if r.random() >= self.ws_p:
            return ""
        self.feat.add("ws")
        return "".join(r.choice(WS) for _ in range(r.randrange(1, 4)))

    # --- numbers
    def number(self):
        r = self.rng
        k = r.randrange(20)
        f = self.feat
        if k == 0:
            f.add("num:zero"); return r.choice(["0", "-0"])
        if k == 1:
            f.add("num:small-int"); return str(r.randrange(-1000, 1000))
        if k == 2:
            f.add("num:int64-boundary")
            return str(r.choice([(1 << 63) - 1, -(1 << 63), (1 << 63) - 2, -(1 << 63) + 1, (1 << 62), (1 << 53) + 1, 10 ** 18]))
        if k == 3:
            f.add("num:beyond-int64")
            return str(r.choice([(1 << 63), -(1 << 63) - 1, (1 << 63) + 1, (1 << 64), (1 << 64) - 1, 10 ** 19, -10 ** 19,
                                 9223372036854775809, 18446744073709551617, 10 ** 20 + 1, 12345678901234567890123]))
        if k == 4:
            f.add("num:big-int")
            n = r.randrange(20, 400)
            return ("-" if r.random() < 0.3 else "") + str(r.randrange(1, 10)) + "".join(r.choice("0123456789") for _ in range(n))
        if k == 5:
            f.add("num:random-int64"); return str(r.randrange(-(1 << 63), 1 << 63))
        if k == 6:
            f.add("num:frac")
            return ("-" if r.random() < 0.4 else "") + str(r.randrange(0, 100000)) + "." + "".join(r.choice("0123456789") for _ in range(r.randrange(1, 8)))
        if k == 7:
            f.add("num:long-frac")
            return ("-" if r.random() < 0.3 else "") + str(r.randrange(0, 10)) + "." + "".join(r.choice("0123456789") for _ in range(r.randrange(17, 60)))
        if k == 8:
            f.add("num:neg-zero-frac"); return r.choice(["-0.0", "-0.000", "-0e0", "-0E-5", "0.0", "0e0", "0E+0", "-0.0e-0"])
        if k == 9:
            e = r.choice(["e", "E"]); sg = r.choice(["", "+", "-"])
            f.add("num:exp" + ("-upper" if e == "E" else "") + {"": "", "+": "-plus", "-": "-minus"}[sg])
            mant = str(r.randrange(0, 1000)) + ("." + str(r.randrange(0, 1000)) if r.random() < 0.6 else "")
            ex = ("0" * r.randrange(0, 3)) + str(r.randrange(0, 40))
            return ("-" if r.random() < 0.3 else "") + mant + e + sg + ex
        if k == 10:
            f.add("num:subnormal")
            return r.choice(["4.9e-324", "5e-324", "4.9406564584124654e-324", "2.4703282292062327e-324", "2.4703282292062328e-324",
                             "2.225073858507201e-308", "1e-310", "-3e-320", "2.2250738585072011e-308",
                             repr(bits_to_float(r.randrange(1, 1 << 52)))])
        if k == 11:
            f.add("num:underflow-zero"); return r.choice(["1e-400", "-1e-400", "0.1e-999", "1E-324", "2e-324", "0." + "0" * 400 + "1"])
        if k == 12:
            f.add("num:near-max")
            return r.choice(["1e308", "1.7976931348623157e308", "1.7976931348623158e308", "-1.7976931348623157E+308",
                             "179769313486231570000000000000000000000000000000000000000000000000000000000000000000000000000000000000000000000000000000000000000000000000000000000000000000000000000000000000000000000000000000000000000000000000000000000000000000000000000000000000000000000000000000000000000000000000000000000000000000000.0",
                             "0.17976931348623157e309", "17976931348623157e292"])
        if k == 13:
            f.add("num:overflow-inf"); return r.choice(["1e309", "-1e309", "1.7976931348623159e308", "1e999", "2E400", "1" + "0" * 310])
        if k == 14:
            f.add("num:shortest-repr"); return repr(special_double(r))
        if k == 15:
            f.add("num:17-digit"); return "%.17g" % special_double(r) if r.random() < 0.5 else "%.16e" % rand_finite_double(r)
        if k == 16:
            f.add("num:20-digit"); return "%.20e" % rand_finite_double(r)
        if k == 17:
            f.add("num:halfway")
            # decimal strings lying (nearly) half-way between two adjacent doubles
            x = math.ldexp(r.randrange(1 << 52, 1 << 53), r.randrange(-60, 60))
            from fractions import Fraction
            y = bits_to_float(dbits(x) + 1)
            mid = (Fraction(x) + Fraction(y)) / 2
            digits = 40
            e10 = math.floor(math.log10(mid))
            scaled = mid / Fraction(10) ** e10
            n = int(scaled * 10 ** digits) + r.choice([-1, 0, 0, 1])
            s = str(n)
            return s[0] + "." + s[1:] + "e" + str(e10)
        if k == 18:
            f.add("num:exp-on-int"); return str(r.randrange(1, 100)) + r.choice(["e0", "E2", "e+3", "e-1", "e00", "E+00"])
        f.add("num:frac-trailing-zeros")
        return str(r.randrange(-100, 100)) + "." + str(r.randrange(0, 100)) + "0" * r.randrange(1, 12)

    # --- strings
    def string_piece(self):
        r = self.rng
        k = r.randrange(16)
        f = self.feat
        if k < 5:
            f.add("str:ascii"); return r.choice(ASCII_RAW)
        if k == 5:
            f.add("esc:simple"); return r.choice(SIMPLE_ESC)
        if k == 6:
            f.add("raw:del"); return "\x7f"
        if k == 7:
            cp = rand_cp(r)
            f.add("raw:%dbyte" % len(chr(cp).encode("utf-8"))); return chr(cp)
        if k == 8:
            f.add("esc:u-control"); return "\\u" + hex4(r, r.randrange(0, 0x20))
        if k == 9:
            f.add("esc:u-ascii"); return "\\u" + hex4(r, r.choice([0x22, 0x5c, 0x2f, 0x41, 0x7a, 0x30, 0x20, 0x7f, 0x3f]))
        if k == 10:
            f.add("esc:u-latin"); return "\\u" + hex4(r, r.randrange(0x80, 0x800))
        if k == 11:
            while True:
                cp = r.choice([0x800, 0x20ac, 0x2028, 0xd7ff, 0xe000, 0xfffd, 0xffff, r.randrange(0x800, 0x10000)])
                if not 0xd800 <= cp <= 0xdfff:
                    break
            f.add("esc:u-bmp"); return "\\u" + hex4(r, cp)
        if k == 12:
            f.add("esc:u-surrogate-pair")
            return u_escape(r, r.choice([0x10000, 0x10ffff, 0x1f600, r.randrange(0x10000, 0x110000)]))
        if k == 13:
            f.add("esc:u-nul"); return "\\u0000"
        if k == 14:
            f.add("str:quote-like"); return r.choice(["'", "/", "{", "}", "[", "]", ",", ":", " ", "?"])
        f.add("str:digits"); return r.choice("0123456789-+.eE")

    def string(self, n=None):
        r = self.rng
        if n is None:
            k = r.randrange(10)
            n = 0 if k == 0 else (r.randrange(20, 300) if (k == 1 and self.long_strings) else r.randrange(1, 12))
        if n == 0:
            self.feat.add("str:empty")
        return '"' + "".join(self.string_piece() for _ in range(n)) + '"'

    # --- values
    def value(self, depth=0):
        r = self.rng
        k = r.randrange(12)
        if depth >= self.max_depth:
            k = r.randrange(7)
        if k == 0:
            self.feat.add("lit:null"); return "null"
        if k == 1:
            self.feat.add("lit:bool"); return r.choice(["true", "false"])
        if k in (2, 3, 4):
            return self.number()
        if k in (5, 6):
            return self.string()
        if k in (7, 8, 9):
            return self.array(depth)
        return self.obj(depth)

    def array(self, depth):
        r = self.rng
        n = r.randrange(0, self.max_items + 1)
        if n == 0:
            self.feat.add("empty-array")
            return "[" + self.ws() + "]"
        items = [self.ws() + self.value(depth + 1) + self.ws() for _ in range(n)]
        self.feat.add("array")
        return "[" + ",".join(items) + "]"

    def obj(self, depth):
        r = self.rng
        n = r.randrange(0, self.max_items + 1)
        if n == 0:
            self.feat.add("empty-object")
            return "{" + self.ws() + "}"
        keys = []
        parts = []
        for _ in range(n):
            if keys and r.random() < 0.2:
                k = r.choice(keys)
                if r.random() < 0.5:
                    self.feat.add("dupkey:same-spelling")
                else:
                    # same key, spelled with \u escapes for its ASCII characters
                    inner = k[1:-1]
                    if inner and "\\" not in inner and all(ord(c) < 0x7f for c in inner):
                        k = '"' + "".join("\\u" + hex4(r, ord(c)) if r.random() < 0.6 else c for c in inner) + '"'
                        self.feat.add("dupkey:escaped-alias")
                    else:
                        self.feat.add("dupkey:same-spelling")
            else:
                k = self.string(r.randrange(0, 5) if r.random() < 0.8 else None)
                keys.append(k)
            parts.append(self.ws() + k + self.ws() + ":" + self.ws() + self.value(depth + 1) + self.ws())
        self.feat.add("object")
        return "{" + ",".join(parts) + "}"

    def text(self):
        r = self.rng
        body = self.value(0) if r.random() < 0.2 else (self.array(0) if r.random() < 0.5 else self.obj(0))
        return self.ws() + body + self.ws()


def gen_text(rng):
    """-> (bytes, sorted feature list). Structure sizes stay far below the default limits."""
    g = TextGen(rng, max_depth=rng.choice([1, 2, 3, 5, 8]), max_items=rng.choice([2, 3, 4, 6]),
                ws_p=rng.choice([0.0, 0.1, 0.5]), long_strings=rng.random() < 0.1)
    t = g.text()
    return t.encode("utf-8"), sorted(g.feat)


# ------------------------------------------------------------------------------- limit cases
def _scalar(rng):
    return rng.choice(["1", "null", "true", '"x"', "-2.5", '""'])


def string_of_len(rng, n):
    """JSON string literal whose *decoded UTF-8* length is exactly n bytes, mixing raw and escaped forms"""
    out = []
    left = n
    while left > 0:
        k = rng.randrange(8)
        if k == 0 and left >= 4:
            out.append(chr(rng.randrange(0x10000, 0x110000)) if rng.random() < 0.5 else u_escape(rng, rng.randrange(0x10000, 0x110000))); left -= 4
        elif k == 1 and left >= 3:
            out.append(chr(0x20ac) if rng.random() < 0.5 else "\\u20ac"); left -= 3
        elif k == 2 and left >= 2:
            out.append(chr(0xe9) if rng.random() < 0.5 else "\\u00e9"); left -= 2
        elif k == 3:
            out.append(rng.choice(SIMPLE_ESC)); left -= 1
        elif k == 4:
            out.append("\\u" + hex4(rng, rng.randrange(0, 0x80))); left -= 1
        else:
            out.append(rng.choice(ASCII_RAW)); left -= 1
    return '"' + "".join(out) + '"'


def plain_string_of_len(n):
    return '"' + "a" * n + '"'


def nest(rng, levels, inner, lim=None):
    """wrap `inner` in `levels` containers (arrays and objects mixed, as far as `lim` lets them hold a child)"""
    a, m, d, s = lim if lim else DEFAULT_LIMITS
    kinds = ([0] if a >= 1 else []) + ([1] if m >= 1 and s >= 1 else [])
    if not kinds:
        kinds = [0]
    pre, post = [], []
    for _ in range(levels):
        if rng.choice(kinds) == 0:
            pre.append("["); post.append("]")
        else:
            pre.append('{"k":'); post.append("}")
    return "".join(pre) + inner + "".join(reversed(post))


def gen_limit_case(rng, lim, which, delta, plain=False):
    """A valid text that sits exactly at (delta=0), just inside (delta<0) or just beyond (delta>0) one limit
    while staying inside the others. -> (bytes, tag). May return None when impossible (e.g. below zero)."""
    a, m, d, s = lim
    if which == "depth":
        target = d + delta                # value depth of the deepest value
        if target < 0:
            return None
        if rng.random() < 0.5 or target == 0:
            t = nest(rng, target, _scalar(rng) if s >= 1 else "1", lim)     # scalar at depth `target`
        else:
            t = nest(rng, target, rng.choice(["[]", "{}"]), lim)            # empty container at depth `target`
        return t.encode(), "depth%+d" % delta
    if which == "array":
        n = a + delta
        if n < 0 or (n > 0 and d < 1):
            return None
        body = "[" + ",".join(rng.choice(["1", "0", "null", "true"]) for _ in range(n)) + "]"
        wrap = 0
        if a >= 1 and d >= 2 and rng.random() < 0.4:
            wrap = 1
        return nest(rng, wrap, body, lim).encode(), "array%+d" % delta
    if which == "members":
        n = m + delta
        if n < 0 or (n > 0 and d < 1):
            return None
        keys = []
        i = 0
        while len(keys) < n:
            k = "%x" % i
            i += 1
            if len(k) <= s:
                keys.append(k)
            elif s == 0:
                break
        if len(keys) < n:
            return None
        rng.shuffle(keys)
        body = "{" + ",".join('"%s":%s' % (k, rng.choice(["1", "null", "false"])) for k in keys) + "}"
        return body.encode(), "members%+d" % delta
    if which == "members-dup":
        # textual members = m + delta, distinct = m (duplicates in the middle): decided by the textual count
        if m < 1 or d < 1 or delta < 1:
            return None
        keys = []
        i = 0
        while len(keys) < m:
            k = "%x" % i
            i += 1
            if len(k) <= s:
                keys.append(k)
            elif s == 0:
                return None
        seq = keys[:]
        for _ in range(delta):
            seq.insert(rng.randrange(1, len(seq) + 1), rng.choice(keys))
        body = "{" + ",".join('"%s":%d' % (k, j) for j, k in enumerate(seq)) + "}"
        return body.encode(), "members-dup%+d" % delta
    if which == "string":
        n = s + delta
        if n < 0:
            return None
        lit = plain_string_of_len(n) if plain else string_of_len(rng, n)
        k = rng.randrange(3)
        if k == 0 or d < 1 or a < 1 or m < 1:
            t = lit
        elif k == 1:
            t = "[" + lit + "]"
        else:
            t = "{" + lit + ":1}"            # as an object key
        return t.encode("utf-8"), "string%+d" % delta
    return None


# ------------------------------------------------------------------------------- values
def rand_utf8(rng, n):
    out = []
    for _ in range(n):
        k = rng.randrange(10)
        if k < 4:
            out.append(chr(rng.randrange(0x20, 0x7f)))
        elif k == 4:
            out.append(chr(rng.randrange(0, 0x20)))                 # control characters
        elif k == 5:
            out.append(rng.choice(['"', "\\", "/", "\x7f", "\b", "\f", "\n", "\r", "\t", "\x00", "\x1f", "?"]))
        else:
            out.append(chr(rand_cp(rng)))
    return "".join(out).encode("utf-8")


def gen_value(rng, depth=0, max_depth=5, max_items=5, feat=None):
    """typed value: None | True | False | ('i', n) | ('d', bits) | ('s', bytes) | ('a', [..]) | ('o', {k: v})"""
    k = rng.randrange(13)
    if depth >= max_depth:
        k = rng.randrange(9)
    f = feat if feat is not None else set()
    if k == 0:
        f.add("null"); return None
    if k == 1:
        f.add("bool"); return rng.random() < 0.5
    if k == 2:
        f.add("int:small"); return ("i", rng.randrange(-1000, 1000))
    if k == 3:
        f.add("int:boundary")
        return ("i", rng.choice([(1 << 63) - 1, -(1 << 63), 0, -1, (1 << 53) + 1, -(1 << 53) - 1, (1 << 31), -(1 << 31) - 1,
                                 rng.randrange(-(1 << 63), 1 << 63)]))
    if k in (4, 5, 6):
        x = special_double(rng)
        b = dbits(x)
        e = (b >> 52) & 0x7ff
        f.add("double:" + ("zero" if b << 1 == 0 else "subnormal" if e == 0 else "integral" if x == int(x) and abs(x) < 1e15
                           else "tiny" if abs(x) < 1e-6 else "huge" if abs(x) >= 1e15 else "general"))
        return ("d", b)
    if k in (7, 8):
        n = rng.choice([0, 1, 2, 3, 5, 8, 20]) if rng.random() < 0.9 else rng.randrange(50, 400)
        s = rand_utf8(rng, n)
        f.add("string:" + ("empty" if not s else "control" if any(c < 0x20 for c in s) else "nonascii" if any(c >= 0x80 for c in s) else "ascii"))
        return ("s", s)
    if k in (9, 10):
        n = rng.randrange(0, max_items + 1)
        f.add("array" if n else "array:empty")
        return ("a", [gen_value(rng, depth + 1, max_depth, max_items, f) for _ in range(n)])
    n = rng.randrange(0, max_items + 1)
    f.add("object" if n else "object:empty")
    d = {}
    for _ in range(n):
        key = rand_utf8(rng, rng.choice([0, 1, 1, 2, 3, 6]))
        if any(c < 0x20 for c in key):
            f.add("key:control")
        d[key] = gen_value(rng, depth + 1, max_depth, max_items, f)
    return ("o", d)


def gen_top_value(rng):
    f = set()
    md = rng.choice([0, 1, 2, 3, 5, 7])
    mi = rng.choice([2, 3, 5, 8])
    if rng.random() < 0.85 and md > 0:
        # containers at the top most of the time (a lone scalar exercises little)
        n = rng.randrange(1, mi + 1)
        if rng.random() < 0.5:
            v = ("a", [gen_value(rng, 1, md, mi, f) for _ in range(n)]); f.add("array")
        else:
            v = ("o", {rand_utf8(rng, rng.choice([1, 2, 3, 6])): gen_value(rng, 1, md, mi, f) for _ in range(n)}); f.add("object")
    else:
        v = gen_value(rng, 0, md, mi, f)
    return v, sorted(f)


def value_tokens(v, out=None):
    top = out is None
    if top:
        out = []
    if v is None:
        out.append("n")
    elif v is True:
        out.append("t")
    elif v is False:
        out.append("f")
    elif v[0] == "i":
        out.append("i%d" % v[1])
    elif v[0] == "d":
        out.append("d%016x" % v[1])
    elif v[0] == "s":
        out.append("s" + v[1].hex())
    elif v[0] == "a":
        out.append("a%d" % len(v[1]))
        for x in v[1]:
            value_tokens(x, out)
    else:
        out.append("o%d" % len(v[1]))
        for k, x in v[1].items():
            out.append("s" + k.hex())
            value_tokens(x, out)
    return " ".join(out) if top else None


def parse_value_tokens(toks, pos=0):
    """inverse of value_tokens (used by --replay): -> (typed value, next position)"""
    t = toks[pos]
    k = t[0]
    if k == "n":
        return None, pos + 1
    if k == "t":
        return True, pos + 1
    if k == "f":
        return False, pos + 1
    if k == "i":
        return ("i", int(t[1:])), pos + 1
    if k == "d":
        return ("d", int(t[1:], 16)), pos + 1
    if k == "s":
        return ("s", bytes.fromhex(t[1:])), pos + 1
    n = int(t[1:])
    pos += 1
    if k == "a":
        out = []
        for _ in range(n):
            v, pos = parse_value_tokens(toks, pos)
            out.append(v)
        return ("a", out), pos
    d = {}
    for _ in range(n):
        key = bytes.fromhex(toks[pos][1:])
        v, pos = parse_value_tokens(toks, pos + 1)
        d[key] = v
    return ("o", d), pos


# ------------------------------------------------------------------------------- mutants
INTERESTING_BYTES = b'"\\{}[],:0123456789eE.-+utfn \t\n\r\x00\x01\x1f\x7f\x80\xbf\xc0\xc2\xe0\xed\xef\xf0\xf4\xf8\xff/'
DICT = [b'\\u', b'\\u0', b'\\u00', b'\\u000', b'\\u0000', b'\\ud800', b'\\udc00', b'\\ud83d\\ude00', b'"', b'\\', b'\\"',
        b'null', b'true', b'false', b'nul', b'tru', b'-', b'-0', b'1e', b'1e+', b'1.', b'.5', b'01', b'0x10', b'1e999',
        b'[', b']', b'{', b'}', b'{"a":', b',', b':', b'[[', b']]', b'[,', b',]', b'{,', b'":"', b'\xef\xbb\xbf', b'\x0b', b'\x0c',
        b'NaN', b'Infinity', b'-Infinity', b"'a'", b'/*c*/', b'//c\n', b'99999999999999999999', b'-9223372036854775809']


def mutate(rng, seeds):
    """-> (bytes, mutator name)"""
    s = bytearray(rng.choice(seeds))
    k = rng.randrange(16)
    if not s and k not in (5, 10, 11, 12):
        k = 5
    if k == 0:
        for _ in range(rng.choice([1, 1, 2, 3])):
            i = rng.randrange(len(s)); s[i] ^= 1 << rng.randrange(8)
        return bytes(s), "bitflip"
    if k == 1:
        for _ in range(rng.choice([1, 1, 2])):
            s[rng.randrange(len(s))] = rng.choice(INTERESTING_BYTES)
        return bytes(s), "byte-replace"
    if k == 2:
        return bytes(s[:rng.randrange(len(s))]), "truncate"
    if k == 3:
        # cut right inside / right after a backslash escape (cursor-past-the-end class)
        pos = [i for i, c in enumerate(s) if c == 0x5c]
        if pos:
            p = rng.choice(pos)
            return bytes(s[:min(len(s), p + rng.randrange(1, 7))]), "truncate-in-escape"
        return bytes(s[:rng.randrange(len(s))]), "truncate"
    if k == 4:
        i = rng.randrange(len(s)); j = min(len(s), i + rng.randrange(1, 6))
        del s[i:j]
        return bytes(s), "delete-range"
    if k == 5:
        i = rng.randrange(len(s) + 1)
        s[i:i] = rng.choice(DICT)
        return bytes(s), "insert-token"
    if k == 6:
        i = rng.randrange(len(s) + 1)
        s[i:i] = bytes(rng.randrange(256) for _ in range(rng.randrange(1, 5)))
        return bytes(s), "insert-random"
    if k == 7:
        i = rng.randrange(len(s)); j = min(len(s), i + rng.randrange(1, 20))
        s[i:i] = s[i:j]
        return bytes(s), "duplicate-range"
    if k == 8:
        o = rng.choice(seeds)
        i = rng.randrange(len(s) + 1); j = rng.randrange(len(o) + 1)
        return bytes(s[:i]) + o[j:], "splice"
    if k == 9:
        return bytes(s) + rng.choice(DICT + [b" ", b"\n", b"x", b"\x00"]), "append"
    if k == 10:
        n = rng.choice([3, 4, 5, 99, 100, 101, 102, 150, 1000, 5000])
        opener = rng.choice([b"[", b'{"a":', b'[{"a":', b"[[1],"])
        closer = {b"[": b"]", b'{"a":': b"}", b'[{"a":': b"}]", b"[[1],": b"]"}[opener]
        inner = rng.choice([b"", b"1", b'"x"', b"[]", b"{}"])
        full = rng.random() < 0.5
        return opener * n + (inner + closer * n if full else b""), "nesting-bomb"
    if k == 11:
        n = rng.choice([1, 2, 7, 64, 1000])
        return rng.choice([b'"' + b"\\" * n, b'"' + b"\\u" * n, b"-" * n, b"[" + b"1," * n, b'"' + b"\xf0\x9f" * n, b"0" * n,
                           b"1e" + b"9" * n, b'"\\u' + b"0" * (n % 5), b"[" + b" " * n, b"tru" * n]), "pathological"
    if k == 12:
        return bytes(rng.randrange(256) for _ in range(rng.randrange(0, 24))), "random-bytes"
    if k == 13:
        # swap two structural characters
        idx = [i for i, c in enumerate(s) if c in b'{}[],:"']
        if len(idx) >= 2:
            i, j = rng.sample(idx, 2)
            s[i], s[j] = s[j], s[i]
        return bytes(s), "swap-structural"
    if k == 14:
        # damage a \u escape: non-hex digit, lone surrogate, swapped pair
        i = s.find(b"\\u")
        if i >= 0 and i + 6 <= len(s):
            m = rng.randrange(3)
            if m == 0:
                s[i + 2 + rng.randrange(4)] = rng.choice(b'gG"\\ -z')
            elif m == 1:
                s[i + 2:i + 6] = rng.choice([b"d800", b"dc00", b"DFFF", b"dbff"])
            else:
                del s[i + 5:i + 6]
            return bytes(s), "damage-u-escape"
        return bytes(s) + b'"\\u12', "damage-u-escape"
    return bytes(s), "identity"


def big_inputs(rng, sizes):
    """pathological families at several sizes for the linear-cost guard -> [(family, n, bytes)]"""
    fam = []
    for n in sizes:
        fam += [
            ("open-brackets", n, b"[" * n),
            ("open-objects", n, b'{"a":' * (n // 5)),
            ("backslashes", n, b'"' + b"\\\\" * (n // 2) + b'"'),
            ("u-escapes", n, b'"' + b"\\u0041" * (n // 6) + b'"'),
            ("digits", n, b"1" * n),
            ("frac-digits", n, b"0." + b"7" * n),
            ("exp-digits", n, b"1e" + b"0" * (n - 3) + b"1"),
            ("array-of-ones", n, b"[" + b"1," * (n // 2 - 1) + b"1]"),
            ("array-of-empties", n, b"[" + b"[]," * (n // 3 - 1) + b"[]]"),
            ("whitespace", n, b" " * n + b"1"),
            ("long-string", n, b'"' + b"a" * n + b'"'),
            ("multibyte-string", n, b'"' + "€".encode() * (n // 3) + b'"'),
            ("dup-keys", n, b"{" + b'"k":1,' * (n // 6 - 1) + b'"k":2}'),
            ("minus-signs", n, b"-" * n),
            ("unterminated-string", n, b'"' + b"x" * n),
            ("newlines-then-error", n, b"\n" * n + b"?"),
            ("many-strings", n, b"[" + b'"ab",' * (n // 5 - 1) + b'"ab"]'),
        ]
    return fam
