#!/bin/bash
# usage: lib/runall.sh <seed> <tier> C02 C03 ...   — runs checks one after another, prints one summary line each
seed=$1; tier=$2; shift 2
cd /verif
for c in "$@"; do
  t0=$(date +%s)
  VERIF_SEED=$seed timeout 3000 ./check $c --tier $tier > /tmp/runall-$c-$seed.log 2>&1
  rc=$?
  echo "$c seed=$seed rc=$rc $(($(date +%s)-t0))s :: $(grep -E '^\[C[0-9]+\]' /tmp/runall-$c-$seed.log | tail -1)"
  grep -E "^(VIOLATION|INCONCLUSIVE|HARNESS-FAILURE)" /tmp/runall-$c-$seed.log | head -5
done
