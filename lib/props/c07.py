# C07 — TLS sessions authenticate the peer as configured, never downgrade below TLS 1.2, never
# carry application bytes in clear.
#
# The configuration matrix is enumerated here; the expected outcome of every cell
# (must-reject / must-accept / either) is computed by `expect()` from the cell's *coordinates*
# alone (a table of what each certificate is and which anchors each trust setting configures —
# no OpenSSL involved); harness/c07_tls.cpp executes every cell for real (iora on one side, an
# independent libssl / plaintext / garbage peer on the other, an intercepting relay in between)
# and reports observations; `judge()` compares.
#
# "Admitted" is defined by data, not by announcement (iora's TCP engine fires onAccept for a TLS
# listener before the handshake):
#   client side: onConnect fired / connectSync ok / an HTTP response was obtained / the peer
#                obtained application bytes from iora / iora's data callback delivered bytes
#   server side: the server's data callback (or an HTTP handler) got bytes from that client /
#                the client decrypted application bytes sent by the server
import json, os, random
import vf

LEVEL = "fault_enumeration"
BUILDS = [("c07_tls", "plain"), ("c07_tls", "asan"), ("c07_tls", "tsan")]   # tsan: thorough tier only

CLIENT_ENTRIES = ("transport-client", "http-client")
SERVER_ENTRIES = ("transport-server", "http-server")
SEQ_ENTRY = "http-client-seq"     # two requests on ONE HttpClient object

# ------------------------------------------------------------------ what the coordinates mean
# server certificates a peer (or iora's own server) can present
SRV_CERTS = {
    "valid":      dict(file="srv-valid",      issuer="A",        when="now",    dns={"localhost"},    ip={"127.0.0.1"}),
    "dnsonly":    dict(file="srv-dnsonly",    issuer="A",        when="now",    dns={"localhost"},    ip=set()),
    "wrongname":  dict(file="srv-wrongname",  issuer="A",        when="now",    dns={"evil.example"}, ip=set()),
    "expired":    dict(file="srv-expired",    issuer="A",        when="past",   dns={"localhost"},    ip={"127.0.0.1"}),
    "notyet":     dict(file="srv-notyet",     issuer="A",        when="future", dns={"localhost"},    ip={"127.0.0.1"}),
    "selfsigned": dict(file="srv-selfsigned", issuer="self",     when="now",    dns={"localhost"},    ip={"127.0.0.1"}),
    "wrongca":    dict(file="srv-wrongca",    issuer="B",        when="now",    dns={"localhost"},    ip={"127.0.0.1"}),
    "forged":     dict(file="srv-forged",     issuer="forged-A", when="now",    dns={"localhost"},    ip={"127.0.0.1"}),
    # name-matching family: issued by A, valid now; what matters is what the certificate is issued FOR
    "wild":       dict(file="srv-wild",       issuer="A", when="now", dns={"*.example.test"},     ip=set(), cn="vf-c07 wild"),
    "exact":      dict(file="srv-exact",      issuer="A", when="now", dns={"api.example.test"},   ip=set(), cn="vf-c07 exact"),
    "partial":    dict(file="srv-partial",    issuer="A", when="now", dns={"a*.example.test"},    ip=set(), cn="vf-c07 partial"),
    "midwild":    dict(file="srv-midwild",    issuer="A", when="now", dns={"www.*.example.test"}, ip=set(), cn="vf-c07 midwild"),
    "iponly":     dict(file="srv-iponly",     issuer="A", when="now", dns=set(),                  ip={"127.0.0.1"}, cn="vf-c07 iponly"),
    "cnonly":     dict(file="srv-cnonly",     issuer="A", when="now", dns=set(),                  ip=set(), cn="api.example.test"),
    "third":      dict(file="srv-third",      issuer="C", when="now", dns={"localhost"}, ip={"127.0.0.1"}),   # issued by a root nobody configures
}
BASE_CERTS = ("valid", "dnsonly", "wrongname", "expired", "notyet", "selfsigned", "wrongca", "forged")   # chain/validity family
CLI_CERTS = {
    "none":       None,
    "trusted":    dict(file="cli-trusted",    issuer="A",        when="now"),
    "untrusted":  dict(file="cli-untrusted",  issuer="B",        when="now"),
    "selfsigned": dict(file="cli-selfsigned", issuer="self",     when="now"),
    "expired":    dict(file="cli-expired",    issuer="A",        when="past"),
    "notyet":     dict(file="cli-notyet",     issuer="A",        when="future"),
    "forged":     dict(file="cli-forged",     issuer="forged-A", when="now"),
    "third":      dict(file="cli-third",      issuer="C",        when="now"),
}
# trust setting -> (caFile, caPath, default store) given to iora, and the anchors that *configures*
TRUST = {
    "ca-right":               dict(cafile="ca-right", capath="-", defstore="-", anchors={"A"}),
    "ca-wrong":               dict(cafile="ca-wrong", capath="-", defstore="-", anchors={"B"}),
    "capath-right":           dict(cafile="-", capath="capath-right", defstore="-", anchors={"A"}),
    "none":                   dict(cafile="-", capath="-", defstore="-", anchors=set()),
    "default-right":          dict(cafile="-", capath="-", defstore="ca-right", anchors={"A"}),
    # an explicit CA file is configured; the process-wide default store (which the explicit
    # file replaces) happens to trust the other CA
    "ca-wrong+default-right": dict(cafile="ca-wrong", capath="-", defstore="ca-right", anchors={"B"}),
}
TARGET_HOST = {"ip": "127.0.0.1", "name": "localhost", "othername": "evil.example",
               # name-matching family (all resolve to 127.0.0.1 through the resolver shim)
               "ex-api": "api.example.test", "ex-api-case": "API.Example.Test", "ex-api-dot": "api.example.test.",
               "ex-2under": "a.b.example.test", "ex-2under-dot": "a.b.example.test.", "ex-3under": "x.y.z.example.test",
               "ex-parent": "example.test", "ex-other": "api.other.test", "ex-abc": "abc.example.test",
               "ex-www-foo": "www.foo.example.test", "ex-sub-api": "sub.api.example.test"}
ISSUER_TAG = {"self": "self-signed", "forged-A": "forged-issuer"}
# shape of iora's OWN certificate file (certFile / clientCertFile): which certificates the PEM file holds, in order.
# The file says who iora IS; it must never add to whom iora TRUSTS (only caFile/caPath configure anchors).
#   leaf            the leaf only
#   fullchain       leaf + the root that issued it (A)
#   leaf+unrelated  leaf + an unrelated root (C)
#   ca-first        the issuing root first, then the leaf (the first certificate does not match the key)
SHAPE_FILE = {"leaf": "%s", "fullchain": "%s+ca-right", "leaf+unrelated": "%s+ca-third", "ca-first": "ca-right+%s"}
SHAPE_EXTRA_CA = {"leaf": None, "fullchain": "A", "leaf+unrelated": "C", "ca-first": "A"}

DEFAULTS = dict(peer="openssl", garbage=0, verify="off", trust="none", icert=None, imin=0, tlscfg="enabled",
                pcert=None, pauth="none", pverify="off", pmax=13, target="ip", api="async", send="late", lvl0=0,
                life="fresh", seq="single", speer="-", verify1="-", trust1="-", ishape="leaf")


def mk(entry, **kw):
    c = dict(DEFAULTS)
    c["entry"] = entry
    if entry in CLIENT_ENTRIES or entry in ("raw-raw", SEQ_ENTRY):
        c["icert"], c["pcert"] = "none", "valid"
    else:
        c["icert"], c["pcert"] = "valid", "none"
    if entry.startswith("http"):
        c["api"], c["send"] = "get", "late"
    c.update(kw)
    if c["pmax"] < 12:
        c["lvl0"] = 1          # otherwise the library's security level masks a removed floor
    return c


# ------------------------------------------------------------------------ the expected outcome
def _label_glob(pat, label):
    """'*' inside ONE label matches any run of characters of that one label (the loose reading)"""
    import fnmatch
    return "." not in label and label != "" and fnmatch.fnmatchcase(label, pat)


def name_verdict(cert, host):
    """Is the certificate issued for `host`? From the certificate's names alone (RFC 6125 as configured in iora:
    dNSName SANs decide when present; a wildcard counts only as the COMPLETE LEFT-MOST label and stands for exactly
    one label; no partial wildcards; comparison is case-insensitive; the CN is a deprecated fallback only when there
    is no dNSName SAN). -> ("accept"|"reject"|"either", tag)"""
    h = host.lower()
    dotted = h.endswith(".")
    if dotted:
        h = h[:-1]
    v, tag = _name_match(cert, h)
    if dotted and v == "accept":
        return "either", "trailing-dot-reference-name"      # absolute-name form: not settled by RFC 6125, OpenSSL compares literally
    return v, tag


def _name_match(cert, h):
    if cert["dns"]:
        tags = set()
        for pat in sorted(cert["dns"]):
            p = pat.lower()
            if "*" not in p:
                if p == h:
                    return "accept", None
                continue
            pl, hl = p.split("."), h.split(".")
            if any("*" in l for l in pl[1:]):
                if len(pl) == len(hl) and all(_label_glob(a, b) for a, b in zip(pl, hl)):
                    tags.add("wildcard-not-leftmost")
                continue
            parent = ".".join(pl[1:])
            if pl[0] != "*":
                if h.endswith("." + parent) and _label_glob(pl[0], h[:-len(parent) - 1]):
                    tags.add("partial-wildcard")
                continue
            if h == parent:
                tags.add("wildcard-bare-parent")
            elif h.endswith("." + parent):
                left = h[:-len(parent) - 1]
                if "." not in left and left:
                    return "accept", None
                tags.add("wildcard-multi-label")
        return "reject", (sorted(tags)[0] if tags else "wrong-name")
    if cert.get("cn", "").lower() == h:
        return "either", "cn-fallback-without-san"
    return "reject", "wrong-name"


def chain_reasons(prefix, cert, anchors, trust):
    r = []
    if cert["issuer"] not in anchors:
        if not anchors:
            tag = "no-anchor"
        else:
            tag = ISSUER_TAG.get(cert["issuer"], "wrong-ca")
            if trust == "ca-wrong+default-right" and cert["issuer"] == "A":
                tag = "wrong-ca:default-store-would-trust"
        r.append(prefix + tag)
    if cert["when"] == "past":
        r.append(prefix + "expired")
    elif cert["when"] == "future":
        r.append(prefix + "not-yet-valid")
    return r


def expect(c):
    """-> (verdict, reasons, eithers). verdict in reject/accept/either; computed from coordinates only."""
    reasons, eithers = [], []
    client = c["entry"] in CLIENT_ENTRIES or c["entry"] == "raw-raw"
    if c["peer"] != "openssl":
        reasons.append(c["peer"] + "-peer")
    else:
        if c["pmax"] < 12:
            reasons.append("floor")
        if client:
            cert = SRV_CERTS[c["pcert"]]
            if c["verify"] == "on":
                reasons += chain_reasons("verify-on:", cert, TRUST[c["trust"]]["anchors"], c["trust"])
                host = TARGET_HOST[c["target"]]
                if c["target"] == "ip":
                    if host not in cert["ip"]:
                        eithers.append("ip-literal-target-without-ip-san")
                else:
                    nv, ntag = name_verdict(cert, host)
                    if nv == "reject":
                        reasons.append("hostname:" + ntag)
                    elif nv == "either":
                        eithers.append("hostname:" + ntag)
            if c["pauth"] == "require" and c["icert"] != "trusted":
                eithers.append("peer-requires-client-cert-we-lack")
            if c["pauth"] == "request" and c["icert"] == "untrusted":
                eithers.append("peer-checks-the-untrusted-client-cert-we-present")
            if c["icert"] == "mismatch":
                eithers.append("own-cert-key-mismatch")
        else:
            if c["verify"] == "on":
                anchors = TRUST[c["trust"]]["anchors"]
                if not anchors:
                    reasons.append("require-client-cert:no-ca-configured")
                elif c["pcert"] == "none":
                    reasons.append("require-client-cert:no-cert")
                else:
                    reasons += chain_reasons("require-client-cert:", CLI_CERTS[c["pcert"]], anchors, c["trust"])
            if c["icert"] != "valid":
                eithers.append("own-server-cert-" + c["icert"])
        if c["imin"] == 13 and c["pmax"] == 12:
            eithers.append("configured-min-above-peer-max")
    if c["ishape"] == "ca-first":
        eithers.append("own-cert-file-starts-with-the-ca")     # first certificate does not match the key: iora should refuse to start
    if c["life"] == "retry-missing":
        # iora's own certificate/key files are missing at the first start() AND at the retry: the
        # transport should keep refusing to start; whatever it does, every must-reject reason above
        # still holds (a retried start() may not end up with a less strict context)
        eithers.append("own-cert-files-still-missing")
    if c["tlscfg"] != "enabled":
        # TLS is requested for the session (connect(..., TlsMode::Client) / addListener(..., TlsMode::Server))
        # but the configuration yields no TLS context for that role: enabled=false, or enabled=true with
        # defaultMode None / the opposite role. Nobody can be authenticated and nothing can be encrypted on
        # such a session, so it must fail closed: never announced, no application byte either way.
        return "reject", ["tls-requested-not-configured"], []
    if reasons:
        return "reject", sorted(reasons), eithers
    if eithers:
        return "either", [], eithers
    return "accept", [], []


# sequence -> (scheme of request 1, scheme of request 2, setTlsConfig between the requests?, keep-alive?)
SEQS = {
    "http-then-https": ("http", "https", False, True),
    "https-then-http": ("https", "http", False, True),
    "settls-tighten":  ("https", "https", True, False),
    "settls-loosen":   ("https", "https", True, False),
}


def expect_seq(c):
    """-> [(scheme, verdict, reasons, eithers)] for request 1 and request 2 of a sequence cell. Each https
    request is judged by the ordinary matrix predicate for the TLS configuration IN FORCE when it is made;
    an http request was not requested with TLS: nothing to say about it."""
    s1, s2, settls, _ = SEQS[c["seq"]]
    out = []
    for i, scheme in enumerate((s1, s2)):
        if scheme != "https":
            out.append((scheme, "either", [], ["not-requested-with-tls"]))
            continue
        if c["speer"] == "plain":
            out.append((scheme, "reject", ["plaintext-peer"], []))
            continue
        first = settls and i == 0
        cc = mk("http-client", verify=c["verify1"] if first else c["verify"], trust=c["trust1"] if first else c["trust"],
                pcert=c["pcert"], target=c["target"])
        out.append((scheme,) + expect(cc))
    return out


def accept_class(c):
    s = "verify-" + c["verify"]
    if c["verify"] == "on":
        s += ":trust-" + c["trust"]
    if c["entry"] in CLIENT_ENTRIES and c["pauth"] != "none" and c["icert"] == "trusted":
        s += ":client-cert-" + c["pauth"]
    if c["entry"] in SERVER_ENTRIES and c["verify"] == "on":
        s += ":client-cert-" + c["pcert"]
    if c["pmax"] != 13 or c["imin"] != 0:
        s += ":min%s-max%s" % (c["imin"], c["pmax"])
    return s


# --------------------------------------------------------------------------------- the matrix
def matrix():
    """The pruned matrix (fixed, independent of the seed). Every cell is a dict of coordinates."""
    cells = []
    add = cells.append
    apis = [("async", "early"), ("async", "late"), ("sync", "late")]
    k = 0

    # ---- transport client
    E = "transport-client"
    for trust in ("ca-right", "ca-wrong", "capath-right", "none", "default-right"):
        for pcert in BASE_CERTS:
            for target in ("ip", "name"):
                api, send = apis[k % 3]; k += 1
                add(mk(E, verify="on", trust=trust, pcert=pcert, target=target, api=api, send=send))
    for pcert in BASE_CERTS:                                   # connecting by another name
        api, send = apis[k % 3]; k += 1
        add(mk(E, verify="on", trust="ca-right", pcert=pcert, target="othername", api=api, send=send))
    for trust in ("ca-right", "none"):                        # verification switched off
        for pcert in BASE_CERTS:
            for target in ("ip", "name"):
                api, send = apis[k % 3]; k += 1
                add(mk(E, verify="off", trust=trust, pcert=pcert, target=target, api=api, send=send))
    for icert in ("none", "trusted", "untrusted", "mismatch"):   # iora's own client certificate
        for pauth in ("none", "request", "require"):
            for verify in ("on", "off"):
                api, send = apis[k % 3]; k += 1
                add(mk(E, verify=verify, trust="ca-right", icert=icert, pauth=pauth, api=api, send=send))
    for imin in (0, 10, 11, 12, 13):                          # version limits
        for pmax in (10, 11, 12, 13):
            for verify in ("on", "off"):
                api, send = apis[k % 3]; k += 1
                add(mk(E, verify=verify, trust="ca-right", imin=imin, pmax=pmax, lvl0=1, api=api, send=send))
    for api, send in apis:                                    # hostile peers, every call path
        for verify in ("on", "off"):
            add(mk(E, peer="plaintext", verify=verify, trust="ca-right", api=api, send=send))
            for g in range(4):
                add(mk(E, peer="garbage", garbage=g, verify=verify, trust="ca-right", api=api, send=send))
    for api, send in apis:                                    # the three call paths on plain accept / reject cells
        for pcert, target in (("valid", "name"), ("wrongca", "name"), ("wrongname", "name"), ("expired", "ip")):
            add(mk(E, verify="on", trust="ca-right", pcert=pcert, target=target, api=api, send=send))
    for tlscfg in ("disabled", "mode-none", "mode-other"):    # TLS requested, configuration yields no client context
        for api, send in apis:
            for peer in ("openssl", "plaintext"):
                add(mk(E, tlscfg=tlscfg, peer=peer, verify="on", trust="ca-right", api=api, send=send))

    # name matching: what the certificate is issued for x the name the connection is made to, through
    # connect(name) and through connectSync(address, ..., tlsServerName) (the HttpClient path)
    E = "transport-client"
    for pcert, target in NAME_CELLS:
        for api, send in (apis[k % 3], ("sync-tlsname", "late")):
            add(mk(E, verify="on", trust="ca-right", pcert=pcert, target=target, api=api, send=send))
        k += 1
    for pcert, target in (("wild", "ex-2under"), ("partial", "ex-abc")):
        add(mk(E, verify="off", trust="none", pcert=pcert, target=target, api="sync-tlsname"))
    for pcert, target in (("wild", "ex-api"), ("wild", "ex-2under"), ("exact", "ex-sub-api")):   # HttpClient (slow: its DnsClient times out first)
        add(mk("http-client", verify="on", trust="ca-right", pcert=pcert, target=target))

    # lifecycle: start() failed once at the client cert/key load and was retried (files provisioned late /
    # still missing), and stop()+start(); crossed with the must-reject server-certificate classes and the floor
    E = "transport-client"
    for life in ("retry-provisioned", "retry-missing", "restart"):
        for pcert, target in (("valid", "name"), ("wrongca", "ip"), ("selfsigned", "ip"), ("expired", "name"), ("wrongname", "name")):
            api, send = apis[k % 3]; k += 1
            add(mk(E, life=life, verify="on", trust="ca-right", icert="trusted", pauth="request", pcert=pcert, target=target,
                   api=api, send=send))
        for pmax in (10, 11):
            api, send = apis[k % 3]; k += 1
            add(mk(E, life=life, verify="on", trust="ca-right", icert="trusted", pmax=pmax, api=api, send=send))
        add(mk(E, life=life, peer="plaintext", verify="on", trust="ca-right", icert="trusted"))

    # ---- HTTP client
    E = "http-client"
    for trust in ("ca-right", "ca-wrong", "none", "default-right", "ca-wrong+default-right"):
        for pcert in BASE_CERTS:
            for target in ("ip", "name"):
                add(mk(E, verify="on", trust=trust, pcert=pcert, target=target))
    for pcert in BASE_CERTS:
        for target in ("ip", "name"):
            add(mk(E, verify="off", trust="none", pcert=pcert, target=target))
    for icert in ("none", "trusted", "untrusted"):
        for pauth in ("none", "request", "require"):
            add(mk(E, verify="on", trust="default-right", icert=icert, pauth=pauth, target="name"))
    for pmax in (10, 11, 12, 13):
        for verify in ("on", "off"):
            add(mk(E, verify=verify, trust="default-right", pmax=pmax, lvl0=1, target="name"))
    for verify in ("on", "off"):
        add(mk(E, peer="plaintext", verify=verify, trust="default-right", target="name"))
        for g in range(4):
            add(mk(E, peer="garbage", garbage=g, verify=verify, trust="default-right", target="name"))

    # ---- HTTP client, two requests on one client object: scheme switches on the same host:port and
    #      setTlsConfig() between the requests
    E = SEQ_ENTRY
    for verify, trust in (("off", "none"), ("on", "ca-right")):
        for target in ("ip", "name"):
            add(mk(E, seq="http-then-https", speer="plain", verify=verify, trust=trust, target=target))
            add(mk(E, seq="https-then-http", speer="dual", verify=verify, trust=trust, target=target))
    for verify, trust, pcert in (("off", "none", "valid"), ("on", "ca-right", "valid"), ("on", "ca-right", "wrongca"),
                                 ("on", "ca-right", "wrongname"), ("on", "ca-right", "expired")):
        add(mk(E, seq="http-then-https", speer="dual", verify=verify, trust=trust, pcert=pcert, target="name"))
    for pcert in ("valid", "wrongca", "selfsigned", "expired", "wrongname"):
        add(mk(E, seq="settls-tighten", speer="dual", verify1="off", trust1="none", verify="on", trust="ca-right", pcert=pcert, target="name"))
    add(mk(E, seq="settls-tighten", speer="dual", verify1="on", trust1="ca-wrong", verify="on", trust="ca-right", pcert="wrongca", target="name"))
    for pcert in ("wrongca", "selfsigned"):
        add(mk(E, seq="settls-loosen", speer="dual", verify1="on", trust1="ca-right", verify="off", trust="none", pcert=pcert, target="name"))
    add(mk(E, seq="settls-loosen", speer="dual", verify1="on", trust1="ca-right", verify="on", trust="ca-wrong", pcert="wrongca", target="name"))

    # ---- transport server
    E = "transport-server"
    sends = ("early", "late")
    for trust in ("ca-right", "ca-wrong", "capath-right", "none"):
        for pcert in CLI_CERTS:
            send = sends[k % 2]; k += 1
            add(mk(E, verify="on", trust=trust, pcert=pcert, send=send))
    for trust in ("ca-right", "none"):
        for pcert in CLI_CERTS:
            send = sends[k % 2]; k += 1
            add(mk(E, verify="off", trust=trust, pcert=pcert, send=send))
    for icert in ("valid", "expired", "notyet", "mismatch", "selfsigned"):   # iora's own server certificate
        for pverify in ("on", "off"):
            send = sends[k % 2]; k += 1
            add(mk(E, verify="off", icert=icert, pverify=pverify, send=send))
    for imin in (0, 10, 11, 12, 13):
        for pmax in (10, 11, 12, 13):
            send = sends[k % 2]; k += 1
            add(mk(E, verify="off", imin=imin, pmax=pmax, lvl0=1, send=send))
    for pmax in (10, 11, 12, 13):
        for pcert in ("trusted", "none"):
            send = sends[k % 2]; k += 1
            add(mk(E, verify="on", trust="ca-right", pcert=pcert, pmax=pmax, lvl0=1, send=send))
    for send in sends:
        for verify in ("on", "off"):
            add(mk(E, peer="plaintext", verify=verify, trust="ca-right", send=send))
            for g in range(4):
                add(mk(E, peer="garbage", garbage=g, verify=verify, trust="ca-right", send=send))
    for tlscfg in ("disabled", "mode-none", "mode-other"):    # TLS listener requested, configuration yields no server context
        for send in sends:
            for peer in ("openssl", "plaintext"):
                add(mk(E, tlscfg=tlscfg, peer=peer, verify="off", send=send))
        add(mk(E, tlscfg=tlscfg, peer="plaintext", verify="on", trust="ca-right", pcert="none", send="early"))

    # shape of iora's own certificate FILE x issuer of the certificate the peer presents: a bundle must not add
    # trust anchors. Servers that require client certificates, configured client CA = B (the server's own certificate
    # is issued by A) and = A; symmetric on the client side (caFile = B, own client certificate bundle from A).
    for E in SERVER_ENTRIES:
        for ishape in ("leaf", "fullchain", "leaf+unrelated", "ca-first"):
            for pcert in ("untrusted", "trusted", "third", "selfsigned", "none"):
                add(mk(E, verify="on", trust="ca-wrong", ishape=ishape, pcert=pcert, send=sends[k % 2])); k += 1
        for ishape in ("fullchain", "leaf+unrelated"):
            for pcert in ("trusted", "untrusted", "third"):
                add(mk(E, verify="on", trust="ca-right", ishape=ishape, pcert=pcert, send=sends[k % 2])); k += 1
    for E in CLIENT_ENTRIES:
        for ishape in ("leaf", "fullchain", "leaf+unrelated", "ca-first"):
            for pcert in ("wrongca", "valid", "third", "selfsigned"):
                kw = dict(api=apis[k % 3][0], send=apis[k % 3][1]) if E == "transport-client" else {}
                k += 1
                add(mk(E, verify="on", trust="ca-wrong", icert="trusted", ishape=ishape, pauth="request", pcert=pcert, target="name", **kw))
    E = "transport-server"

    # lifecycle on the server side: the server certificate/key files are missing at the first start()
    E = "transport-server"
    for life in ("retry-provisioned", "retry-missing", "restart"):
        for pcert in ("trusted", "none", "untrusted", "expired"):
            send = sends[k % 2]; k += 1
            add(mk(E, life=life, verify="on", trust="ca-right", pcert=pcert, send=send))
        for pmax in (10, 11):
            send = sends[k % 2]; k += 1
            add(mk(E, life=life, verify="off", pmax=pmax, send=send))
        add(mk(E, life=life, peer="plaintext", verify="off", send="early"))

    # ---- HTTP server
    E = "http-server"
    for trust in ("ca-right", "ca-wrong", "none"):
        for pcert in CLI_CERTS:
            add(mk(E, verify="on", trust=trust, pcert=pcert))
    for trust in ("ca-right", "none"):
        for pcert in CLI_CERTS:
            add(mk(E, verify="off", trust=trust, pcert=pcert))
    for icert in ("valid", "expired", "notyet", "mismatch"):
        for pverify in ("on", "off"):
            add(mk(E, verify="off", icert=icert, pverify=pverify))
    for pmax in (10, 11, 12, 13):
        add(mk(E, verify="off", pmax=pmax, lvl0=1))
        add(mk(E, verify="on", trust="ca-right", pcert="trusted", pmax=pmax, lvl0=1))
    for verify in ("on", "off"):
        add(mk(E, peer="plaintext", verify=verify, trust="ca-right"))
        for g in range(4):
            add(mk(E, peer="garbage", garbage=g, verify=verify, trust="ca-right"))

    # de-duplicate (blocks overlap on a few cells), keep order
    seen, out = set(), []
    for c in cells:
        key = json.dumps(c, sort_keys=True)
        if key not in seen:
            seen.add(key)
            out.append(c)
    return out


NAME_CELLS = [
    ("wild", "ex-api"), ("wild", "ex-api-case"), ("wild", "ex-api-dot"), ("wild", "ex-2under"), ("wild", "ex-2under-dot"),
    ("wild", "ex-3under"), ("wild", "ex-parent"), ("wild", "ex-other"), ("wild", "name"),
    ("exact", "ex-api"), ("exact", "ex-api-case"), ("exact", "ex-api-dot"), ("exact", "ex-sub-api"), ("exact", "ex-parent"),
    ("exact", "ex-other"), ("exact", "ex-abc"),
    ("partial", "ex-abc"), ("partial", "ex-api"), ("partial", "ex-other"),
    ("midwild", "ex-www-foo"), ("midwild", "ex-api"),
    ("iponly", "name"), ("iponly", "ex-api"), ("iponly", "ip"),
    ("cnonly", "ex-api"), ("cnonly", "ex-2under"), ("cnonly", "ex-other"),
    ("dnsonly", "ip"), ("valid", "ex-api"),
]


def reference_cells():
    """independent client against independent server (no iora in the loop): checks that the PKI
    material is what the coordinate tables above say it is, and that a sub-1.2 handshake is
    negotiable in the low-ceiling processes (otherwise the floor cells could never fire)."""
    cells = []
    for trust in ("ca-right", "ca-wrong"):
        for pcert in BASE_CERTS:
            for target in ("ip", "name", "othername"):
                cells.append(mk("raw-raw", verify="on", trust=trust, pcert=pcert, target=target))
    for pcert, target in NAME_CELLS:
        if target != "ip":
            cells.append(mk("raw-raw", verify="on", trust="ca-right", pcert=pcert, target=target))
    for icert in CLI_CERTS:
        cells.append(mk("raw-raw", verify="on", trust="ca-right", icert=icert, pauth="require", target="name", ref="client-cert"))
    for pmax in (10, 11, 12, 13):
        cells.append(mk("raw-raw", verify="off", pmax=pmax, lvl0=1, ref="floor"))
    return cells


# ----------------------------------------------------------------- cell -> harness input line
def harness_line(c, cid):
    f = dict(id=cid, entry=c["entry"], peer=c["peer"], garbage=c["garbage"], verify=c["verify"], imin=c["imin"],
             tlscfg=c["tlscfg"], pmax=c["pmax"], lvl0=c["lvl0"], host=TARGET_HOST[c["target"]], api=c["api"], send=c["send"],
             life=c.get("life", "fresh"))
    t = TRUST[c["trust"]]
    f.update(cafile=t["cafile"], capath=t["capath"], defstore=t["defstore"])
    if c["entry"] == SEQ_ENTRY:
        s1, s2, settls, reuse = SEQS[c["seq"]]
        f.update(seq=c["seq"], s1=s1, s2=s2, settls=int(settls), reuse=int(reuse), speer=c["speer"])
        if settls:
            f.update(verify1=c["verify1"], cafile1=TRUST[c["trust1"]]["cafile"])
    if c["entry"] in CLIENT_ENTRIES or c["entry"] in ("raw-raw", SEQ_ENTRY):
        ic = c["icert"]
        if ic == "mismatch":
            f.update(icertf="cli-trusted", ikeyf="other")
        elif ic != "none":
            f.update(icertf=SHAPE_FILE[c["ishape"]] % CLI_CERTS[ic]["file"], ikeyf=CLI_CERTS[ic]["file"])
        pc = SRV_CERTS[c["pcert"]]["file"]
        f.update(pcertf=pc, pkeyf=pc, pauth=c["pauth"], pca="ca-right")
    else:
        ic = c["icert"]
        if ic == "mismatch":
            f.update(icertf="srv-valid", ikeyf="other")
        else:
            f.update(icertf=SHAPE_FILE[c["ishape"]] % SRV_CERTS[ic]["file"], ikeyf=SRV_CERTS[ic]["file"])
        if c["pcert"] != "none":
            f.update(pcertf=CLI_CERTS[c["pcert"]]["file"], pkeyf=CLI_CERTS[c["pcert"]]["file"])
        f.update(pverify=c["pverify"], pca="ca-right", pverifyhost="localhost" if c["pverify"] == "on" else "-")
    return " ".join("%s=%s" % (k, v) for k, v in f.items())


# ------------------------------------------------------------------------------------ judging
VERSIONS = {0x0301: "tls1.0", 0x0302: "tls1.1", 0x0303: "tls1.2", 0x0304: "tls1.3"}


def admitted(c, o):
    """-> list of the data/announcement facts that make the peer 'admitted' (empty: not admitted)"""
    why = []
    p = o.get("peer", {})
    tls_peer = c["peer"] == "openssl"
    e = c["entry"]
    if e == "transport-client":
        if o.get("onconnect", 0) > 0: why.append("onConnect fired")
        if o.get("connectsync") == "ok": why.append("connectSync returned ok")
        if o.get("ondata_bytes", 0) > 0: why.append("data callback delivered %d bytes" % o["ondata_bytes"])
        if tls_peer and p.get("rx_bytes", 0) > 0: why.append("peer decrypted %d application bytes" % p["rx_bytes"])
        if not tls_peer and p.get("rx_has_token"): why.append("application token reached the peer")
    elif e == "http-client":
        if o.get("http_status", 0) != 0: why.append("HTTP response obtained (status %s)" % o["http_status"])
        if o.get("http_body_has_token"): why.append("response body delivered")
        if tls_peer and p.get("rx_bytes", 0) > 0: why.append("peer decrypted the request (%d bytes)" % p["rx_bytes"])
        if not tls_peer and p.get("rx_has_token"): why.append("request reached the peer")
    elif e == "transport-server":
        if o.get("ondata_bytes", 0) > 0: why.append("server data callback delivered %d bytes" % o["ondata_bytes"])
        if tls_peer and p.get("rx_bytes", 0) > 0: why.append("client decrypted %d application bytes from the server" % p["rx_bytes"])
        if not tls_peer and p.get("rx_has_token"): why.append("server token reached the client")
    elif e == "http-server":
        if o.get("handler_calls", 0) > 0: why.append("HTTP handler invoked")
        if tls_peer and p.get("rx_bytes", 0) > 0: why.append("client decrypted %d response bytes" % p["rx_bytes"])
        if not tls_peer and p.get("rx_has_token"): why.append("server token reached the client")
    elif e == "raw-raw":
        rc = o.get("rawclient", {})
        if rc.get("rx_bytes", 0) > 0 or p.get("rx_bytes", 0) > 0: why.append("reference peers exchanged data")
    return why


def judge_seq(c, o):
    """sequence cells: same contract as judge()."""
    if o.get("harness_error"):
        return [], "harness error: " + o["harness_error"], []
    viols, cnt, retry = [], [], None
    p, r = o.get("peer", {}), o.get("relay", {})
    label = "http-client:seq-" + c["seq"]
    cnt += ["cells_executed", "seq_cells[%s]" % c["seq"]]
    for i, (scheme, verdict, reasons, eithers) in enumerate(expect_seq(c), 1):
        st, tok, err = o.get("r%d_status" % i, 0), o.get("r%d_body_has_token" % i), o.get("r%d_err" % i, "")
        seen = [q for q in p.get("reqs", []) if q.get("tok") == i]
        adm = []
        if st: adm.append("request %d: HTTP response obtained (status %s)" % (i, st))
        if seen: adm.append("request %d reached the peer (%s)" % (i, "over TLS" if seen[0]["tls"] else "IN CLEAR"))
        cnt.append("verdict_" + verdict)
        if scheme == "https":
            if r.get("c2s_has_tok%d" % i):
                # one refuting event, one key: the request left in clear (its "admission" is the same event)
                viols.append(("C07:cleartext:%s:https-request-on-wire" % label,
                              "request %d was made with an https:// URL; its request line (with the 32-byte token) is visible in "
                              "clear in the bytes the client put on the wire; %s" % (i, "; ".join(adm))))
                continue
            if seen and seen[0]["tls"]:
                cnt.append("seq_https_request_seen_over_tls")
            if verdict == "reject":
                if adm:
                    viols.append(("C07:%s:%s:admitted" % (label, "+".join(reasons)), "must-reject request admitted: " + "; ".join(adm)))
                else:
                    cnt += ["must_reject_refused"] + ["refused[%s]" % t for t in reasons]
                    if "certificate verify failed" in err.lower(): cnt.append("iora_verify_failures_seen")
            elif verdict == "accept":
                if st == 200 and tok and seen and seen[0]["tls"]:
                    cnt.append("must_accept_admitted")
                else:
                    retry = "must-accept request %d refused: %s" % (i, err)
                    if "timed out" not in err.lower() and "timeout" not in err.lower() and not r.get("c2s_has_tok%d" % i):
                        viols.append(("C07:%s:%s:rejected" % (label, accept_class(mk("http-client", verify=c["verify"], trust=c["trust"]))),
                                      "must-accept request %d did not complete over TLS: status=%s err=%s" % (i, st, err)))
            else:
                cnt.append("either_admitted" if adm else "either_refused")
        else:
            cnt.append("either_admitted" if adm else "either_refused")
            if seen: cnt.append("seq_http_request_went_" + ("over_tls_session" if seen[0]["tls"] else "in_clear"))
    if r.get("conns", 0) == 1 and len(p.get("reqs", [])) == 2: cnt.append("seq_second_request_reused_connection")
    if r.get("conns", 0) >= 2: cnt.append("seq_second_request_new_connection")
    return viols, retry, cnt


def judge(c, o):
    """-> (violations [(key, what)], retry_reason or None, counters [name...]).
    retry_reason: the observation is not usable as it stands (watchdog, harness error) or is a
    must-accept refusal, which only counts when reproduced in isolation."""
    e = c["entry"]
    verdict, reasons, eithers = expect(c)
    viols, cnt = [], []
    if o.get("harness_error"):
        return [], "harness error: " + o["harness_error"], []
    if o.get("watchdog"):
        return [], "cell watchdog fired", []
    if c["life"].startswith("retry-") and o.get("first_start_ok") is not False:
        return [], "lifecycle cell: the first start() did not fail at the certificate/key load (harness defect)", []
    adm = admitted(c, o)
    p, r = o.get("peer", {}), o.get("relay", {})
    client = e in CLIENT_ENTRIES
    el = e if c["life"] == "fresh" else "%s:life-%s" % (e, c["life"])     # entry label used in keys
    if c["ishape"] != "leaf":
        el += ":certfile-" + c["ishape"]

    # ---- universal clause 1: no application byte in clear, whatever the configuration
    iora_dir = "c2s" if client else "s2c"
    iora_tok = "ctok" if client else "stok"
    if r.get("%s_has_%s" % (iora_dir, iora_tok)):
        if c["tlscfg"] != "enabled":
            key = "C07:cleartext:%s:tls-requested-config-%s:token-on-wire" % (el, c["tlscfg"])
        elif c["peer"] != "openssl":
            key = "C07:cleartext:%s:%s-peer:token-on-wire" % (el, c["peer"])
        else:
            key = "C07:cleartext:%s:token-on-wire" % el
        viols.append((key, "iora's application token is visible in clear in the bytes iora put on the wire "
                           "(session requested with TLS; send=%s api=%s)" % (c["send"], c["api"])))
    if c["peer"] == "openssl" and r.get("%s_has_%s" % ("s2c" if client else "c2s", "stok" if client else "ctok")):
        return [], "reference peer leaked its own token in clear (harness defect)", []
    # ---- universal clause 2: nothing below TLS 1.2
    mv = int(p.get("min_version", "0x0"), 16)
    if c["peer"] == "openssl" and p.get("hs_ok", 0) > 0 and 0 < mv < 0x0303:
        viols.append(("C07:floor:%s:%s-negotiated" % (el, VERSIONS.get(mv, hex(mv))),
                      "handshake completed at %s (configured min=%s, peer ceiling=%s)" % (p.get("version"), c["imin"], c["pmax"])))
    # ---- the matrix verdict
    if verdict == "reject" and adm:
        if reasons == ["floor"]:
            if not any(k.startswith("C07:floor:") for k, _ in viols):
                viols.append(("C07:floor:%s:ceiling-below-1.2:admitted" % el, "; ".join(adm)))
        else:
            viols.append(("C07:%s:%s:admitted" % (el, "+".join(reasons)), "must-reject cell admitted: " + "; ".join(adm)))
    retry = None
    if verdict == "accept":
        if e == "transport-client":
            ok = (o.get("onconnect", 0) > 0 or o.get("connectsync") == "ok") and o.get("ondata_has_token") and p.get("rx_has_token")
        elif e == "http-client":
            ok = o.get("http_status") == 200 and o.get("http_body_has_token")
        elif e == "transport-server":
            ok = o.get("ondata_has_token") and p.get("rx_has_token")
        else:
            ok = o.get("handler_saw_token") and p.get("rx_has_token")
        if not ok:
            why = _why_rejected(o)
            retry = "must-accept cell refused: " + why
            # a refusal that is only a deadline (HttpClient caps the TLS connect to a loopback address at
            # 200 ms; this machine may be heavily loaded) is a watchdog, not a logical refusal
            if not _is_deadline(o):
                viols.append(("C07:%s:%s:rejected" % (el, accept_class(c)), "must-accept cell did not complete: " + why))
        elif client and c["pauth"] != "none" and c["icert"] == "trusted" and not (p.get("got_cert") and p.get("verify") == 0):
            viols.append(("C07:%s:client-cert-configured:not-presented" % el,
                          "client certificate configured, the peer asked for one, none (valid) arrived: got_cert=%s verify=%s"
                          % (p.get("got_cert"), p.get("verify"))))
    # ---- coverage counters (what the monitors actually saw)
    cnt.append("cells_executed")
    cnt.append("verdict_" + verdict)
    if verdict == "reject" and not adm:
        cnt.append("must_reject_refused")
        for t in reasons:
            cnt.append("refused[%s]" % t)
    if verdict == "accept" and not viols: cnt.append("must_accept_admitted")
    if verdict == "either": cnt.append("either_admitted" if adm else "either_refused")
    msg = (o.get("close_msg", "") + " " + o.get("http_err", "") + " " + o.get("connectsync", "") + " " + o.get("start_err", "")).lower()
    if "certificate verify failed" in msg: cnt.append("iora_verify_failures_seen")
    if "protocol version" in msg or "unsupported protocol" in msg or "no protocols available" in msg:
        cnt.append("iora_version_refusals_seen")
    if "floor" in reasons and not adm: cnt.append("floor_cells_refused")
    if floor_class(c): cnt.append(floor_class(c))
    if c["peer"] != "openssl" and not adm: cnt.append("hostile_peer_cells_refused")
    if o.get("start_ok") is False: cnt.append("config_failfast_seen")
    if p.get("hs_ok", 0) > 0:
        cnt.append("handshakes_completed")
        cnt.append("negotiated_" + VERSIONS.get(mv, "other"))
    if client and p.get("got_cert"): cnt.append("client_cert_seen_by_peer")
    if r.get("c2s_first", "").startswith("16"): cnt.append("relay_tls_records_seen")
    if r.get("conns", 0) > 0: cnt.append("relay_connections")
    if c["send"] == "early": cnt.append("early_send_cells")
    if c["tlscfg"] != "enabled": cnt.append("tls_requested_not_configured_cells")
    if c["ishape"] != "leaf":
        cnt.append("certfile_shape_cells[%s]" % c["ishape"])
        peer_issuer = (SRV_CERTS[c["pcert"]] if client else (CLI_CERTS[c["pcert"]] or {})).get("issuer")
        if peer_issuer == SHAPE_EXTRA_CA[c["ishape"]] and verdict == "reject" and not adm:
            cnt.append("certfile_bundle_ca_not_trusted")      # the dangerous pairing was run and refused
    if c["life"] != "fresh":
        cnt.append("lifecycle_cells[%s]" % c["life"])
        if c["life"].startswith("retry-"):
            if o.get("first_start_ok") is False: cnt.append("lifecycle_first_start_failed_at_cert_load")
            if c["life"] == "retry-provisioned" and o.get("start_ok"): cnt.append("lifecycle_retry_started_after_provisioning")
            if c["life"] == "retry-missing" and o.get("start_ok") is False: cnt.append("lifecycle_retry_kept_failing")
        elif o.get("first_start_ok") and o.get("start_ok"): cnt.append("lifecycle_restart_started_twice")
    return viols, retry, cnt


def _is_deadline(o):
    msg = (o.get("close_msg", "") + " " + o.get("http_err", "") + " " + o.get("connectsync", "")).lower()
    return "timed out" in msg or "timeout" in msg


def _why_rejected(o):
    bits = []
    for k in ("start_err", "connectsync", "close_msg", "http_err", "http_status", "handler_calls", "listen_err"):
        if o.get(k) not in (None, "", 0, "na"):
            bits.append("%s=%s" % (k, o[k]))
    pe = o.get("peer", {}).get("err")
    if pe: bits.append("peer=" + pe)
    return "; ".join(bits)[:400]


def judge_reference(c, o, ctx):
    """raw-raw cells: a disagreement is a defect of the *check* (PKI or predicate), never of iora."""
    if o.get("harness_error"):
        return "reference cell harness error: " + o["harness_error"]
    rc, p = o.get("rawclient", {}), o.get("peer", {})
    if c.get("ref") == "floor":
        if p.get("hs_ok", 0) > 0:
            mv = int(p.get("min_version", "0x0"), 16)
            ctx.obs("reference_negotiated_" + VERSIONS.get(mv, "other"))
            if mv == 0x0302: ctx.obs("floor_observable_tls11_reference")
            if mv == 0x0301: ctx.obs("floor_observable_tls10_reference")
            return None
        return "reference peers could not negotiate with ceiling %s at security level 0: %s" % (c["pmax"], rc.get("err"))
    ctx.obs("reference_cells")
    if c.get("ref") == "client-cert":
        # the reference server requires a client certificate chaining to A
        cc = CLI_CERTS[c["icert"]]
        want = cc is not None and cc["issuer"] == "A" and cc["when"] == "now"
        got = rc.get("rx_has_token") and p.get("rx_has_token")
        if bool(got) != want:
            return "reference server disagrees with the client-certificate table for %s: exchanged=%s" % (c["icert"], got)
        return None
    verdict, reasons, eithers = expect(c)
    got = bool(rc.get("rx_has_token") and p.get("rx_has_token"))
    if verdict == "reject" and got:
        return "reference client accepted a cell the predicate rejects (%s): %s" % (reasons, _coords(c))
    if verdict == "accept" and not got:
        return "reference client refused a cell the predicate accepts: %s err=%s" % (_coords(c), rc.get("err"))
    return None


def _coords(c):
    return {k: v for k, v in c.items() if DEFAULTS.get(k, object()) != v or k in ("entry", "verify", "trust", "pcert", "icert")}


def signature(c, verdict, reasons, eithers, adm):
    return "|".join([c["entry"], verdict, "+".join(reasons) or "+".join(eithers) or accept_class(c), c["peer"],
                     str(c["garbage"]) if c["peer"] == "garbage" else "", c["api"], c["send"], c["life"],
                     c["seq"] + "/" + c["speer"] + "/" + c["verify1"], c["ishape"], "adm" if adm else "ref"])


# ------------------------------------------------------------------------ quick covering subset
COORDS = ("peer", "garbage", "verify", "trust", "icert", "imin", "tlscfg", "pcert", "pauth", "pverify", "pmax", "target", "api", "send", "life",
          "seq", "speer", "verify1", "trust1", "ishape")


def floor_class(c):
    """version-limit class of a cell: (entry, configured minVersion, peer ceiling) for every cell whose peer ceiling
    is <= TLS 1.2 - the cells that pin the hard floor, the honouring of a configured minimum and the clamp of a
    configured minimum BELOW 1.2. None for all other cells."""
    if c["entry"] == SEQ_ENTRY or c["peer"] != "openssl" or c["pmax"] > 12 or c["life"] != "fresh" or c["tlscfg"] != "enabled":
        return None
    return "floor_class[%s min=%s peer-max=%s]" % (c["entry"], c["imin"] or "unset", c["pmax"])


def covering_subset(cells, rng, target):
    """greedy cover of every (entry, coordinate, value), every single-reason must-reject class and
    every accept class / either class, seeded tie-breaking; padded with seeded picks."""
    feats = []
    for c in cells:
        f = set((c["entry"], k, c[k]) for k in COORDS)
        if floor_class(c):
            f.add(floor_class(c))          # every (entry, configured minimum, peer ceiling) class is in every quick cover
        if c["entry"] == SEQ_ENTRY:
            ex = expect_seq(c)
            f.add((SEQ_ENTRY, "seq-class", c["seq"], c["speer"], ex[0][1], ex[1][1], "+".join(ex[1][2])))
            feats.append(f)
            continue
        v, reasons, eithers = expect(c)
        if v == "reject":
            if len(reasons) == 1: f.add((c["entry"], "solo-reject", reasons[0]))
            # cells where only the hard floor (not a configured minimum) stands between the
            # two sides and a TLS 1.0 / 1.1 session
            if reasons == ["floor"] and c["imin"] * 1 <= c["pmax"] and c["imin"] < 12:
                f.add((c["entry"], "floor-by-clamp-only", c["pmax"]))
            # every non-fresh lifecycle meets an authentication reject class, a floor cell and a hostile peer
            if c["ishape"] != "leaf":
                cl = c["entry"] in CLIENT_ENTRIES
                pi = (SRV_CERTS[c["pcert"]] if cl else (CLI_CERTS[c["pcert"]] or {})).get("issuer")
                f.add((c["entry"], "certfile-reject", c["ishape"], "peer-issuer-in-own-bundle" if pi == SHAPE_EXTRA_CA[c["ishape"]] else "other"))
            if c["life"] != "fresh":
                kind = "floor" if reasons == ["floor"] else ("peer" if c["peer"] != "openssl" else "auth")
                f.add((c["entry"], "life-reject", c["life"], kind))
        if v == "accept" and c["life"] != "fresh":
            f.add((c["entry"], "life-accept", c["life"]))
        if v == "accept" and c["ishape"] != "leaf":
            f.add((c["entry"], "certfile-accept", c["ishape"]))
        elif v == "accept":
            f.add((c["entry"], "accept", c["verify"], c["trust"] if c["verify"] == "on" else ""))
        else:
            for x in eithers: f.add((c["entry"], "either", x))
        feats.append(f)
    uncovered = set().union(*feats)
    order = list(range(len(cells)))
    rng.shuffle(order)
    chosen = []
    while uncovered:
        best = max(order, key=lambda i: len(feats[i] & uncovered))
        if not feats[best] & uncovered:
            break
        chosen.append(best)
        uncovered -= feats[best]
    rest = [i for i in order if i not in set(chosen)]
    while len(chosen) < target and rest:
        chosen.append(rest.pop())
    return [cells[i] for i in sorted(chosen)]


# ------------------------------------------------------------------------------------ running
LVL0_CNF = """openssl_conf = default_conf
[default_conf]
ssl_conf = ssl_sect
[ssl_sect]
system_default = system_default_sect
[system_default_sect]
CipherString = DEFAULT:@SECLEVEL=0
MinProtocol = TLSv1
"""


def _run_batch(ctx, binary, pki, batch, tag, lvl0, isolate=False):
    """batch: list of (cid, cell). Runs them in one process (restarting after a crashed cell).
    -> dict cid -> obs ; list of problems (cid or None, text)"""
    results, problems, rrs = {}, [], []
    todo = list(batch)
    attempt = 0
    while todo and attempt < 6:
        attempt += 1
        cf = os.path.join(ctx.tmp, "cells-%s-%d.txt" % (tag, attempt))
        with open(cf, "w") as fh:
            for cid, c in todo:
                fh.write(harness_line(c, cid) + "\n")
        out = os.path.join(ctx.tmp, "out-%s-%d.jsonl" % (tag, attempt))
        env = {}
        if lvl0:
            env["OPENSSL_CONF"] = os.path.join(ctx.tmp, "lvl0.cnf")
        rr = vf.run_harness(binary, ["--mode", "cells", "--pki", pki, "--cells", cf, "--seed", ctx.seed, "--out", out],
                            timeout=180 + 20 * len(todo), out_file=out, env_extra=env)
        rrs.append(rr)
        begun = None
        for rec in rr.records:
            if rec.get("t") == "begin": begun = rec["id"]
            elif rec.get("t") == "cell": results[rec["id"]] = rec["o"]; begun = None
        left = [(cid, c) for cid, c in todo if cid not in results]
        if not left:
            break
        # the process died or was killed inside cell `begun`
        if begun is not None:
            problems.append((begun, "harness process ended inside the cell (rc=%s timed_out=%s) %s"
                             % (rr.rc, rr.timed_out, rr.err[-300:].replace("\n", " | "))))
            left = [(cid, c) for cid, c in left if cid != begun]
        elif len(left) == len(todo):
            problems.append((None, "harness process produced nothing (rc=%s) %s" % (rr.rc, rr.err[-300:])))
            break
        todo = left
    return results, problems, rrs


def _execute(ctx, bins, pki, cells, refs, chunk_size):
    """runs every cell on every flavor (reference cells on the plain build only) and judges."""
    allc = cells + refs
    order = list(range(len(allc)))
    ctx.rng.shuffle(order)
    jobs = []
    for fl, binary in bins.items():
        for lvl0 in (0, 1):
            sel = [(i, allc[i]) for i in order if allc[i]["lvl0"] == lvl0 and (allc[i]["entry"] != "raw-raw" or fl == "plain")]
            if not sel:
                continue
            nchunks = max(1, (len(sel) + chunk_size - 1) // chunk_size)
            for k in range(nchunks):
                chunk = sel[k::nchunks]
                jobs.append(lambda fl=fl, binary=binary, lvl0=lvl0, chunk=chunk, k=k:
                            (fl, binary, chunk) + _run_batch(ctx, binary, pki, chunk, "%s-%d-%d" % (fl, lvl0, k), lvl0))
    reruns = []
    for fl, binary, chunk, results, problems, rrs in vf.run_many(ctx, jobs):
        for rr in rrs:
            ctx.ingest(rr, where="(%s)" % fl)
        flagged = {}
        for cid, text in problems:
            if cid is None:
                ctx.inconcl(text)
            else:
                flagged[cid] = text
        for cid, c in chunk:
            if cid in flagged:
                continue
            if cid not in results:
                flagged[cid] = "no result from the batch process"
                continue
            why = _judge_one(ctx, fl, cid, c, results[cid], final=False)
            if why:
                flagged[cid] = why
        for cid, why in flagged.items():
            reruns.append((fl, binary, cid, why))
    # isolated re-runs: one process per cell, run after the batches (machine less loaded)
    def iso(fl, binary, cid, why):
        c = allc[cid]
        rrs_all = []
        for attempt in range(3):     # deadlines (not logical refusals) get up to three isolated tries
            res, probs, rrs2 = _run_batch(ctx, binary, pki, [(cid, c)], "iso-%s-%d-%d" % (fl, cid, attempt), c["lvl0"])
            rrs_all += rrs2
            o = res.get(cid)
            if o is None or c["entry"] in ("raw-raw", SEQ_ENTRY) or not (o.get("watchdog") or (judge(c, o)[1] and _is_deadline(o))):
                break
        return (fl, cid, why, res, probs, rrs_all)
    for fl, cid, why, res, probs, rrs2 in vf.run_many(ctx, [lambda a=a: iso(*a) for a in reruns], workers=4):
        c = allc[cid]
        ctx.obs("isolated_reruns")
        for rr in rrs2:
            ctx.ingest(rr, where="(%s, isolated re-run of cell %d)" % (fl, cid))
        if cid not in res:
            if not any(rr.san_reports for rr in rrs2):
                ctx.inconcl("cell %s on %s: %s; the isolated re-run gave no result either" % (_coords(c), fl, why))
            continue
        why2 = _judge_one(ctx, fl, cid, c, res[cid], final=True)
        if why2:
            ctx.inconcl("cell %s on %s: %s (first run: %s)" % (_coords(c), fl, why2, why))


def _judge_one(ctx, fl, cid, c, o, final):
    """-> None when the observation was consumed; a text when the cell must be re-run (final=False)
    or is inconclusive (final=True)."""
    if c["entry"] == "raw-raw":
        return judge_reference(c, o, ctx)
    if c["entry"] == SEQ_ENTRY:
        viols, retry, counters = judge_seq(c, o)
        ex = expect_seq(c)
        verdict, reasons, eithers = ex[1][1], ex[1][2], ex[1][3]
    else:
        viols, retry, counters = judge(c, o)
        verdict, reasons, eithers = expect(c)
    if retry:
        unusable = not viols
        if not final:
            hard = [v for v in viols if not v[0].endswith(":rejected")]
            for key, what in hard:      # a refuting event is a refuting event, reproduced or not
                _report(ctx, fl, cid, c, o, key, what, verdict, reasons)
            return retry
        if unusable:
            return retry
    for n in counters:
        ctx.obs(n)
    adm = admitted(c, o) if c["entry"] != SEQ_ENTRY else [k for k in ("r1_status", "r2_status") if o.get(k)]
    sample = None
    seen = ctx.extra.setdefault("_sampled", set())
    tag = (c["entry"], verdict)
    if len(ctx.samples) < 6 and tag not in seen and cid % 3 == 0:
        seen.add(tag)
        sample = dict(cell=_coords(c), expected=verdict, reasons=reasons or eithers, observed=_brief(o), flavor=fl)
    ctx.case(signature(c, verdict, reasons, eithers, adm), sample)
    for key, what in viols:
        _report(ctx, fl, cid, c, o, key, what, verdict, reasons)
    return None


def _report(ctx, fl, cid, c, o, key, what, verdict, reasons):
    ctx.violation(key, what + " | cell: " + json.dumps(_coords(c), sort_keys=True),
                  dict(cell=c, harness_line=harness_line(c, cid), observed=o, flavor=fl, expected=verdict, reasons=reasons))


def _brief(o):
    b = {k: o[k] for k in ("start_ok", "onconnect", "connectsync", "ondata_bytes", "close_msg", "http_status", "http_err",
                            "handler_calls", "start_err") if k in o and o[k] not in ("", None)}
    b["peer"] = {k: v for k, v in o.get("peer", {}).items() if k in ("hs_ok", "version", "got_cert", "rx_bytes", "err")}
    b["relay"] = {k: v for k, v in o.get("relay", {}).items() if k in ("c2s", "s2c", "c2s_has_ctok", "s2c_has_stok", "c2s_first")}
    return b


def _prepare(ctx, flavors):
    bins = vf.build_many([("c07_tls", f) for f in flavors])
    pki = os.path.join(ctx.tmp, "pki")
    os.makedirs(pki, exist_ok=True)
    rr = vf.run_harness(bins[("c07_tls", "plain")], ["--mode", "pki", "--dir", pki], timeout=300)
    if rr.rc != 0:
        raise vf.HarnessFailure("PKI generation failed: " + rr.err[-500:])
    with open(os.path.join(ctx.tmp, "lvl0.cnf"), "w") as fh:
        fh.write(LVL0_CNF)
    return {f: bins[("c07_tls", f)] for f in flavors}, pki


def run(ctx):
    thorough = ctx.tier == "thorough"
    flavors = ["plain", "asan"] + (["tsan"] if thorough else [])
    bins, pki = _prepare(ctx, flavors)
    full = matrix()
    if thorough:
        cells = full
        ctx.exhaustive = True
    else:
        cells = covering_subset(full, random.Random(ctx.seed), 130)
        ctx.exhaustive = False
    refs = reference_cells()
    _execute(ctx, bins, pki, cells, refs, 20 if thorough else 10)
    ctx.extra.pop("_sampled", None)
    def _v(c):
        return expect_seq(c)[1][1:3] if c["entry"] == SEQ_ENTRY else expect(c)[0:2]
    nrej = sum(1 for c in cells if _v(c)[0] == "reject")
    nacc = sum(1 for c in cells if _v(c)[0] == "accept")
    ctx.extra["matrix"] = dict(pruned_matrix_cells=len(full), cells_run=len(cells), must_reject=nrej, must_accept=nacc,
                               either=len(cells) - nrej - nacc, reference_cells=len(refs),
                               must_reject_classes=len(set((c["entry"], c["seq"], "+".join(_v(c)[1])) for c in cells if _v(c)[0] == "reject")))
    ctx.rule = ("one evaluation = one matrix cell executed for real on one build flavor (iora Transport client/server, HttpClient, "
                "HttpServer against an independent libssl / plaintext / garbage peer through a recording relay); expected outcome from "
                "coordinates only; distinct = (entry, verdict, reject reasons | accept class | either class, peer kind, call path, "
                "send timing, admitted?)")
    ctx.assumptions = [
        "system OpenSSL 3.0.x; TLS 1.0/1.1 are negotiable only at security level 0, so the low-ceiling cells run with "
        "@SECLEVEL=0 on both sides (OPENSSL_CONF system default + TlsConfig.ciphers) and a reference pair must negotiate TLS 1.1 "
        "in the same kind of process for the floor cells to count",
        "certificate semantics (issuer, validity window, names) come from the generator's table; a reference libssl client/server "
        "pair must agree with the table on every certificate, otherwise the run is inconclusive",
        "revocation, name constraints and cipher strength are out of reach",
        "must-accept cells that fail are re-run in isolation; only a reproduced refusal is reported",
    ]
    ctx.require_obs(*sorted(set(floor_class(c) for c in full if floor_class(c))))
    ctx.require_obs("cells_executed", "must_reject_refused", "must_accept_admitted", "iora_verify_failures_seen",
                    "floor_cells_refused", "floor_observable_tls11_reference", "floor_observable_tls10_reference",
                    "hostile_peer_cells_refused", "relay_tls_records_seen", "client_cert_seen_by_peer",
                    "config_failfast_seen", "early_send_cells", "reference_cells", "handshakes_completed",
                    "negotiated_tls1.2", "negotiated_tls1.3", "tls_requested_not_configured_cells",
                    "lifecycle_first_start_failed_at_cert_load", "lifecycle_retry_started_after_provisioning",
                    "lifecycle_retry_kept_failing", "lifecycle_restart_started_twice",
                    "seq_cells[http-then-https]", "seq_cells[https-then-http]", "seq_cells[settls-tighten]",
                    "seq_cells[settls-loosen]", "seq_https_request_seen_over_tls",
                    "certfile_shape_cells[fullchain]", "certfile_shape_cells[leaf+unrelated]", "certfile_shape_cells[ca-first]",
                    "certfile_bundle_ca_not_trusted")


def replay(ctx, path):
    with open(path) as fh:
        rp = json.load(fh)
    d = rp["first"]["detail"]
    c = d["cell"]
    bins, pki = _prepare(ctx, ["plain", "asan"])
    refs = [r for r in reference_cells() if r.get("ref") == "floor"]
    _execute(ctx, bins, pki, [c], refs, 10)
    ctx.extra.pop("_sampled", None)
    ctx.rule = "replay of one matrix cell: " + json.dumps(_coords(c), sort_keys=True)
