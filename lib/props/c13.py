# C13 — JSON: agreement with an independent reference decoder, round trip, robustness.
# Oracle: Python's json module (parse_float/parse_int hooks keep the number spelling) on the same bytes;
# the C++ driver (harness/c13_json.cpp, asan+ubsan build) only drives iora and renders what it saw.
import json, os, random, re
import vf
import c13_jsongen as G
import c13_ref as R
import c13_shards as SH

LEVEL = "exploration"
FUZZ_FLAGS = ("-DVF_FUZZ=1",)
# -O0 (overrides the flavor's -O1): the optimiser deletes dead out-of-bounds loads before ASan can see them (a cursor
# reading one byte past the input whose value is not used), without optimisation every source-level read is checked
ASAN_FLAGS = ("-O0",)
BUILDS = [("c13_json", "asan", ASAN_FLAGS), ("c13_json", "fuzz", FUZZ_FLAGS)]
PROP = "C13"

# linear-cost guard on thread CPU time of one parse (asan build): generous, and only a *reproduced*
# excess (best of three isolated re-runs) counts
CPU_C0_NS = 30_000_000
CPU_PER_BYTE_NS = 3000


def slug(msg):
    return re.sub(r"[^a-z0-9]+", "-", msg.lower()).strip("-")[:50] or "none"


def p_line(lim, data):
    return "P %s %s" % (G.lim_str(lim), data.hex())


def metrics_of(v, depth=0, m=None):
    """limits recomputed from iora's accepted value (typed form)"""
    m = m if m is not None else [0, 0, 0, 0]      # depth, arr, mem, str
    if depth > m[0]:
        m[0] = depth
    if isinstance(v, tuple):
        k = v[0]
        if k == "s":
            m[3] = max(m[3], len(v[1]))
        elif k == "a":
            m[1] = max(m[1], len(v[1]))
            for x in v[1]:
                metrics_of(x, depth + 1, m)
        elif k == "o":
            m[2] = max(m[2], len(v[1]))
            for key, x in v[1].items():
                m[3] = max(m[3], len(key))
                metrics_of(x, depth + 1, m)
    return m


def parse_diff_key(diff, data):
    cls = diff[1]
    has_u = b"\\u" in data
    if cls in ("string:wrong-bytes", "object:keys-differ") and has_u:
        return "C13:parse:unicode-escape:wrong-code-point"
    if cls == "string:wrong-bytes":
        return "C13:parse:string:wrong-bytes"
    if cls == "object:keys-differ":
        return "C13:parse:object:members-differ"
    if cls == "double:wrong-bits":
        return "C13:parse:number:double-wrong-bits"
    if cls == "int:wrong-value":
        return "C13:parse:number:int-wrong-value"
    if cls in ("int:became-double", "double:became-int"):
        return "C13:parse:number:" + cls.replace(":", "-")
    return "C13:parse:structure:" + cls.replace(":", "-")


def dump_diff_key(diff):
    cls = diff[1]
    return {"double:wrong-bits": "C13:dump:double:precision-lost",
            "double:became-int": "C13:dump:double:reparsed-as-int",
            "string:wrong-bytes": "C13:dump:string:wrong-bytes",
            "object:keys-differ": "C13:dump:object:members-differ",
            "int:wrong-value": "C13:dump:int:wrong-value"}.get(cls, "C13:dump:structure:" + cls.replace(":", "-"))


def relation(metric, limit):
    return "<" if metric < limit else "=" if metric == limit else "+1" if metric == limit + 1 else ">"


def judge_parse(s, rec, data, lim, cls, feats=(), slow=None, line=None):
    """cls: short input-class name used in evidence / keys of robustness findings (generator class or mutator)."""
    n = len(data)
    det = lambda **kw: dict(case=(line or p_line(lim, data))[:20000], limits=list(lim), input_class=cls, **kw)
    ok = rec["ok"]
    s.obs("parses")
    if ok == -1:
        s.viol("C13:parse:unexpected-exception", f"Json::parse(string_view, limits) threw {rec.get('exc')} ({cls})", det())
        return "exception"
    if rec["pe"].startswith("other"):
        s.viol("C13:parseOrThrow:undocumented-exception-type", f"parseOrThrow threw {rec['pe']} instead of Json::parse_error ({cls})", det())
    if (ok == 1) != (rec["ok2"] == 1) or (ok == 0 and rec["pe"] != "parse_error"):
        s.viol("C13:parseOrThrow:inconsistent-with-parse", f"parse ok={ok} but parseOrThrow ok={rec['ok2']} exception={rec['pe']} ({cls})", det())
    if ok == 0:
        s.obs("rejected")
        if rec["off"] > n:
            s.obs("error_offset_outside_input")
            s.viol("C13:error-offset-outside-input",
                   f"error offset {rec['off']} lies outside the {n}-byte input (message {rec['msg']!r}, input class {cls})",
                   det(offset=rec["off"], length=n, message=rec["msg"]))
        else:
            s.obs("error_offset_inside_input")
    if rec["cpu"] > CPU_C0_NS + CPU_PER_BYTE_NS * n and slow is not None:
        slow.append((line or p_line(lim, data), cls, n, rec["cpu"]))
    s.obs_max("max_parse_cpu_ns_per_byte_x1000", int(rec["cpu"] * 1000 / max(n, 1)) if n >= 4096 else 0)
    # ---- reference
    try:
        ref, m = R.ref_decode(data)
        refstate = "ok"
    except R.RefReject:
        refstate = "reject"
    except R.RefUnjudgeable:
        refstate = "unjudgeable"
        s.obs("reference_unjudgeable")
    got = R.from_canon(rec["v"]) if ok == 1 else None
    outcome = "rejected"
    if ok == 1:
        gm = metrics_of(got)
        for name, val, mx in (("depthMax", gm[0], lim[2]), ("arrayItemsMax", gm[1], lim[0]), ("membersMax", gm[2], lim[1]),
                              ("stringLengthMax", gm[3], lim[3])):
            if val > mx:
                s.viol(f"C13:limit:{name}:accepted-beyond-limit",
                       f"accepted a value whose {name.replace('Max', '')} is {val} with {name}={mx} ({cls})",
                       det(observed=val, limit=mx))
        s.obs("accepted")
    if refstate == "ok":
        s.obs("reference_accepts")
        rel = (relation(m.depth, lim[2]), relation(m.arr, lim[0]), relation(m.mem_textual, lim[1]), relation(m.strlen, lim[3]))
        for nm, r_ in zip(("depth", "array", "members", "string"), rel):
            if r_ in ("=", "+1"):
                s.obs(f"limit_{nm}_{'exact' if r_ == '=' else 'plus1'}")
        if ok == 1:
            diff = R.first_diff(ref, got)
            if diff:
                outcome = "differs"
                s.viol(parse_diff_key(diff, data),
                       f"iora decodes a valid text differently from the reference at {diff[0]}: {diff[1]} expected {R.show(diff[2], 80)} got {R.show(diff[3], 80)} ({cls})",
                       det(path=diff[0], expected=R.show(diff[2]), got=R.show(diff[3])))
            else:
                outcome = "agree"
                s.obs("agree_with_reference")
            if m.beyond(lim) and not diff:
                pass  # already reported through the recomputed metrics above
        else:
            if m.within(lim):
                outcome = "valid-rejected"
                at = [nm for nm, r_ in zip(("depthMax", "arrayItemsMax", "membersMax", "stringLengthMax"), (rel[0], rel[1], rel[2], rel[3])) if r_ == "="]
                if at and ("limit" in rec["msg"].lower() or "depth" in rec["msg"].lower()):
                    s.viol(f"C13:limit:{at[0]}:rejected-at-limit", f"valid text exactly at {at[0]} rejected: {rec['msg']} ({cls})", det(message=rec["msg"]))
                else:
                    s.viol("C13:parse:valid-text-rejected:" + slug(rec["msg"]),
                           f"RFC 8259-valid text within the limits rejected at offset {rec['off']}: {rec['msg']} ({cls})",
                           det(message=rec["msg"], offset=rec["off"]))
            elif m.beyond(lim):
                outcome = "beyond-limit-rejected"
                s.obs("beyond_limit_rejected")
            else:
                outcome = "between-rejected"
        sig_rel = rel
    else:
        sig_rel = None
        if ok == 1 and refstate == "reject":
            outcome = "over-accepted"
            s.obs("accepted_but_reference_rejects(not judged)")
    return outcome, sig_rel


def rerun_slow(s, binary, tmp, slow, tag):
    """cases that exceeded the CPU guard: best of three isolated re-runs decides"""
    for line, cls, n, cpu in slow[:20]:
        best = cpu
        for k in range(3):
            recs, evs = SH.run_cases(binary, [line], tmp, f"{tag}-slow{k}", timeout=300)
            if 0 in recs:
                best = min(best, recs[0]["cpu"])
        if best > CPU_C0_NS + CPU_PER_BYTE_NS * n:
            s.viol(f"C13:steps:superlinear:{cls}", f"parse of a {n}-byte {cls} input took {best} ns CPU (guard {CPU_C0_NS}+{CPU_PER_BYTE_NS}*n), reproduced 3x in isolation",
                   dict(case=line[:20000], n=n, cpu_ns=best))
        else:
            s.obs("cpu_guard_not_reproduced")


def finish_shard(s, binary, tmp, tag, lines, events, slow, describe):
    def rerun(k):
        return SH.run_cases(binary, [lines[k]], tmp, f"{tag}-iso", timeout=300, extra_args=["--stuck-cpu-s", 30])
    SH.handle_events(s, PROP, events, lines, describe, rerun)
    rerun_slow(s, binary, tmp, slow, tag)
    s.d["flavors"].add(vf.flavor_of(binary))


# ------------------------------------------------------------------------------- shards
def shard_texts(binary, seed, idx, count, tmp):
    rng = random.Random((seed << 20) ^ (idx * 7919 + 1))
    s = SH.S()
    cases = []          # (data, lim, cls, feats)
    for i in range(count):
        r = rng.random()
        if r < 0.8:
            data, feats = G.gen_text(rng)
            cases.append((data, G.DEFAULT_LIMITS, "grammar", feats))
        elif r < 0.9:
            # a random text judged under a small limit set (mixed within / beyond)
            data, feats = G.gen_text(rng)
            cases.append((data, rng.choice(G.SMALL_LIMITS), "grammar-small-limits", feats))
        else:
            lim = rng.choice(G.SMALL_LIMITS + [(5, 5, 5, 5), (3, 3, 100, 2000), (10000, 10000, 7, 20)])
            which = rng.choice(["depth", "array", "members", "members-dup", "string"])
            delta = rng.choice([-1, 0, 0, 1, 1, 2])
            c = G.gen_limit_case(rng, lim, which, delta, plain=lim[3] > 4096)
            if c is None:
                data, feats = G.gen_text(rng)
                cases.append((data, G.DEFAULT_LIMITS, "grammar", feats))
            else:
                cases.append((c[0], lim, "limit:" + c[1], [c[1]]))
    lines = [p_line(lim, data) for data, lim, _, _ in cases]
    recs, events = SH.run_cases(binary, lines, tmp, f"texts{idx}")
    slow = []
    for i, (data, lim, cls, feats) in enumerate(cases):
        rec = recs.get(i)
        if rec is None:
            continue
        res = judge_parse(s, rec, data, lim, cls, feats, slow, lines[i])
        outcome, rel = res if isinstance(res, tuple) else (res, None)
        for f in feats:
            s.obs("text_feature:" + f.split(":")[0])
        s.case(sig=["text", feats, rel, lim != G.DEFAULT_LIMITS],
               sample=dict(kind="text", text=data[:200].decode("utf-8", "replace"), limits=list(lim), outcome=outcome))
        if any(f.startswith("esc:u-") for f in feats):
            s.obs("texts_with_u_escape")
        if "esc:u-surrogate-pair" in feats:
            s.obs("texts_with_surrogate_pair")
        if any(f.startswith("dupkey") for f in feats):
            s.obs("texts_with_duplicate_keys")
    finish_shard(s, binary, tmp, f"texts{idx}", lines, events, slow, lambda k: cases[k][2] if k < len(cases) else "?")
    return s.d


def keys_sorted(v):
    if isinstance(v, tuple):
        if v[0] == "o":
            ks = list(v[1].keys())
            if ks != sorted(ks):
                return False
            return all(keys_sorted(x) for x in v[1].values())
        if v[0] == "a":
            return all(keys_sorted(x) for x in v[1])
    return True


def judge_dump_text(s, text, expected, mode, det, iora_ok, iora_val, iora_msg):
    """text: bytes produced by iora's serializer for `expected`. iora_val: typed value iora re-parsed (or None)."""
    try:
        ref, _m = R.ref_decode(text)
    except R.RefReject as e:
        s.viol(f"C13:dump:{mode}:invalid-json", f"dump ({mode}) is not accepted by the reference decoder: {e}", det(text=text[:400].decode("utf-8", "replace")))
        return
    except R.RefUnjudgeable:
        s.obs("reference_unjudgeable")
        return
    s.obs("dumps_valid_json")
    diff = R.first_diff(expected, ref)
    if diff:
        s.viol(dump_diff_key(diff), f"dump ({mode}) denotes a different value at {diff[0]}: {diff[1]} original {R.show(diff[2], 80)} dumped-as {R.show(diff[3], 80)}",
               det(path=diff[0], original=R.show(diff[2]), dumped_as=R.show(diff[3]), text=text[:400].decode("utf-8", "replace")))
    else:
        s.obs("dumps_denote_original_value")
    if "sorted" in mode:
        if keys_sorted(ref):
            s.obs("sorted_dumps_in_order")
        else:
            s.viol("C13:dump:sorted:keys-not-sorted", f"sortKeys dump ({mode}) has members out of byte order", det(text=text[:400].decode("utf-8", "replace")))
    # iora reading its own output, judged against the reference's reading of the same text
    if not iora_ok:
        s.viol("C13:parse:valid-text-rejected:" + slug(iora_msg or ""), f"iora rejects its own valid dump ({mode}): {iora_msg}",
               det(text=text[:400].decode("utf-8", "replace")))
        return
    d2 = R.first_diff(ref, iora_val)
    if d2:
        s.viol(parse_diff_key(d2, text), f"parse(dump(v)) ({mode}): iora reads its own output differently from the reference at {d2[0]}: {d2[1]} expected {R.show(d2[2], 80)} got {R.show(d2[3], 80)}",
               det(path=d2[0], expected=R.show(d2[2]), got=R.show(d2[3]), text=text[:400].decode("utf-8", "replace")))
    elif not diff:
        s.obs("roundtrips_equal")


def judge_value(s, rec, v, line):
    det = lambda **kw: dict(case=line[:20000], **kw)
    cv = R.from_canon(rec["cv"])
    d0 = R.first_diff(v, cv)
    if d0:
        s.viol("C13:value:construction-differs", f"value built through the Json constructors reads back differently at {d0[0]}: {d0[1]}", det())
        return
    for d in rec["dumps"]:
        mode = d["m"]
        s.obs("dumps")
        s.obs("dump_mode_" + mode)
        if "exc" in d:
            s.viol(f"C13:dump:{mode}:exception", f"dump/reparse threw {d['exc']}", det())
            continue
        text = bytes.fromhex(d["t"])
        if d["ok"] == 1:
            iv = v if d["same"] else R.from_canon(d["rv"])
            if d["same"] and not d["eq"]:
                s.viol("C13:equality:identical-values-compare-unequal", "operator== is false for a re-parsed value whose rendering is identical", det())
            judge_dump_text(s, text, v, mode, det, True, iv, None)
        else:
            judge_dump_text(s, text, v, mode, det, False, None, d.get("msg"))


def shard_values(binary, seed, idx, count, tmp):
    rng = random.Random((seed << 20) ^ (idx * 104729 + 2))
    s = SH.S()
    cases = []
    for i in range(count):
        v, feats = G.gen_top_value(rng)
        cases.append((v, feats))
    lines = ["V " + G.value_tokens(v) for v, _ in cases]
    recs, events = SH.run_cases(binary, lines, tmp, f"values{idx}")
    for i, (v, feats) in enumerate(cases):
        rec = recs.get(i)
        if rec is None:
            continue
        judge_value(s, rec, v, lines[i])
        for f in feats:
            s.obs("value_feature:" + f)
        s.case(sig=["value", feats], sample=dict(kind="value", tokens=lines[i][:200]))
    finish_shard(s, binary, tmp, f"values{idx}", lines, events, [], lambda k: "value")
    return s.d


def shard_mutants(binary, seed, idx, count, tmp):
    rng = random.Random((seed << 20) ^ (idx * 15485863 + 3))
    s = SH.S()
    seeds = [G.gen_text(rng)[0] for _ in range(150)]
    seeds += [b'"\\u0041\\ud83d\\ude00"', b'{"a":[1,2.5e3,"x\\n"],"b":{"c":null}}', b"[]", b"{}", b'""', b"0", b'["\\u00e9"]']
    cases = []
    for i in range(count):
        data, mut = G.mutate(rng, seeds)
        lim = G.DEFAULT_LIMITS if rng.random() < 0.6 else rng.choice(G.SMALL_LIMITS)
        cases.append((data, lim, mut))
    lines = [p_line(lim, data) for data, lim, _ in cases]
    recs, events = SH.run_cases(binary, lines, tmp, f"mut{idx}")
    slow = []
    for i, (data, lim, mut) in enumerate(cases):
        rec = recs.get(i)
        if rec is None:
            continue
        res = judge_parse(s, rec, data, lim, "mutant:" + mut, (), slow, lines[i])
        outcome, rel = res if isinstance(res, tuple) else (res, None)
        s.obs("mutator:" + mut)
        msg = slug(rec.get("msg", "")) if rec["ok"] == 0 else ""
        s.case(sig=["mutant", mut, outcome, msg, lim != G.DEFAULT_LIMITS],
               sample=dict(kind="mutant", mutator=mut, input_hex=data[:120].hex(), outcome=outcome))
    finish_shard(s, binary, tmp, f"mut{idx}", lines, events, slow, lambda k: "mutant:" + cases[k][2] if k < len(cases) else "?")
    return s.d


def shard_default_limits(binary, seed, idx, count, tmp):
    """boundary cases of the *default* ParseLimits (large texts: few of them)"""
    rng = random.Random((seed << 20) ^ 0x5151 ^ idx)
    s = SH.S()
    lim = G.DEFAULT_LIMITS
    cases = []
    for which, deltas in (("depth", (-1, 0, 1, 2, 50)), ("array", (-1, 0, 1)), ("members", (0, 1)), ("members-dup", (1,)), ("string", (-1, 0, 1, 2))):
        for dl in deltas:
            for rep in range(count):
                c = G.gen_limit_case(rng, lim, which, dl, plain=(which == "string" and rep % 2 == 0))
                if c:
                    cases.append((c[0], lim, "default-limit:" + c[1]))
    lines = [p_line(lim, data) for data, lim, _ in cases]
    recs, events = SH.run_cases(binary, lines, tmp, f"deflim{idx}")
    slow = []
    for i, (data, lim, cls) in enumerate(cases):
        rec = recs.get(i)
        if rec is None:
            continue
        res = judge_parse(s, rec, data, lim, cls, (), slow, lines[i])
        outcome, rel = res if isinstance(res, tuple) else (res, None)
        s.case(sig=["default-limit", cls, outcome], sample=None)
        s.obs("default_limit_cases")
    finish_shard(s, binary, tmp, f"deflim{idx}", lines, events, slow, lambda k: cases[k][2] if k < len(cases) else "?")
    return s.d


def shard_big(binary, seed, idx, sizes, tmp):
    """pathological families at growing sizes: the linear-cost guard and the stuck-case watchdog"""
    rng = random.Random(seed)
    s = SH.S()
    fam = G.big_inputs(rng, sizes)
    roomy = (10 ** 9, 10 ** 9, 100, 10 ** 9)
    cases = [(data, roomy if name in ("array-of-ones", "array-of-empties", "long-string", "multibyte-string", "dup-keys", "many-strings",
                                      "backslashes", "u-escapes") else G.DEFAULT_LIMITS, "big:" + name) for name, n, data in fam]
    lines = [p_line(lim, data) for data, lim, _ in cases]
    recs, events = SH.run_cases(binary, lines, tmp, f"big{idx}", timeout=1200)
    slow = []
    for i, (data, lim, cls) in enumerate(cases):
        rec = recs.get(i)
        if rec is None:
            continue
        # the canonical rendering of a 4 MiB array is not needed here: judge robustness + cost only
        n = len(data)
        s.obs("big_inputs")
        s.obs_max("big_input_max_bytes", n)
        if rec["ok"] == 0 and rec["off"] > n:
            s.viol("C13:error-offset-outside-input", f"error offset {rec['off']} outside the {n}-byte input ({cls})", dict(input_class=cls, n=n))
        if rec["ok"] == -1:
            s.viol("C13:parse:unexpected-exception", f"parse threw {rec.get('exc')} ({cls})", dict(input_class=cls, n=n))
        if rec["cpu"] > CPU_C0_NS + CPU_PER_BYTE_NS * n:
            slow.append((lines[i], cls, n, rec["cpu"]))
        s.obs_max("big_input_ns_per_byte_x1000", int(rec["cpu"] * 1000 / n))
        s.case(sig=["big", cls, n, rec["ok"]], sample=None)
    finish_shard(s, binary, tmp, f"big{idx}", lines, events, slow, lambda k: cases[k][2] if k < len(cases) else "?")
    return s.d


# JsonFileStore round trip ---------------------------------------------------------------------------
def shard_store(binary, seed, idx, count, tmp):
    rng = random.Random((seed << 20) ^ (idx * 32452843 + 5))
    s = SH.S()
    cases = []
    for i in range(count):
        store = {}
        toks = []
        nops = rng.randrange(1, 9)
        keys = [G.rand_utf8(rng, rng.choice([1, 1, 2, 3, 8])) for _ in range(rng.randrange(1, 5))] + [b"k", b""]
        for _ in range(nops):
            r = rng.random()
            key = rng.choice(keys)
            if r < 0.12 and store:
                toks += ["R", "s" + key.hex()]
                store.pop(key, None)
            elif r < 0.2:
                toks.append("FLUSH")
            else:
                while True:
                    v = G.gen_value(rng, 0, rng.choice([0, 1, 2, 3]), 4)
                    if v is not None:
                        break
                how = "j"
                if rng.random() < 0.5:
                    how = {bool: "b"}.get(type(v), None) or {"i": "l", "d": "g", "s": "x"}.get(v[0] if isinstance(v, tuple) else "", "j")
                toks += ["S", how, "s" + key.hex(), G.value_tokens(v)]
                store[key] = v
        if not any(t == "S" for t in toks):
            v = ("d", G.dbits(G.special_double(rng)))
            toks += ["S", "g", "s6b", G.value_tokens(v)]
            store[b"k"] = v
        gets = []
        for key in keys + [b"absent-key"]:
            v = store.get(key)
            if v is None:
                ty = rng.choice(["b", "l", "g", "x", "A", "O"])
            elif v is True or v is False:
                ty = "b"
            else:
                ty = {"i": "l", "d": "g", "s": rng.choice(["x", "X"]), "a": "A", "o": "O"}[v[0]]
            toks += ["G", ty, "s" + key.hex()]
            gets.append((key, ty, v))
        cases.append((store, gets, "F " + " ".join(toks)))
    lines = [c[2] for c in cases]
    recs, events = SH.run_cases(binary, lines, tmp, f"store{idx}")
    for i, (store, gets, line) in enumerate(cases):
        rec = recs.get(i)
        if rec is None:
            continue
        det = lambda **kw: dict(case=line[:20000], **kw)
        s.obs("store_roundtrips")
        if "exc" in rec:
            s.viol("C13:store:exception", f"JsonFileStore round trip threw {rec['exc']}", det())
            continue
        filebytes = bytes.fromhex(rec["file"])
        expected = ("o", dict(store))
        fileval = None
        try:
            fileval, _m = R.ref_decode(filebytes)
        except R.RefReject as e:
            s.viol("C13:dump:pretty:invalid-json", f"JsonFileStore wrote a file the reference decoder rejects: {e}", det(file=filebytes[:400].decode("utf-8", "replace")))
        except R.RefUnjudgeable:
            pass
        if fileval is not None:
            diff = R.first_diff(expected, fileval)
            if diff:
                s.viol(dump_diff_key(diff), f"JsonFileStore file denotes a different value at {diff[0]}: {diff[1]} stored {R.show(diff[2], 80)} file says {R.show(diff[3], 80)}",
                       det(path=diff[0], stored=R.show(diff[2]), file_says=R.show(diff[3])))
            else:
                s.obs("store_files_denote_stored_values")
        got = rec["got"]
        allok = True
        for (key, ty, v), g in zip(gets, got):
            gv = R.from_canon(g) if g is not None else None
            if v is None:
                if g is not None:
                    allok = False
                    # the reference does not find the key in the file either: iora's parser produced it while reloading
                    # (a member name written as \u00XX read back as '?'), otherwise the store API is at fault
                    misread = fileval is not None and fileval[0] == "o" and key not in fileval[1] and b"\\u" in filebytes
                    s.viol("C13:parse:unicode-escape:wrong-code-point" if misread else "C13:store:get:absent-key-returned-value",
                           f"get of key {key!r}, never stored (or removed), returned {R.show(gv, 60)} after reopen", det(key=key.hex()))
                continue
            # what the reference reads from the file for this key = what a correct reload must return
            filev = fileval[1].get(key) if fileval is not None and fileval[0] == "o" else None
            if filev is None and fileval is not None:
                continue        # already reported as a file difference (members-differ)
            want = filev if filev is not None else v
            if g is None:
                allok = False
                if fileval is not None and R.first_diff(v, want) is None:
                    # file is right, reload lost the key or changed its type: iora's parser misread its own file
                    k2 = "C13:parse:unicode-escape:wrong-code-point" if b"\\u" in filebytes else "C13:store:get:stored-key-unreadable"
                    s.viol(k2, f"value stored under key {key!r} cannot be read back after reopen (typed get returned nothing)", det(key=key.hex()))
                continue
            d2 = R.first_diff(want, gv)
            if d2:
                allok = False
                s.viol(parse_diff_key(d2, filebytes), f"JsonFileStore reload reads key {key!r} differently from the reference's reading of the file at {d2[0]}: {d2[1]}",
                       det(key=key.hex(), expected=R.show(d2[2]), got=R.show(d2[3])))
        if allok:
            s.obs("store_reloads_equal")
        s.case(sig=["store", sorted(set(t for _, t, v in gets if v is not None)), len(store)], sample=dict(kind="store", ops=line[:200]))
    finish_shard(s, binary, tmp, f"store{idx}", lines, events, [], lambda k: "store")
    return s.d


# libFuzzer (thorough) ---------------------------------------------------------------------------
def run_fuzz(ctx, runs_per_job, jobs):
    fb = vf.build("c13_json", "fuzz", FUZZ_FLAGS)
    d = os.path.join(ctx.tmp, "fuzz")
    corpus = os.path.join(d, "corpus")
    os.makedirs(corpus, exist_ok=True)
    rng = random.Random(ctx.seed ^ 0xF022)
    for i in range(300):
        data = G.gen_text(rng)[0] if i % 3 else G.mutate(rng, [G.gen_text(rng)[0]])[0]
        with open(os.path.join(corpus, "s%04d" % i), "wb") as fh:
            fh.write(data[:4096])
    with open(os.path.join(d, "json.dict"), "w") as fh:
        for t in ['"\\\\u"', '"\\\\ud83d\\\\ude00"', '"\\\\u0000"', '"null"', '"true"', '"false"', '"1e"', '"-0"', '"[["', '"{\\"a\\":"', '"\\\\\\""']:
            fh.write(t + "\n")
    env = {"VF_FUZZ_VIOL": os.path.join(d, "viol")}
    workers = min(jobs, vf.NCPU)
    args = [f"-runs={runs_per_job}", f"-jobs={jobs}", f"-workers={workers}", "-max_len=1024", f"-seed={ctx.seed}",
            f"-artifact_prefix={d}/artifact-", "-print_final_stats=1", "-timeout=25", "-rss_limit_mb=2048",
            f"-dict={d}/json.dict", corpus]
    rr = vf.run_harness(fb, args, timeout=3000, env_extra=env, cwd=d, parse_stdout=False)
    ctx.flavors.add("fuzz")
    execs = 0
    logs = ""
    for f in sorted(os.listdir(d)):
        if f.startswith("fuzz-") and f.endswith(".log"):
            with open(os.path.join(d, f), "r", errors="replace") as fh:
                t = fh.read()
            logs += t
            for m in re.finditer(r"stat::number_of_executed_units:\s*(\d+)", t):
                execs += int(m.group(1))
    ctx.obs("fuzz_executions", execs)
    ctx.evaluations += execs
    for rep in vf.parse_sanitizer(logs + "\n" + rr.err):
        ctx.san_reports += 1
        ctx.violation(f"C13:san:{rep['key']}", f"sanitizer report {rep['key']} under libFuzzer", dict(text=rep["text"][:4000], artifacts=[a for a in os.listdir(d) if a.startswith("artifact-")][:5]))
    for f in os.listdir(d):
        if f.startswith("viol."):
            with open(os.path.join(d, f)) as fh:
                for ln in fh:
                    try:
                        r = json.loads(ln)
                    except ValueError:
                        continue
                    ctx.violation(r["key"], "libFuzzer in-process assertion: " + r["what"], r.get("detail"))
    if rr.timed_out:
        ctx.inconcl("libFuzzer run hit the outer watchdog")
    if execs == 0:
        ctx.inconcl("libFuzzer executed nothing: " + (rr.err[-300:] or logs[-300:]))


# ------------------------------------------------------------------------------- entry points
def run(ctx):
    thorough = ctx.tier == "thorough"
    binary = vf.build("c13_json", "asan", ASAN_FLAGS)
    if thorough:
        vf.build("c13_json", "fuzz", FUZZ_FLAGS)
    scale = int(os.environ.get("VF_THOROUGH_SCALE", "20")) if thorough else 1      # thorough = quick counts x20 by default (x100 measured at 60-70 min on the shared machine; VF_THOROUGH_SCALE overrides) + libFuzzer
    n_texts, n_values, n_mut, n_store = 20000 * scale, 20000 * scale, 50000 * scale, 400 * (10 if thorough else 1)
    per = 5000 if not thorough else 20000
    jobs = []
    k = 0
    for off in range(0, n_texts, per):
        jobs.append((shard_texts, dict(binary=binary, seed=ctx.seed, idx=k, count=min(per, n_texts - off), tmp=ctx.tmp))); k += 1
    for off in range(0, n_values, per):
        jobs.append((shard_values, dict(binary=binary, seed=ctx.seed, idx=k, count=min(per, n_values - off), tmp=ctx.tmp))); k += 1
    mper = per * 2
    for off in range(0, n_mut, mper):
        jobs.append((shard_mutants, dict(binary=binary, seed=ctx.seed, idx=k, count=min(mper, n_mut - off), tmp=ctx.tmp))); k += 1
    for off in range(0, n_store, 400):
        jobs.append((shard_store, dict(binary=binary, seed=ctx.seed, idx=k, count=min(400, n_store - off), tmp=ctx.tmp))); k += 1
    jobs.append((shard_default_limits, dict(binary=binary, seed=ctx.seed, idx=k, count=4 if thorough else 1, tmp=ctx.tmp))); k += 1
    sizes = [1 << 14, 1 << 16, 1 << 18] + ([1 << 20, 1 << 22] if thorough else [])
    jobs.insert(0, (shard_big, dict(binary=binary, seed=ctx.seed, idx=k, sizes=sizes, tmp=ctx.tmp))); k += 1
    summaries = SH.run_pool(jobs)
    SH.merge(ctx, summaries)
    if thorough:
        run_fuzz(ctx, 150000, 16)        # bounded by executions (-runs), not by time
    ctx.rule = ("texts = grammar-based RFC 8259 generator (every escape form incl. \\uXXXX with mixed-case hex and surrogate pairs, 20 number forms, "
                "whitespace, duplicate keys incl. escaped aliases, limit cases at -1/0/+1/+2 of each ParseLimits field under 8 limit sets + the defaults); "
                "values = typed trees (finite doubles incl. subnormals/+-0/1e+-308/17-digit, int64 boundaries, UTF-8 strings with control characters) dumped in 5 modes; "
                "mutants = 16 byte-level mutators over valid texts; store = JsonFileStore set/remove/flush/reopen/typed get. "
                "distinct = hash of (kind, syntactic features used, relation of each metric to its limit) resp. (mutator, outcome, iora's error message)")
    ctx.assumptions = [
        "Python's json module (strict mode, NaN/Infinity literals refused) is a correct RFC 8259 decoder; float() and strtod are both correctly rounded",
        "duplicate keys: the last member wins (what iora's map-based object does and what the reference does)",
        "limit semantics taken from iora's documentation of ParseLimits: value depth counted from 0 at the top-level value, string length in decoded UTF-8 bytes, "
        "members counted as stored (distinct) keys for the must-reject side and as written members for the must-accept side",
        "texts the reference rejects but iora accepts (raw control characters, \\v/\\f as whitespace, invalid UTF-8) are counted, not judged: the property only bounds behaviour on them",
        "cost guard is thread CPU time (no hardware instruction counter in this VM): >30 ms + 3 us/byte, reproduced as best-of-3 in isolation",
    ]
    ctx.require_obs("parses", "accepted", "rejected", "agree_with_reference", "texts_with_u_escape", "texts_with_surrogate_pair",
                    "texts_with_duplicate_keys", "limit_depth_exact", "limit_depth_plus1", "limit_array_exact", "limit_array_plus1",
                    "limit_members_exact", "limit_members_plus1", "limit_string_exact", "limit_string_plus1", "dumps", "dumps_valid_json",
                    "sorted_dumps_in_order", "store_roundtrips", "big_inputs", "default_limit_cases", "mutator:truncate-in-escape",
                    "mutator:nesting-bomb", "mutator:bitflip", "beyond_limit_rejected")
    if thorough:
        ctx.require_obs("fuzz_executions")


def replay(ctx, path):
    """re-run the stored case line of a violation through the same judge"""
    with open(path) as fh:
        rep = json.load(fh)
    det = (rep.get("first") or {}).get("detail") or {}
    line = det.get("case")
    if not line:
        ctx.inconcl("replay file carries no case line")
        return
    binary = vf.build("c13_json", "asan", ASAN_FLAGS)
    s = SH.S()
    recs, events = SH.run_cases(binary, [line], ctx.tmp, "replay")
    kind = line[0]
    if kind == "P" and 0 in recs:
        _, lim, hx = line.split(" ", 2)
        judge_parse(s, recs[0], bytes.fromhex(hx), tuple(int(x) for x in lim.split(",")), det.get("input_class", "replay"), (), [], line)
    elif kind == "V" and 0 in recs:
        v, _ = G.parse_value_tokens(line[1:].split())
        judge_value(s, recs[0], v, line)
    elif 0 in recs:
        print(json.dumps(recs[0])[:4000])
    SH.handle_events(s, PROP, events, [line], lambda k: "replay")
    s.case(sig="replay")
    SH.merge(ctx, [s.d])
