# C11 — crash recovery of KVStore and JsonFileStore (fault enumeration over recorded file operations)
#
# per history:  c11_crash --mode record  -> trace of every file operation the real store issued (fileio shim),
#                                           call log with per-call operation boundaries
#               c11_crash --mode judge   -> every operation boundary + byte cuts inside writes, each image
#                                           recovered by a fresh store in a forked child, then continued,
#                                           closed cleanly and reopened (thorough: the continuation is
#                                           crashed again)
#               lib/c11_oracle.py        -> admissible-state oracle (Python, no iora code), own process
import json, os, shutil, subprocess, sys
import vf

LEVEL = "fault_enumeration"
BUILDS = [("c11_crash", "asan"), ("c11_crash", "plain")]   # quick: asan; thorough: plain (every byte) + asan (chosen cuts).
# The judge forks one single-purpose child per crash image, so a TSan flavor would add nothing here.
ORACLE = os.path.join(vf.VERIF, "lib", "c11_oracle.py")
T0_MS = 2000000000000   # harness constant: the instant every recorded history runs at

KV_MAXLOG = [300, 700, 1500, 4000]
SIZE_HIST_BASE = 1000   # kv history indices >= this are the boundary-size histories


def _params(tier):
    """passes: each history is recorded and judged once per pass (flavor + cut selection)."""
    if tier == "thorough":
        # ASan makes each forked child ~5x dearer (13 ms vs 2.7 ms per image, mostly kernel time for
        # fork/exit of the instrumented address space), so the every-byte enumeration runs in the plain
        # flavor and the sanitizer flavor re-judges the same histories at the structurally chosen cuts.
        return dict(kv_hist=int(os.environ.get("VF_C11_KV_HIST", "280")), kv_nops=24,
                    kv_size_hist=int(os.environ.get("VF_C11_SIZE_HIST", "12")),
                    js_hist=int(os.environ.get("VF_C11_JSON_HIST", "64")), js_nops=18, cont=5, judge_timeout=5400,
                    passes=[dict(flavor="plain", cuts="full", maxfull=256, maxfull_json=1024, cap=24, levels=2, l2every=6, l2cuts=3,
                                 tcap=8, tbyte=60),
                            dict(flavor="asan", cuts="quick", maxfull=0, maxfull_json=0, cap=8, levels=2, l2every=4, l2cuts=2,
                                 tcap=12, tbyte=333)])
    return dict(kv_hist=int(os.environ.get("VF_C11_KV_HIST", "40")), kv_nops=22,
                kv_size_hist=int(os.environ.get("VF_C11_SIZE_HIST", "4")),
                js_hist=int(os.environ.get("VF_C11_JSON_HIST", "12")), js_nops=16, cont=4, judge_timeout=1500,
                passes=[dict(flavor="asan", cuts="quick", maxfull=0, maxfull_json=0, cap=8, levels=1, l2every=1, l2cuts=0,
                             tcap=int(os.environ.get("VF_C11_TCAP", "10")), tbyte=333)])


def _hist_cfg(store, hist):
    """per-history configuration (deterministic in the history index)"""
    if store == "json":
        return dict(variant=0, maxlog=0, empty=0, sizes=0)
    if hist >= SIZE_HIST_BASE:
        # boundary-size histories: keys of 1/255/256/65534/65535 bytes (+ a refused 65536-byte one), values of
        # 0/1/255/256/65535/65536 bytes and ~300 KiB; log limit chosen so inline compaction moves the 64 KiB keys
        # into the snapshot every few writes (1 history in 4: library defaults, explicit compact() only)
        return dict(variant=1 if hist % 4 == 3 else 0, maxlog=[70000, 140000, 200000][hist % 3], empty=1, sizes=1)
    variant = 1 if hist % 4 == 3 else 0            # 3 of 4 histories: compaction runs inside API calls
    # empty values: every history (they were confined to 1 history in 8 while KVStore::load() still called
    # memcpy(nullptr, p, 0) for them, a fatal UBSan report in this flavor; fixed in /repo 3914c93)
    return dict(variant=variant, maxlog=KV_MAXLOG[(hist // 4 + hist) % len(KV_MAXLOG)], empty=1, sizes=0)


def _run_oracle(logp, obsp, outp, final=False):
    cmd = [sys.executable, ORACLE, logp, obsp, outp] + (["--final"] if final else [])
    r = subprocess.run(cmd, capture_output=True, text=True)
    recs = []
    if r.returncode != 0 or not os.path.exists(outp):
        return None, f"oracle failed rc={r.returncode}: {r.stderr[-600:]}"
    with open(outp) as fh:
        for line in fh:
            line = line.strip()
            if line:
                recs.append(json.loads(line))
    return recs, None


def _judge_args(store, seed, hist, cfg, P, ps, d, only=None, only_r=None):
    # per-child watchdog; VF_C11_CHILD_TIMEOUT_MS exists to exercise the hung-child path (first pass only:
    # the isolated re-run of a "hung" image always gets the full 60 s)
    wd = 60000 if only else int(os.environ.get("VF_C11_CHILD_TIMEOUT_MS", "30000"))
    a = ["--mode", "judge", "--store", store, "--seed", seed, "--hist", hist, "--variant", cfg["variant"],
         "--maxlog", cfg["maxlog"], "--empty", cfg["empty"], "--sizes", cfg["sizes"], "--dir", d, "--trace", os.path.join(d, "trace"),
         "--cuts", "quick" if cfg["sizes"] else ps["cuts"],
         "--maxfull", ps["maxfull_json"] if store == "json" else ps["maxfull"], "--cap", 4 if cfg["sizes"] else ps["cap"],
         "--cont", P["cont"], "--levels", ps["levels"], "--l2every", ps["l2every"], "--l2cuts", ps["l2cuts"],
         "--tcap", 3 if cfg["sizes"] else ps["tcap"], "--tbyte", 100 if cfg["sizes"] else ps["tbyte"], "--timeout-ms", wd]
    if only:
        a += ["--only", only, "--levels", 2 if only.count(":") == 3 else 1]
        a += ["--only-r", only_r if only_r is not None else T0_MS]
    return a


def _history(ctx, binary, store, hist, P, ps, only=None, keep=False, only_r=None):
    """-> dict(rrs=[RunResult], recs=[oracle records], bad=[str], summary=dict)"""
    res = dict(rrs=[], recs=[], bad=[], summary=None)
    cfg = _hist_cfg(store, hist)
    d = os.path.join(ctx.tmp, f"{store}-{hist}-{ps['flavor']}" + ("-only" if only else ""))
    os.makedirs(d, exist_ok=True)
    try:
        nops = (12 if cfg["sizes"] else P["kv_nops"]) if store == "kv" else P["js_nops"]
        out1 = os.path.join(d, "rec.jsonl")
        logp = os.path.join(d, "log.json")
        rr = vf.run_harness(binary, ["--mode", "record", "--store", store, "--seed", ctx.seed, "--hist", hist, "--nops", nops,
                                     "--variant", cfg["variant"], "--maxlog", cfg["maxlog"], "--empty", cfg["empty"],
                                     "--sizes", cfg["sizes"],
                                     "--dir", os.path.join(d, "rec"),
                                     "--trace", os.path.join(d, "trace"), "--log", logp, "--out", out1],
                            timeout=600, out_file=out1)
        res["rrs"].append(rr)
        if rr.rc == 86 and rr.san_reports:
            # the recorded run itself was stopped by a sanitizer report (ingested as a violation by _fold)
            res["recs"].append(dict(t="obs", name=f"{store}_histories_stopped_by_sanitizer_while_recording", n=1))
            return res
        if rr.timed_out or rr.rc != 0 or not os.path.exists(logp):
            res["bad"].append(f"record {store} hist={hist} rc={rr.rc} timed_out={rr.timed_out} stderr={rr.err[-300:]}")
            return res
        out2 = os.path.join(d, "judge.jsonl")
        obsp = os.path.join(d, "obs.jsonl")
        rr2 = vf.run_harness(binary, _judge_args(store, ctx.seed, hist, cfg, P, ps, d, only, only_r) + ["--obs", obsp, "--out", out2],
                             timeout=P["judge_timeout"], out_file=out2)
        res["rrs"].append(rr2)
        if rr2.timed_out or rr2.rc != 0:
            res["bad"].append(f"judge {store} hist={hist} rc={rr2.rc} timed_out={rr2.timed_out} stderr={rr2.err[-300:]}")
        if not os.path.exists(obsp):
            return res
        recs, err = _run_oracle(logp, obsp, os.path.join(d, "oracle.jsonl"))
        if err:
            res["bad"].append(f"{store} hist={hist}: {err}")
            return res
        # watchdog fired in a child: re-run exactly that image once, in isolation; only a reproduced hang counts
        retries = [r for r in recs if r.get("t") == "retry"]
        sanexits = [r for r in recs if r.get("t") == "sanexit"]
        recs = [r for r in recs if r.get("t") not in ("retry", "sanexit")]
        if sanexits and not rr2.san_reports:
            recs.append(dict(t="viol", key=f"C11:{store}:child-stopped-by-sanitizer-without-captured-report",
                             what=f"{len(sanexits)} children exited with the sanitizer exit code but no report was parsed from stderr",
                             detail=dict(store=store, seed=ctx.seed, hist=hist, first=sanexits[0], stderr=rr2.err[-1500:])))
        for rt in retries[:4]:
            o = f"{rt['k']}:{rt['b']}" + (f":{rt['k2']}:{rt['b2']}" if "k2" in rt else "")
            obs2 = os.path.join(d, "obs-retry.jsonl")
            rr3 = vf.run_harness(binary, _judge_args(store, ctx.seed, hist, cfg, P, ps, d, o, rt.get("R")) + ["--obs", obs2, "--out", os.path.join(d, "j3.jsonl")],
                                 timeout=600, out_file=os.path.join(d, "j3.jsonl"))
            rr3.records = []  # counters of the re-run are not evidence
            res["rrs"].append(rr3)
            r2, err = _run_oracle(logp, obs2, os.path.join(d, "oracle-retry.jsonl"), final=True)
            if err:
                res["bad"].append(f"{store} hist={hist} retry {o}: {err}")
            else:
                want = [int(x) for x in o.split(":")]
                for r in r2:
                    if r.get("t") == "viol":
                        dd = r.get("detail") or {}
                        got = [dd.get("k"), dd.get("b")] + ([dd.get("k2"), dd.get("b2")] if len(want) == 4 else [])
                        if got == want and len(want) == (4 if "k2" in dd else 2) and dd.get("R") == rt.get("R"):
                            recs.append(r)
        if len(retries) > 4:
            res["bad"].append(f"{store} hist={hist}: {len(retries)} children hit the watchdog")
        if any(r.get("t") == "judge" and r.get("stopped_early") for r in rr2.records):
            res["bad"].append(f"{store} hist={hist}: enumeration stopped after {len(retries)} children hit the watchdog")
        for r in recs:
            if r.get("t") == "viol" and isinstance(r.get("detail"), dict):
                r["detail"]["flavor"] = ps["flavor"]
        res["recs"] = recs
        with open(logp) as fh:
            lg = json.load(fh)
        j = [r for r in rr2.records if r.get("t") == "judge"]
        if j:
            j = j[0]
            res["summary"] = dict(store=store, hist=hist, boundary_sizes=bool(cfg["sizes"]), flavor=ps["flavor"], cuts=("quick" if cfg["sizes"] else ps["cuts"]), variant=cfg["variant"], maxlog=cfg["maxlog"],
                                  calls=len(lg["calls"]), file_ops=j["ops"], writes=j["writes"],
                                  every_operation_boundary=True,
                                  writes_cut_at_every_byte=j["writes_full"],
                                  byte_cut_images=j["byte_images"], images=j["images"], images_level2=j["images2"],
                                  recoveries_at_deadline_instants=j.get("time_variants", 0),
                                  exhaustive_bytes=(j["writes_full"] == j["writes"]))
        if keep:
            res["dir"] = d
        return res
    finally:
        if not keep:
            shutil.rmtree(d, ignore_errors=True)


def _fold(ctx, res):
    for rr in res["rrs"]:
        ctx.ingest(rr, where="(c11_crash)")
    for r in res["recs"]:
        t = r.get("t")
        if t == "viol":
            ctx.violation(r["key"], r["what"], r.get("detail"))
        elif t == "obs":
            ctx.obs(r["name"], r.get("n", 1))
        elif t == "case":
            ctx.case(r.get("sig"), r.get("sample"), r.get("n", 1))
        elif t == "sigs":
            ctx.evaluations += r.get("n", 0)
            ctx.add_sigs(r.get("list", []))
        elif t == "inconclusive":
            ctx.inconcl(r.get("what", ""))
    for b in res["bad"]:
        ctx.inconcl(b)


def run(ctx):
    P = _params(ctx.tier)
    bins = vf.build_many([("c11_crash", ps["flavor"]) for ps in P["passes"]])
    jobs = []
    for ps in P["passes"]:
        b = bins[("c11_crash", ps["flavor"])]
        js = [lambda h=h, b=b, ps=ps: _history(ctx, b, "kv", SIZE_HIST_BASE + h, P, ps) for h in range(P["kv_size_hist"])] + \
             [lambda h=h, b=b, ps=ps: _history(ctx, b, "kv", h, P, ps) for h in range(P["kv_hist"])] + \
             [lambda h=h, b=b, ps=ps: _history(ctx, b, "json", h, P, ps) for h in range(P["js_hist"])]
        jobs += js[::2] + js[1::2]   # interleave the two stores
    summaries = []
    for res in vf.run_many(ctx, jobs):
        _fold(ctx, res)
        if res["summary"]:
            summaries.append(res["summary"])
    summaries.sort(key=lambda s: (s["flavor"], s["store"], s["hist"]))
    ctx.extra["histories"] = summaries if len(summaries) <= 80 else summaries[:40] + summaries[-40:]
    ctx.extra["histories_total"] = len(summaries)
    ctx.extra["histories_with_every_byte_of_every_write_cut"] = sum(1 for s in summaries if s["exhaustive_bytes"])
    ctx.extra["images_total"] = sum(s["images"] + s["images_level2"] for s in summaries)
    ctx.extra["tier_parameters"] = {k: v for k, v in P.items()}
    # per history: every operation boundary is always enumerated; every byte offset of every write only in the
    # "full" pass and only for writes <= maxfull bytes (larger ones: structure boundaries + random offsets),
    # so the run as a whole is exhaustive only if no history contained a larger write
    full = [s for s in summaries if s["cuts"] == "full"]
    ctx.exhaustive = bool(full) and all(s["exhaustive_bytes"] for s in full)
    ctx.rule = ("one evaluation = one (crash image, time of recovery) pair: trace prefix up to operation k, byte b, recovered at instant R by a fresh store in a child "
                "process, compared with the admissible set, then continued, closed cleanly, reopened and compared again; "
                "distinct = hash of (store, level, cut-class lineage, in-flight call kind, which admissible state was recovered "
                "(exact/old/new/mixed), byte-cut class, continuation compacted?, #keys bucket, recovery ok?, continuation ok?)")
    ctx.assumptions = [
        "process-crash model: every byte handed to write()/writev() and every completed rename/truncate/open(O_TRUNC) survives, nothing later does; "
        "a write cut at byte b leaves exactly its first b bytes",
        "fsync()/fdatasync() on store files are recorded but not executed (no effect on any image in this model)",
        "a call counts as returned as soon as all file operations it issued are in the image (the strictest reading: that crash instant exists)",
        "wall clock exactly frozen per process (the harness defines std::chrono::system_clock::now()): history at T0, each recovery at its "
        "own instant R >= T0 (T0, or 1 ms before / at / 1 ms after a deadline of the history, or a day after the last); deadlines are "
        ">= 20000 s after the instant they are set at, so no key expires *during* a process and no eviction record is written asynchronously",
        "expired iff deadline <= now (iora's documented rule); a key whose acknowledged deadline is <= R must be absent after recovery at R",
        "no background activity issues file operations during a case (background compaction interval 30 s, JSON background flush 1 h, no TTL fires)",
        "forked children run the TTL wheel at a 10 ms tick (wall time only)",
    ]
    ctx.require_obs("replay_selfcheck_ok", "kv_images_judged", "kv_class:boundary", "kv_class:cut-in-log-append",
                    "kv_class:compact:cut-in-snapshot-write", "kv_class:compact:between-rename-and-truncate",
                    "kv_class:between-log-appends", "kv_recovered_old", "kv_recovered_new", "kv_continuations_checked",
                    "kv_continuations_with_compaction", "kv_recovered_at_a_deadline_instant",
                    "kv_recovered_with_some_acknowledged_deadline_passed",
                    "kv_expiry_change_after_compaction_recovered_after_old_deadline",
                    "kv_images_with_65535_byte_key_in_snapshot", "kv_images_with_65534_byte_key_in_snapshot",
                    "kv_images_with_256_byte_key_in_snapshot", "kv_images_with_1_byte_key_in_snapshot",
                    "kv_oversize_key_refused", "json_images_judged", "json_class:cut-in-flush",
                    "json_continuations_checked")


def replay(ctx, path):
    """./check C11 --replay replays/C11-xxxx.json : re-record that history and judge exactly that image."""
    with open(path) as fh:
        rp = json.load(fh)
    d = (rp.get("first") or {}).get("detail") or {}
    if "hist" not in d:
        raise vf.HarnessFailure("replay file carries no history coordinates")
    ctx.seed = d.get("seed", rp.get("seed", ctx.seed))
    P = _params(rp.get("tier", ctx.tier))
    flavor = d.get("flavor", "asan")
    ps = [x for x in P["passes"] if x["flavor"] == flavor] or P["passes"]
    binary = vf.build("c11_crash", ps[0]["flavor"])
    only = f"{d['k']}:{d['b']}" + (f":{d['k2']}:{d['b2']}" if "k2" in d else "")
    res = _history(ctx, binary, d["store"], d["hist"], P, ps[0], only=only, only_r=d.get("R"))
    _fold(ctx, res)
    ctx.rule = f"replay of {d['store']} history {d['hist']} (seed {ctx.seed}) cut at {only}"
