# C17 — the HTTP client transmits a non-idempotent request at most once; idempotent <= budget+1
# attempts; framing errors never retried; a tainted connection is never reused; silent peers cost
# at most the configured timeout.  Enumerated fault injection against the real HttpClient with a
# scripted raw-socket server as the observer (harness/c17_httpclient.cpp); rules in lib/c17_judge.py.
import json, os, random, time
from collections import Counter
import vf
import c17_cases as cc
from c17_cases import Fault, Req, Case, OK, seq, STOPS
import c17_judge

LEVEL = "fault_enumeration"
HARNESS = "c17_httpclient"
BUILDS = [(HARNESS, "plain"), (HARNESS, "asan"), (HARNESS, "tsan")]   # quick: plain; thorough: all three
TIMING_RERUNS = 3


# ------------------------------------------------------------------------------ running
def _run_batch(ctx, binary, cases, tag):
    """Run cases in one harness process; if the process stops early (watchdog on a case that never
    returns) resume with the remaining cases. Returns ({id: record}, [harness problems], [RunResult])."""
    recs, problems, rrs = {}, [], []
    todo = list(cases)
    rounds = 0
    while todo and rounds < 4:
        rounds += 1
        base = os.path.join(ctx.tmp, "%s-%d" % (tag, rounds))
        with open(base + ".cases", "w") as fh:
            fh.write("\n".join(c.render() for c in todo) + "\n")
        budget = 900 + sum(c.cost() for c in todo) * 20
        rr = vf.run_harness(binary, ["--cases", base + ".cases", "--out", base + ".jsonl"], timeout=budget,
                            out_file=base + ".jsonl")
        rrs.append(rr)
        got = 0
        begun = None
        for r in rr.records:
            if r.get("t") == "c17begin":
                begun = r["id"]
            elif r.get("t") == "c17case":
                recs[r["id"]] = r
                got += 1
                if begun == r["id"]:
                    begun = None
        if begun is not None and begun not in recs and rr.rc not in (0, 5) and not rr.timed_out:
            # the process died inside this case (sanitizer abort: the report is ingested as a violation by the caller);
            # it is accounted for by that report and must not be run again
            recs[begun] = dict(t="c17case", id=begun, crashed=True, rc=rr.rc, events=[], san=[x["key"] for x in rr.san_reports])
            got += 1
            if not rr.san_reports:
                problems.append("case %s: harness process died (rc=%s) without a sanitizer report, stderr=%s" % (begun, rr.rc, rr.err[-300:]))
        for f in (base + ".cases", base + ".jsonl"):
            try:
                os.unlink(f)
            except OSError:
                pass
        rest = [c for c in todo if c.id not in recs]
        if not rest:
            break
        if got == 0:
            problems.append("batch %s made no progress: rc=%s timed_out=%s stderr=%s" % (tag, rr.rc, rr.timed_out, rr.err[-300:]))
            break
        if rr.rc not in (0, 5) and not rr.san_reports and begun is None:
            problems.append("batch %s: harness rc=%s after %d cases, stderr=%s" % (tag, rr.rc, got, rr.err[-300:]))
        todo = rest
    for c in cases:
        if c.id not in recs:
            problems.append("case %s produced no record" % c.id)
    return recs, problems, rrs


def _run_all(ctx, binary, cases, tag, width=None):
    width = width or vf.NCPU
    nb = max(1, min(len(cases), width * 3))
    solo = [[c] for c in cases if getattr(c, "solo", False)]
    order = sorted((c for c in cases if not getattr(c, "solo", False)), key=lambda c: -c.cost())
    batches = [[] for _ in range(nb)]
    loads = [0] * nb
    for c in order:                      # greedy balance by estimated cost
        i = loads.index(min(loads))
        batches[i].append(c)
        loads[i] += c.cost()
    batches = solo + batches             # cases that may end their process (or run long) get a process of their own
    jobs = [(lambda b=b, i=i: _run_batch(ctx, binary, b, "%s-%d" % (tag, i))) for i, b in enumerate(batches) if b]
    recs, problems = {}, []
    for r, p, rrs in vf.run_many(ctx, jobs, workers=width):
        recs.update(r)
        problems.extend(p)
        for rr in rrs:
            ctx.ingest(rr, where="(%s)" % tag)
    return recs, problems


# ------------------------------------------------------------------------------ probe
def _probe(ctx, binary, methods):
    """Measure the request iora builds per method (length, line end, header end)."""
    cases = []
    for n, m in enumerate(methods):
        c = Case("probe", [Req(m, 0, [OK])], rt=cc.LONG_RT)
        c.assign(900000 + n)
        cases.append(c)
    recs, problems = _run_all(ctx, binary, cases, "probe", width=min(8, len(cases)))
    geo = cc.Geometry()
    for c in cases:
        rec = recs.get(c.id)
        raw = b""
        if rec:
            for e in rec["events"]:
                if e["e"] == "c_send" and e["len"] > 0:
                    raw += bytes.fromhex(e["d"])
        if not raw.startswith(c.reqs[0].method.encode() + b" /t/") or b"\r\n\r\n" not in raw:
            # one more try in isolation (a loaded machine can time the probe's connect out)
            r2, p2, _ = _run_batch(ctx, binary, [c], "probe-again-%s" % c.id)
            raw = b""
            for e in (r2.get(c.id) or {}).get("events", []):
                if e["e"] == "c_send" and e["len"] > 0:
                    raw += bytes.fromhex(e["d"])
        if not raw.startswith(c.reqs[0].method.encode() + b" /t/") or b"\r\n\r\n" not in raw:
            raise vf.HarnessFailure("probe for method %s did not capture a request (%r) %s" % (c.reqs[0].method, raw[:60], problems[:2]))
        fr = c17_judge.frame_requests(raw)
        geo.learn(c.reqs[0].method, raw[: fr[0]["end"]])
    return geo


# ------------------------------------------------------------------------------ enumerations
def _kept_alive_case(rng, method, budget, fault, stop, nth):
    """fault on the nth (2 or 3) request of a kept-alive connection, then one more clean request."""
    lead = [Req(rng.choice(["GET", "POST", "PUT", "HEAD"]), 0, [OK]) for _ in range(nth - 1)]
    r = Req(method, budget, seq(fault, stop), stop=stop, gap=70 if fault.kind in ("surplus-late", "idle-fin") else 0)
    tail = Req(rng.choice(["GET", "POST"]), 1, [OK])
    rt = fault.rt(rng)
    return Case("kept-alive-%d" % nth, lead + [r, tail], rt=rt, ct=200)


CONC_FAULTS = [Fault("rst-after-request"), Fault("fin-after-response-bytes", 0), Fault("fin-after-response-bytes", 30),
               Fault("close-after-response-bytes", 20), Fault("rst-after-response-bytes", 50),
               Fault("malformed", cls="chunk-size-not-hex"), Fault("malformed", cls="cl-duplicate-conflict"),
               Fault("malformed", cls="version-2.0"), Fault("malformed-close", cls="trailer-field-lone-lf"),
               Fault("malformed-close", cls="chunk-data-lone-lf"),
               Fault("close-signal", cls="resp-connection-close"), Fault("close-signal-fin", cls="resp-connection-close"),
               Fault("close-signal", cls="resp-http10-no-keepalive"), Fault("surplus"), Fault("close-delimited"),
               Fault("ok", cls="ok-chunked"), OK, OK, OK]


def _concurrent_case(rng, methods, silent=False):
    th = rng.randint(2, 8)
    reqs = []
    for t in range(th):
        for _ in range(rng.randint(1, 3)):
            m = rng.choice(methods)
            f = rng.choice(CONC_FAULTS)
            if f.kind == "close-delimited" and m == "HEAD":
                f = Fault("surplus")
            if silent and rng.random() < 0.2:
                f = Fault("silence-after-request")
            stop = rng.choice([1, 1, None, 2])
            reqs.append(Req(m, rng.choice(cc.BUDGETS), seq(f, stop) if f.kind != "ok" else [f], stop=stop, th=t))
    rt = 150 if any(f.silent() for r in reqs for f in r.faults) else cc.LONG_RT
    return Case("concurrent-%d" % th, reqs, rt=rt, ct=200, th=th, ident="token")


def _shared_client_case(rng, lease, rt, waiters, bg_gap, slow, budget0):
    """One client shared by: a caller stuck on a silent host (server 0), `waiters` more callers queued for the same
    host:port behind it, a background caller completing requests to a healthy host (server 1) every bg_gap ms, and
    optionally two callers on a slow-but-healthy host (server 2). leaseAcquireTimeout = lease."""
    reqs, th = [], 0
    silent = Fault("silence-after-request") if rng.random() < 0.7 else Fault("silence-after-response-bytes", 20)
    reqs.append(Req("GET", budget0, [silent], th=th, srv=0))
    for k in range(waiters):
        th += 1
        m = rng.choice(["POST", "GET", "PUT", "PATCH", "DELETE"])
        reqs.append(Req(m, rng.choice([0, 0, 1]), [silent], th=th, srv=0, pre=60 + 25 * k))
    th += 1
    span = (budget0 + 1) * rt + rt + lease + 600          # long enough to cover a waiter that (wrongly) inherits the slot
    n_bg = max(4, min(400, span // (bg_gap + 3)))
    for j in range(n_bg):
        reqs.append(Req("GET" if j % 3 else "POST", 0, [OK], th=th, srv=1, gap=bg_gap))
    nsrv = 2
    if slow:
        nsrv = 3
        for k in range(2):
            th += 1
            reqs.append(Req(rng.choice(["GET", "POST"]), 0, [Fault("ok-slow", slow)], th=th, srv=2, pre=40 + 10 * k))
            reqs.append(Req("GET", 1, [Fault("ok-slow", slow // 2)], th=th, srv=2))
    return Case("shared-client-lease", reqs, rt=rt, ct=200, th=th + 1, ident="token", nsrv=nsrv, lease=lease)


def _enumerate(ctx, geo, thorough):
    rng = ctx.rng
    methods = cc.METHODS_QUICK + (cc.METHODS_MORE if thorough else [])
    cases, spaces = [], {}

    def space(name, universe, chosen):
        spaces[name] = dict(size=len(universe), run=len(chosen), exhaustive=len(chosen) == len(universe))
        return chosen

    # A. one faulty request: method × budget × fault kind × position × stop index
    uni = [(m, b, f, s) for m in methods for f in cc.fault_positions(geo, m) for b in cc.BUDGETS for s in STOPS]
    if thorough:
        pick = uni
    else:
        pick, seen = [], set()
        for m in methods:                              # every (method, fault instance) at least once
            for f in cc.fault_positions(geo, m):
                b = rng.choice([0, 1, 1, 2, 2, 3])
                s = rng.choice([1, 2, None, None, 3])
                pick.append((m, b, f, s))
                seen.add((m, b, f.sig(), s))
        extra = rng.sample(uni, 360)
        pick += [u for u in extra if (u[0], u[1], u[2].sig(), u[3]) not in seen][:200]
    for m, b, f, s in space("single:method*budget*fault*position(boundaries)*stop", uni, pick):
        cases.append(cc.single_case(rng, m, b, f, s))

    # A2. thorough: every byte offset of the request and of the response, representative methods
    if thorough:
        rep = ["GET", "POST", "PUT", "get"]
        uni2 = []
        for m in rep:
            for p in geo.req_all(m):
                for k in ("rst-after-request-bytes", "close-after-request-bytes"):
                    uni2 += [(m, b, Fault(k, p), s) for b in (0, 2) for s in (None, 1)]
            for p in geo.resp_all(m):
                for k in ("fin-after-response-bytes", "close-after-response-bytes", "rst-after-response-bytes"):
                    uni2 += [(m, b, Fault(k, p), s) for b in (0, 2) for s in (None, 1)]
            for p in geo.resp_all(m, True):
                uni2 += [(m, b, Fault("fin-after-chunked-response-bytes", p), s) for b in (0, 2) for s in (None, 1)]
        for m, b, f, s in space("single:every-byte-offset(request,response)*{GET,POST,PUT,get}*{0,2}*{never,1}", uni2, uni2):
            cases.append(cc.single_case(rng, m, b, f, s))

    # B. silent peers (each attempt costs one timeout)
    uniB = [(m, b, f, s) for m in methods for f in cc.silence_positions(geo, m, exhaustive=thorough and m in ("GET", "POST"))
            for b in ((0, 1, 2, 3) if not thorough else (0, 1, 3)) for s in (None, 1)]
    if thorough:
        # every response offset only with budgets {0,1}; boundary offsets with all budgets — that IS the thorough universe
        uniB = [u for u in uniB if u[1] <= 1 or u[2].kind != "silence-after-response-bytes" or u[2].pos in geo.resp_boundaries(u[0])]
        pickB = uniB
    else:
        pickB = []
        for m in methods:
            fs = cc.silence_positions(geo, m)
            for f in [fs[0]] + rng.sample(fs[1:], 6):
                pickB.append((m, rng.choice([0, 0, 1, 1, 2, 3]), f, rng.choice([None, None, 1])))
    for m, b, f, s in space("silence:method*budget*position*stop", uniB, pickB):
        cases.append(cc.single_case(rng, m, b, f, s))

    # C. provably-unsent failures first (refused / black-holed connects), then a fault or success
    after = [OK, Fault("rst-after-request"), Fault("fin-after-response-bytes", 0), Fault("rst-before-read"),
             Fault("malformed", cls="cl-not-a-number"), Fault("close-after-response-bytes", 17)]
    uniC = [(m, b, j, f) for m in methods for b in cc.BUDGETS for j in (1, 2, 3, 4) for f in after]
    pickC = uniC if thorough else rng.sample(uniC, 72)
    for m, b, j, f in space("refused-connects:method*budget*count*then", uniC, pickC):
        cases.append(cc.single_case(rng, m, b, f, None, refuse=j))
    uniC2 = [(m, b, j, f) for m in methods for b in (0, 1, 2) for j in (1, 2) for f in after[:3]]
    pickC2 = uniC2 if thorough else rng.sample(uniC2, 14)
    for m, b, j, f in space("blackholed-connects:method*budget*count*then", uniC2, pickC2):
        cases.append(cc.single_case(rng, m, b, f, None, blackhole=j, rt=cc.LONG_RT if not f.silent() else 150))

    # D. positive controls: clean responses keep the connection reusable
    uniD = [(m, v) for m in methods for v in cc.CLEAN_VARIANTS]
    pickD = uniD if thorough else rng.sample(uniD, 20)
    for m, v in space("clean-variants:method*variant", uniD, pickD):
        cases.append(Case("clean", [Req(m, 1, [Fault("ok", cls=v)]), Req("GET", 0, [OK]), Req("POST", 0, [Fault("ok", cls=v)])], ct=200))

    # E. kept-alive sequences: fault on the 2nd / 3rd request of a connection
    uniE = [(m, b, f, s, n) for m in methods for f in cc.fault_positions(geo, m) + [Fault("surplus-late", 20), Fault("idle-fin", 20)]
            for b in (0, 2) for s in (None, 1) for n in (2, 3)]
    if thorough:
        pickE = uniE
    else:
        pickE = []
        fl = cc.fault_positions(geo, "GET") + [Fault("surplus-late", 20), Fault("idle-fin", 20)]
        for f in fl:
            for n in (2, 3):
                m = rng.choice(methods)
                if m == "HEAD" and f.kind in ("close-delimited", "fin-after-chunked-response-bytes"):
                    m = "GET"
                if f.kind.startswith("rst-after-request-bytes") or f.kind.startswith("close-after-request-bytes"):
                    f2 = Fault(f.kind, min(f.pos, geo.req[m]["L"] - 1))
                else:
                    f2 = f
                pickE.append((m, rng.choice([0, 1, 2, 3]), f2, rng.choice([None, 1]), n))
    for m, b, f, s, n in space("kept-alive:method*budget*fault*position*{2nd,3rd}", uniE, pickE):
        cases.append(_kept_alive_case(rng, m, b, f, s, n))
    silE = [(m, b, f, n) for m in methods for f in cc.silence_positions(geo, m)[:4] for b in (0, 1) for n in (2, 3)]
    for m, b, f, n in space("kept-alive-silence:method*budget*position*{2nd,3rd}", silE, silE if thorough else rng.sample(silE, 16)):
        cases.append(_kept_alive_case(rng, m, b, f, None, n))

    # F. 2–8 concurrent callers on one client
    nF = 600 if thorough else 100
    for i in range(nF):
        cases.append(_concurrent_case(rng, methods, silent=(i % 8 == 7)))
    spaces["concurrent:2-8-callers(sampled)"] = dict(size=None, run=nF, exhaustive=False)

    # K. one client shared across hosts with a lease-acquire timeout: silent / slow / healthy servers, background traffic
    uniK = [(L, rt, w, g, sl, b0) for L in (100, 200, 300) for rt in (1200, 2000) for w in (1, 2, 3)
            for g in (15, 40, "L/2", "3L") for sl in (0, "L/2", "2L") for b0 in (0, 1)]
    pickK = uniK if thorough else rng.sample(uniK, 24)
    for L, rt, w, g, sl, b0 in space("shared-client-lease:lease*rt*waiters*background-rate*slow-host*budget", uniK, pickK):
        gap = {"L/2": L // 2, "3L": 3 * L}.get(g, g)
        slow = {"L/2": L // 2, "2L": 2 * L}.get(sl, sl)
        cases.append(_shared_client_case(rng, L, rt, w, gap, slow, b0))

    # L. persistence signals by grammar position: version x Connection header shape x framing x next request x server behaviour
    uniL = [(ver, var, fr, nxt, k) for ver in cc.VERSIONS for var in cc.CONN_VARIANTS for fr in cc.FRAMINGS
            for nxt in ("GET", "POST") for k in ("persist-open", "persist-fin")
            if not (k == "persist-open" and cc.reference_persistent(ver, cc.CONN_VARIANTS[var][1], fr))]   # persistent cells: one program
    if thorough:
        pickL = uniL
    else:
        pickL = []
        for ver in cc.VERSIONS:                              # every (version, header shape) with a self-delimited body, both servers
            for var in cc.CONN_VARIANTS:
                cells = [u for u in uniL if u[0] == ver and u[1] == var and u[2] != "close-delimited"]
                for k in sorted(set(u[4] for u in cells)):
                    pickL.append(rng.choice([u for u in cells if u[4] == k]))
        pickL += rng.sample([u for u in uniL if u[2] == "close-delimited"], 12)
    for ver, var, fr, nxt, k in space("persistence:version*connection-header-shape*framing*next-request*server", uniL, pickL):
        first = Req(rng.choice(["GET", "POST", "PUT"]), rng.choice([0, 2]), [Fault(k, cls="%s|%s|%s" % (ver, var, fr))])
        cases.append(Case("persistence", [first, Req(nxt, 1, [OK]), Req("GET", 0, [OK])], ct=200))

    # M. large retry budgets (shift / counter boundaries of the back-off) against a peer that fails every attempt in a
    #    retry-eligible way; the back-off is virtual (sdiv=1e9), attempts are counted, never timed. The first budget+3
    #    attempts fail, the next one would succeed: a client that exceeds its budget is seen doing so and still terminates.
    uniM = [(b, sc) for b in (6, 7, 10, 31, 32, 63, 64) for sc in
            ("GET:close-no-answer", "PUT:rst-after-request", "DELETE:fin-no-answer", "POST:refuse", "PATCH:refuse", "get:refuse")]
    for b, sc in space("large-budget:budget*scenario", uniM, uniM):
        m, how = sc.split(":")
        if how == "refuse":
            r = Req(m, b, [OK], refuse=b + 3)
        else:
            f = {"close-no-answer": Fault("close-after-response-bytes", 0), "rst-after-request": Fault("rst-after-request"),
                 "fin-no-answer": Fault("fin-after-response-bytes", 0)}[how]
            r = Req(m, b, [f] * (b + 3) + [OK], stop=b + 3)
        cases.append(Case("large-budget", [r], ct=200, sdiv=10 ** 9, solo=True))

    # G. reuseConnections=false: the client itself says "Connection: close"
    uniG = [(m, f) for m in methods for f in (OK, Fault("rst-after-request"), Fault("surplus"), Fault("fin-after-response-bytes", 40))]
    pickG = uniG if thorough else rng.sample(uniG, 20)
    for m, f in space("client-says-close:method*fault", uniG, pickG):
        cases.append(Case("no-keepalive", [Req(m, 2, seq(f, 1) if f.kind != "ok" else [OK]), Req("GET", 0, [OK]), Req("POST", 0, [OK])], ka=0, ct=200))

    # H. events on an idle kept-alive connection
    uniH = [(m, k, d) for m in methods for k in ("surplus-late", "idle-fin") for d in (5, 20, 40)]
    pickH = uniH if thorough else rng.sample(uniH, 16)
    for m, k, d in space("idle-events:method*kind*delay", uniH, pickH):
        cases.append(Case("idle-event", [Req("GET", 0, [Fault(k, d)], gap=d + 60), Req(m, 1, [OK], gap=0), Req("GET", 0, [OK])], ct=200))

    # I. requests larger than the socket buffers: the fault lands while the client is still sending
    big = 3 * 1024 * 1024
    uniI = [(m, b, k, p) for m in ("POST", "PUT") for b in (0, 2) for k in ("rst-after-request-bytes", "silence-mid-request")
            for p in (200, 70000, 1500000, big - 1)]
    pickI = uniI if thorough else rng.sample(uniI, 8)
    for m, b, k, p in space("large-request:method*budget*kind*position", uniI, pickI):
        f = Fault(k, p)
        r = Req(m, b, seq(f, None), big=big)
        cases.append(Case("large-request", [r, Req("GET", 0, [OK])], rt=200 if f.silent() else cc.LONG_RT, ct=200, rcvbuf=4096))

    # J. response larger than the configured cap (framing error raised during receipt)
    for m in (methods if thorough else ["GET", "PUT", "POST"]):
        if m == "HEAD":
            continue
        cases.append(cc.single_case(rng, m, 2, Fault("over-cap-body"), None))
    return cases, spaces


# ------------------------------------------------------------------------------ judging
def _spec_detail(c):
    return dict(spec=c.render(), meta=dict(group=c.group, rt=c.rt, ct=c.ct, ka=c.ka, th=c.th, wd=c.wd, id=c.id, lease=getattr(c, "lease", 0),
                                           reqs=[dict(method=r.method, budget=r.budget, token=r.token, refuse=r.refuse,
                                                      blackhole=r.blackhole) for r in c.reqs]))


def _judge_all(ctx, cases, recs, flavor, rerun_bin):
    timing = []
    for c in cases:
        rec = recs.get(c.id)
        if rec is None:
            continue
        res = c17_judge.judge(c, rec)
        for k, v in res["obs"].items():
            if k.endswith("_max"):
                ctx.obs_max(k, v)
            else:
                ctx.obs(k, v)
        ctx.case(vf.h64(repr(res["sig"])), res["sample"] if (res["viol"] or len(ctx.samples) < 3 or
                                                            (len(ctx.samples) < 6 and c.group not in ("single",))) else None)
        for n in res["notes"]:
            ctx.obs("harness_notes")
            if "names no known token" in n or "server received" in n:
                ctx.inconcl("%s (%s): %s" % (c.id, flavor, n))
        for v in res["viol"]:
            d = dict(v["detail"])
            d.update(_spec_detail(c))
            d["flavor"] = flavor
            if v["timing"]:
                timing.append((c, v, d))
            else:
                ctx.violation(v["key"], v["what"], d)
    # timing-sensitive candidates: re-run the case alone; only a reproduced miss is a verdict
    done_keys = Counter()
    verdicts = {}
    for c, v, d in timing:
        ctx.obs("timing_candidates")
        if done_keys[v["key"]] >= 2:
            ctx.obs("timing_candidates_not_rerun_same_key")
            if verdicts.get(v["key"]) is False:
                continue          # the same key did not reproduce in isolation twice already
            if verdicts.get(v["key"]) is None:
                ctx.inconcl("timing candidate %s in case %s not re-run" % (v["key"], c.id))
            continue
        done_keys[v["key"]] += 1
        repro = 0
        last = None
        for k in range(TIMING_RERUNS):
            r2, p2, _ = _run_batch(ctx, rerun_bin, [c], "iso-%s-%d" % (c.id, k))
            rec2 = r2.get(c.id)
            if rec2 is None:
                break
            res2 = c17_judge.judge(c, rec2)
            hit = [x for x in res2["viol"] if x["key"] == v["key"]]
            if hit:
                repro += 1
                last = hit[0]
            else:
                break
        if repro == TIMING_RERUNS:
            d["reproduced_in_isolation"] = repro
            d["isolated_run"] = last["detail"] if last else None
            ctx.violation(v["key"], v["what"], d)
            verdicts[v["key"]] = True
        else:
            ctx.obs("timing_candidates_not_reproduced")
            verdicts.setdefault(v["key"], False)


# ------------------------------------------------------------------------------ entry points
def run(ctx):
    thorough = ctx.tier == "thorough"
    flavors = ["plain"] + (["asan", "tsan"] if thorough else [])
    bins = vf.build_many([(HARNESS, f) for f in flavors])
    plain = bins[(HARNESS, "plain")]
    methods = cc.METHODS_QUICK + (cc.METHODS_MORE if thorough else [])
    geo = _probe(ctx, plain, methods)
    ctx.extra["request_geometry"] = geo.req
    cases, spaces = _enumerate(ctx, geo, thorough)
    for n, c in enumerate(cases):
        c.assign(n)
    t0 = time.time()
    recs, problems = _run_all(ctx, plain, cases, "plain")
    for p in problems:
        ctx.inconcl(p)
    _judge_all(ctx, cases, recs, "plain", plain)
    ctx.extra["wall_plain_s"] = round(time.time() - t0, 1)
    if thorough:
        # sanitizer builds: the quick selection (seeded separately so it does not disturb the plain enumeration)
        sub_ctx_rng = ctx.rng
        ctx.rng = random.Random(ctx.seed * 7919 + 17)
        qcases, _ = _enumerate(ctx, geo, False)
        ctx.rng = sub_ctx_rng
        for fl in ("asan", "tsan"):
            base = 200000 if fl == "asan" else 400000
            for n, c in enumerate(qcases):
                c.assign(base + n)
                c.wd = 300000
            r2, p2 = _run_all(ctx, bins[(HARNESS, fl)], qcases, fl)
            for p in p2:
                ctx.inconcl(p)
            _judge_all(ctx, qcases, r2, fl, plain)
    ctx.extra["enumerated_subspaces"] = spaces
    # top-level "exhaustive" stays false: the concurrent-callers sub-space (schedules) is a seeded sample and the quick
    # tier samples every sub-space; per-sub-space flags say which finite fault spaces were enumerated in full
    ctx.exhaustive = False
    ctx.extra["exhaustive_subspaces"] = sorted(k for k, s in spaces.items() if s["exhaustive"])
    ctx.extra["exhaustive_note"] = ("sub-spaces flagged exhaustive=true were enumerated in full (every element run and judged, "
                                    "subject to 'cases without a record' listed under inconclusive); all others are seeded, "
                                    "boundary-biased samples")
    ctx.rule = ("per logical request (unique token in path, header, body): transmissions = request occurrences found by a reference "
                "request framer in the bytes each connection carried (client-side send() log, cross-checked with the bytes the scripted "
                "server received). Rules: non-idempotent (not exactly GET/HEAD/PUT/DELETE/OPTIONS/TRACE) => <=1 transmission; any method => "
                "<= budget+1 transmissions and <= budget back-off sleeps; after a deterministically malformed response was read, the "
                "request is never transmitted again; a 2nd+ request on a connection only if every earlier exchange on it completed cleanly "
                "(no Connection: close / HTTP/1.0 default close / surplus bytes / close-delimited body / EOF / failure that the client had "
                "already read); on a silent peer the attempt is given up within timeout + 250 ms + 6x measured scheduling noise "
                "(a miss must reproduce 3x in isolation); with leaseAcquireTimeout set on a client shared across hosts, every attempt reaches the wire or "
                "gives up within leaseAcquireTimeout + connect timeout (+ the same allowance) and a call returns within attempts x (lease + connect + "
                "request timeout) + back-off, whatever other callers do on other hosts (same 3x isolation rule); a caller gets the response of its own request; "
                "the back-off is judged logically only (budgets up to 64 with virtual sleeps): every retry preceded by a back-off, none below the 100 ms base, "
                "requested durations never decreasing. "
                "distinct = hash(group, (method,budget,refuse,blackhole) per request, server programs executed, outcomes, "
                "transmissions per request, back-offs per request, keep-alive, threads)")
    ctx.assumptions = [
        "the retry back-off (sleep_for on the caller thread) is shortened 10x by a nanosleep interposer; it is counted, not judged",
        "bytes are attributed to a logical request by the token in the request line; iora hands a whole request to send() at once, "
        "so every transmission that put a byte on the wire names its token in the client-side log",
        "failures inside the kernel after send() accepted the bytes are indistinguishable from 'sent' for any observer (out of reach)",
        "request timeout is 30 s wherever no peer is scripted to be silent, so load cannot turn a slow answer into a timeout+retry",
        "TLS exchanges are not driven here (C07 covers the TLS matrix); all cases are plain HTTP over loopback",
    ]
    ctx.require_obs("cases", "transmissions", "transmissions_seen_by_server", "retries_observed",
                    "nonidempotent_retried_only_while_unsent", "idempotent_retransmissions", "framing_errors_reported",
                    "silent_attempts", "timeouts_reported", "reuse_of_clean_connection", "server_rst", "server_fin",
                    "taint:surplus", "taint:malformed", "taint:close-delimited", "taint:resp-connection-close",
                    "connects_never_accepted", "ex:HttpRequestNotSentError", "ex:HttpFramingError", "blackholed_connects",
                    "lease_timeouts_reported", "lease_phase_checked", "backoff_sleeps_checked")


class _ReplayReq:
    def __init__(self, d):
        self.method, self.budget, self.token = d["method"], d["budget"], d["token"]
        self.refuse, self.blackhole = d.get("refuse", 0), d.get("blackhole", 0)


class _ReplayCase:
    def __init__(self, spec, meta):
        self.spec, self.meta = spec, meta
        self.group, self.rt, self.ct, self.ka, self.th, self.wd, self.id = (meta[k] for k in ("group", "rt", "ct", "ka", "th", "wd", "id"))
        self.lease = meta.get("lease", 0)
        self.reqs = [_ReplayReq(r) for r in meta["reqs"]]

    def render(self):
        return self.spec

    def cost(self):
        return 5

    def describe(self):
        return dict(id=self.id, group=self.group, replay=True, requests=self.meta["reqs"])


def replay(ctx, path):
    with open(path) as fh:
        rp = json.load(fh)
    d = rp["first"]["detail"]
    c = _ReplayCase(d["spec"], d["meta"])
    binary = vf.build(HARNESS, d.get("flavor", "plain"))
    recs, problems, rrs = _run_batch(ctx, binary, [c], "replay")
    for rr in rrs:
        ctx.ingest(rr, where="(replay)")
    for p in problems:
        ctx.inconcl(p)
    _judge_all(ctx, [c], recs, d.get("flavor", "plain"), binary)
    ctx.rule = "replay of %s (key %s)" % (c.id, rp.get("key"))
    ctx.obs("cases_replayed")
