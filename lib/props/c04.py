# C04 — connectSync: live session or definite error, in time, no leaked callbacks/sockets
import json, os
import vf
import c04_common as cc

LEVEL = "exploration"
NAME = "c04_connectsync"
BUILDS = [(NAME, "plain"), (NAME, "tsan"), (NAME, "asan")]

SCN = ["accept", "refuse", "blackhole", "rst-after-accept", "tls-ok", "tls-wrong-ca", "tls-garbage", "tls-slow",
       "tls-stall", "tls-rst-after-hello", "resolve-fail", "resolve-slow-fail", "resolve-slow-ok",
       "tls-requested-not-configured", "tls-slow-engine-connect-timer"]


def _ingest_first_pass(ctx, rr, where):
    cc.annotate(rr, ctx.seed)
    cc.filter_tsan(ctx, rr)
    ctx.ingest(rr, where=where)


def _isolated(ctx, binary, idx, timeout=600):
    out = os.path.join(ctx.tmp, f"iso-{vf.flavor_of(binary)}-{idx}.jsonl")
    extra = ["--mode", "reusedfd"] if int(idx) >= 2000000 else []
    rr = vf.run_harness(binary, ["--seed", ctx.seed, "--tmp", ctx.tmp, "--from", idx, "--count", 1, "--isolated", 1,
                                 "--out", out] + extra, timeout=timeout, out_file=out)
    cc.annotate(rr, ctx.seed)
    cc.filter_tsan(ctx, rr)
    return rr


def run(ctx):
    thorough = ctx.tier == "thorough"
    flavors = ["plain", "tsan"] + (["asan"] if thorough else [])
    bins = vf.build_many([(NAME, f) for f in flavors])
    # one batch = one fresh transport + one target + 1..32 callers, ~28 calls on average
    plan = {"plain": 2300, "asan": 1000, "tsan": 800} if thorough else {"plain": 256, "tsan": 96}
    nworkers = {"plain": 8, "asan": 4, "tsan": 4} if thorough else {"plain": 10, "tsan": 6}
    jobs = []
    for fl in flavors:
        b = bins[(NAME, fl)]
        n, w = plan[fl], nworkers[fl]
        per = (n + w - 1) // w
        for s in range(0, n, per):
            cnt = min(per, n - s)
            jobs.append(lambda b=b, s=s, cnt=cnt: cc.worker(ctx, b, ["--seed", ctx.seed, "--tmp", ctx.tmp], s, cnt,
                                                            3600 if thorough else 1200, "c04"))
    # reused-descriptor family: 2.5-3.5 s of wall time per batch (it waits for a real SYN retransmit), so a handful
    # of them run one per process, in parallel with everything else
    rf = {"plain": 24, "asan": 8, "tsan": 8} if thorough else {"plain": 6, "tsan": 2}
    for fl in flavors:
        for k in range(rf.get(fl, 0)):
            jobs.append(lambda b=bins[(NAME, fl)], k=k: cc.worker(ctx, b, ["--seed", ctx.seed, "--tmp", ctx.tmp, "--mode", "reusedfd"],
                                                                  2000000 + k, 1, 600, "c04rf"))
    suspects, deaths = {}, []
    for rrs in vf.run_many(ctx, jobs):
        for rr in rrs:
            _ingest_first_pass(ctx, rr, f"({rr.flavor})")
            for r in rr.records:
                if r.get("t") == "suspect":
                    suspects.setdefault((rr.flavor, r["idx"]), []).append(r)
            if hasattr(rr, "died_at"):
                deaths.append(rr)

    # ---- isolated re-runs: timing-bound suspects first, then processes that died or got stuck
    todo = sorted(suspects.keys())
    if len(todo) > 16:
        ctx.obs("suspect_batches_beyond_rerun_cap", len(todo) - 16)
        todo = todo[:16]
    for fl, idx in todo:
        want = {r["key"] for r in suspects[(fl, idx)]}
        rr = _isolated(ctx, bins[(NAME, fl)], idx)
        ctx.flavors.add(fl)
        got = {r.get("key") for r in rr.records if r.get("t") == "viol"}
        for r in rr.records:
            if r.get("t") == "viol" and r.get("key") in want:
                ctx.violation(r["key"], r.get("what", ""), r.get("detail"))
        for rep in rr.san_reports:
            ctx.violation(f"{ctx.prop}:san:{rep['key']}", f"sanitizer report {rep['key']} (isolated re-run)", dict(text=rep["text"][:4000]))
        if want & got:
            ctx.obs("suspects_reproduced_in_isolation")
        else:
            ctx.obs("suspects_not_reproduced_in_isolation")
    for rr in deaths[:8]:
        kind = cc.death_kind(rr)
        if kind == "sanitizer":
            continue  # already a violation through the sanitizer report
        scn = rr.died_scn.get("scn", "?")
        stuck_keys = [r.get("key") for r in rr.records if r.get("t") == "stuck"]
        r2 = _isolated(ctx, bins[(NAME, rr.flavor)], rr.died_at, timeout=900)
        again = r2.timed_out or r2.rc not in (0, 87) or any(r.get("t") == "stuck" for r in r2.records)
        if again:
            k2 = [r.get("key") for r in r2.records if r.get("t") == "stuck"]
            key = (k2 or stuck_keys or [f"C04:harness-process-died:{scn}:{kind}"])[0]
            ctx.violation(key, f"batch {rr.died_at} ({scn}, {rr.flavor}) ended with {kind} and again when run alone",
                          dict(first=rr.err[-1500:], second=r2.err[-1500:], _run=dict(flavor=rr.flavor, idx=rr.died_at, seed=ctx.seed)))
        else:
            ctx.inconcl(f"batch {rr.died_at} ({scn}, {rr.flavor}) ended with {kind} once and passed when run alone")

    ctx.rule = ("one case = one connectSync/connectSyncCancellable call inside a batch; a batch = fresh Transport + one hostile loopback "
                "target + 1..32 concurrent callers + seeded timeout sweep (0,1,2,3,5,8,13,20 ms and 3 s) [+ cancel at a seeded offset] "
                "[+ condvar-shim pre-park delay in the caller]; about every 8th batch is teardown-racing instead: callers parked on an accepting "
                "target behind slow global onConnect callbacks while another thread stops or destroys the transport. distinct = hash(target kind, api, timeout bucket, caller bucket, "
                "pre-park?, result, returned at/after expiry?, cancel scheduled?)")
    ctx.assumptions = [
        "return-time bound (timeout + 500 ms + 50 %) is judged only on batches without the pre-park delay and only for calls during "
        "which a 0.5 ms heartbeat thread in the same process never lost more than 100 ms (otherwise the process was CPU-starved, not the library slow); "
        "a miss is re-run alone before it is reported",
        "the black hole is a loopback listener with backlog 0 plus filler connections (verified per batch: a probe connect stays in SYN_SENT)",
        "'nothing left behind' is judged at the raw peer after the client's command queue was drained through a synchronous addListener barrier",
        "resolver outcomes are scripted through a getaddrinfo interposer (no real DNS in the sandbox)",
        "the reused-descriptor family relies on Linux dropping SYNs to a listener with a full accept queue and retransmitting after about 1 s; "
        "that the stale event really reached the new owner of the descriptor is not observable without a hook, only its preconditions are counted",
        "TSan reports without any iora frame in either access stack are counted and dropped",
    ]
    req = ["calls", "batches", "collision_completion_won_at_or_after_expiry", "collision_timeout_won_after_completion",
           "condvar_prepark_delays", "resolver_calls_scripted", "ok_sessions_echo_verified", "batches_peer_saw_everything_closed",
           "global_onConnect_for_async_connect", "global_onClose_for_handed_out_id", "timing_judged_calls", "cancel_won",
           "calls_cancellable", "batches_16_32_callers", "batches_1_caller",
           "result_ok", "result_Timeout", "result_Connect", "result_Resolve", "result_TLSHandshake", "result_Cancelled"]
    req += ["calls_" + s for s in SCN]
    req += ["io_thread_holds_in_slow_onData", "calls_with_short_engine_connect_timer", "engine_connect_timer_closed_a_pending_connect",
            "returned_sessions_checked_for_transport_side_close"]
    req += ["reused_fd_batches", "reused_fd_schedule_preconditions_met", "reused_fd_abandoned_handshake_completed_late_at_peer",
            "reused_fd_io_thread_held_in_slow_onData", "reused_fd_blackhole_result_Timeout", "calls_reused-fd-blackhole"]
    req += ["calls_teardown-racing", "teardown_racing_destroyed_with_callers_parked", "teardown_racing_stopped",
            "teardown_racing_returned_ShuttingDown", "teardown_racing_returned_ok",
            "teardown_racing_connects_completed_after_caller_gave_up", "teardown_racing_connectSync_entered_while_stop_drains"]
    ctx.require_obs(*req)


def replay(ctx, path):
    with open(path) as fh:
        rep = json.load(fh)
    run_info = ((rep.get("first") or {}).get("detail") or {}).get("_run") or {}
    fl = run_info.get("flavor", "plain")
    idx = run_info.get("idx")
    ctx.seed = run_info.get("seed", rep.get("seed", ctx.seed))
    if idx is None:
        raise vf.HarnessFailure("replay file carries no batch index")
    b = vf.build(NAME, fl)
    out = os.path.join(ctx.tmp, "replay.jsonl")
    extra = ["--mode", "reusedfd"] if int(idx) >= 2000000 else []
    rr = vf.run_harness(b, ["--seed", ctx.seed, "--tmp", ctx.tmp, "--from", idx, "--count", 1, "--isolated", 1, "--out", out] + extra,
                        timeout=900, out_file=out)
    _ingest_first_pass(ctx, rr, "(replay)")
    ctx.rule = f"replay of batch {idx} ({fl}) seed {ctx.seed}"
