# C08 — timers: never early, never twice, never after a successful cancel, nothing after stop/drain
import vf

LEVEL = "exploration"
BUILDS = [("c08_timers", "plain"), ("c08_timers", "tsan"), ("c08_timers", "asan")]


def run(ctx):
    thorough = ctx.tier == "thorough"
    flavors = ["plain", "tsan"] + (["asan"] if thorough else [])
    bins = vf.build_many([("c08_timers", f) for f in flavors])
    n = 3000 if thorough else 384
    jobs = []
    for fl in flavors:
        b = bins[("c08_timers", fl)]
        nf = n if fl == "plain" else max(48, n // 3)
        per = max(3, nf // (16 if fl == "plain" else 8))
        for w in range(0, nf, per):
            jobs.append(lambda b=b, w=w, cnt=min(per, nf - w): vf.run_resumable(
                ctx, b, ["--seed", ctx.seed], w, cnt, timeout=1500, tag="timers"))
    for rrs in vf.run_many(ctx, jobs):
        for rr in rrs:
            ctx.ingest(rr, where=f"(timers, {rr.flavor})")
            if getattr(rr, "bad", None):
                ctx.inconcl(rr.bad)
    ctx.rule = ("scenario = seeded (service {TimingWheel 1-3 levels x 4/8/16 slots x 1-4 ms tick | TimerService | TimerServicePool}, "
                "2-6 scheduler threads, boundary-biased delays {0, sub-tick, shared bucket, level/cascade boundaries, at and beyond the wheel span}, "
                "cancel/reschedule racing the fire, handlers {quick, slow, throwing, scheduling, cancelling}, periodic timers, "
                "first or second life of the service (stop->reset->start after a life ending with cancelled timers pending), shutdown {stop|drain} x {at quiescence | racing the schedulers with a delay injected after the clock read}); "
                "distinct = hash of those coordinates plus which race outcomes were observed")
    ctx.assumptions = [
        "all stamps come from CLOCK_MONOTONIC via a raw syscall (same clock as steady_clock, never shimmed)",
        "a timer's deadline is bounded below by (time schedule() was called + delay), so 'early' is judged conservatively",
        "timers handed to a user-supplied dispatcher are out of scope (no dispatcher is configured)",
    ]
    ctx.require_obs("scenarios_timerservice", "scenarios_timerpool", "timers_fired", "cancel_true", "cancel_false",
                    "cancel_lost_race_to_fire", "reschedule_true", "periodic_timers", "discarded_by_shutdown",
                    "late_schedule_refused", "shutdown_stop_racing", "shutdown_drain_racing", "clock_reads_delayed", "scenarios_in_second_life_timerservice", "bursts_due_around_shutdown", "timers_with_sub_millisecond_delay")
