# C08 — timers: never early, never twice, never after a successful cancel, nothing after stop/drain
import vf

LEVEL = "exploration"
BUILDS = [("c08_timers", "plain"), ("c08_timers", "tsan"), ("c08_timers", "asan")]


def run(ctx):
    thorough = ctx.tier == "thorough"
    flavors = ["plain", "tsan"] + (["asan"] if thorough else [])
    bins = vf.build_many([("c08_timers", f) for f in flavors])
    n = 3000 if thorough else 384
    jobs = []
    for fl in flavors:
        b = bins[("c08_timers", fl)]
        nf = n if fl == "plain" else max(48, n // 3)
        per = max(3, nf // (16 if fl == "plain" else 8))
        for w in range(0, nf, per):
            jobs.append(lambda b=b, w=w, cnt=min(per, nf - w): vf.run_resumable(
                ctx, b, ["--seed", ctx.seed], w, cnt, timeout=1500, tag="timers"))
    # long-handler family: a handler that outlives stop()'s internal 5 s drain / a drain(timeout); one process per
    # variant (2.5-6 s of wall time, asleep), started first so that they overlap the scenario sweep
    long_jobs = []
    for fl in (["plain", "asan"] if thorough else ["plain"]):
        b = bins[("c08_timers", fl)]
        for rep in range(3 if thorough and fl == "plain" else 1):
            for v in range(10):
                long_jobs.append(lambda b=b, v=v, rep=rep: vf.run_resumable(
                    ctx, b, ["--seed", int(ctx.seed) + 1000 * rep, "--long", 1], v, 1, timeout=400, tag=f"long{rep}"))
    jobs = long_jobs + jobs
    for rrs in vf.run_many(ctx, jobs, workers=16 + len(long_jobs)):
        for rr in rrs:
            ctx.ingest(rr, where=f"(timers, {rr.flavor})")
            if getattr(rr, "bad", None):
                ctx.inconcl(rr.bad)
    ctx.rule = ("scenario = seeded (service {TimingWheel 1-3 levels x 4/8/16 slots x 1-4 ms tick | TimerService | TimerServicePool}, "
                "2-6 scheduler threads, boundary-biased delays {0, sub-tick, shared bucket, level/cascade boundaries, at and beyond the wheel span}, "
                "cancel/reschedule racing the fire, handlers {quick, slow, throwing, scheduling, cancelling}, periodic timers, "
                "first or second life of the service (stop->reset->start after a life ending with cancelled timers pending), shutdown {stop|drain} x {at quiescence | racing the schedulers with a delay injected after the clock read}); "
                "distinct = hash of those coordinates plus which race outcomes were observed. Long-handler family: a handler of 5.6-5.8 s "
                "(outliving TimerService::stop()'s internal 5 s drain) or 1.6-2.7 s (outliving a drain(300)) occupies the timer thread while two "
                "threads keep scheduling across the teardown by stop() / timed-out drain() then stop() / pool stop() / destructor / wheel stop() / "
                "wheel drain(300): the returning call must leave no handler running, nothing starts later, nothing accepted during or after it is lost")
    ctx.assumptions = [
        "all stamps come from CLOCK_MONOTONIC via a raw syscall (same clock as steady_clock, never shimmed)",
        "a timer's deadline is bounded below by (time schedule() was called + delay), so 'early' is judged conservatively",
        "timers handed to a user-supplied dispatcher are out of scope (no dispatcher is configured)",
    ]
    ctx.require_obs("scenarios_timerservice", "scenarios_timerpool", "timers_fired", "cancel_true", "cancel_false",
                    "cancel_lost_race_to_fire", "reschedule_true", "periodic_timers", "discarded_by_shutdown",
                    "late_schedule_refused", "shutdown_stop_racing", "shutdown_drain_racing", "clock_reads_delayed", "scenarios_in_second_life_timerservice", "bursts_due_around_shutdown", "timers_with_sub_millisecond_delay",
                    "wheel_scenarios_with_dispatcher", "scenarios_with_statistics_disabled", "scenarios_with_one_event_epoll_batch", "long_handler_scenarios", "long_timerservice_stop", "long_timerservice_stop-after-timed-out-drain", "long_timerpool_stop",
                    "long_timerservice_destructor", "long_wheel1_stop", "long_wheel1_drain-with-timeout", "long_drain_timed_out",
                    "long_timerservice_stop-during-drain-of-another-thread", "long_timerservice_second-concurrent-stop",
                    "long_wheel1_stop-during-drain-of-another-thread", "long_wheel_drain_firing_when_stop_called",
                    "long_timerpool_pool-stop-during-drain-of-a-service", "long_pool_service_draining_when_pool_stop_called",
                    "long_due_on_free_thread_judged", "long_refused")


def replay(ctx, path):
    """Re-run the scenario a replay file names (repeated: the interleaving itself is not replayable), else
    the whole tier with the recorded seed."""
    import json
    with open(path) as fh:
        rp = json.load(fh)
    d = (rp.get("first") or {}).get("detail") or {}
    if not isinstance(d, dict) or ("scenario" not in d and "long_variant" not in d):
        ctx.seed, ctx.tier = rp.get("seed", ctx.seed), rp.get("tier", ctx.tier)
        return run(ctx)
    seed = d.get("seed", rp.get("seed", ctx.seed))
    bins = vf.build_many([("c08_timers", f) for f in ("plain", "tsan")])
    jobs = []
    if "long_variant" in d:
        for rep in range(3):
            jobs.append(lambda rep=rep: vf.run_resumable(ctx, bins[("c08_timers", "plain")], ["--seed", seed, "--long", 1],
                                                         int(d["long_variant"]), 1, timeout=400, tag=f"rlong{rep}"))
        for rrs in vf.run_many(ctx, jobs):
            for rr in rrs:
                ctx.ingest(rr, where=f"(replay, {rr.flavor})")
                if getattr(rr, "bad", None):
                    ctx.inconcl(rr.bad)
        ctx.rule = f"replay of long-handler variant {d['long_variant']} seed {seed} (3 runs)"
        return
    for fl, reps in (("plain", 24), ("tsan", 8)):
        for rep in range(reps):
            jobs.append(lambda fl=fl, rep=rep: vf.run_resumable(ctx, bins[("c08_timers", fl)], ["--seed", seed],
                                                                int(d["scenario"]), 1, timeout=900, tag=f"rs{rep}"))
    for rrs in vf.run_many(ctx, jobs):
        for rr in rrs:
            ctx.ingest(rr, where=f"(replay, {rr.flavor})")
            if getattr(rr, "bad", None):
                ctx.inconcl(rr.bad)
    ctx.rule = f"replay of scenario {d['scenario']} seed {seed} (24 plain + 8 tsan runs; the schedule itself is not replayable)"
