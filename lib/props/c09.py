# C09 — thread pool: every accepted task exactly once, bounded threads, clean shutdown
import vf

LEVEL = "exploration"
BUILDS = [("c09_pool", "plain"), ("c09_pool", "tsan"), ("c09_pool", "asan")]


def _crash_key(rr, k):
    sig = -rr.rc if rr.rc < 0 else rr.rc
    kind = "abort" if sig == 6 else ("segv" if sig == 11 else f"rc-{sig}")
    tail = rr.err[-600:]
    if "terminate called" in tail:
        kind = "terminate"
    return (f"C09:crash:{kind}", f"pool harness process died ({kind}) in scenario {k}: {tail[-200:]!r}")


def run(ctx):
    thorough = ctx.tier == "thorough"
    flavors = ["plain", "tsan"] + (["asan"] if thorough else [])
    bins = vf.build_many([("c09_pool", f) for f in flavors])
    n = 20000 if thorough else 960
    jobs = []
    for fl in flavors:
        b = bins[("c09_pool", fl)]
        nf = n if fl == "plain" else max(64, n // 4)
        per = max(1, nf // 8)
        for w in range(0, nf, per):
            jobs.append(lambda b=b, w=w, per=per: vf.run_resumable(
                ctx, b, ["--seed", ctx.seed], w, per, timeout=1200, tag="pool", crash_key=_crash_key))
    # long-task family: tasks that outlive the fixed waits inside shutdown()/the destructor/drain(); one
    # process per variant (each takes 5.5-8 s of wall time, mostly asleep), started first so that they overlap
    # the scenario sweep
    nlong = 8
    long_jobs = []
    for fl in (["plain", "asan"] if thorough else ["plain"]):
        b = bins[("c09_pool", fl)]
        for rep in range(3 if thorough and fl == "plain" else 1):
            for v in range(nlong):
                long_jobs.append(lambda b=b, v=v, rep=rep: vf.run_resumable(
                    ctx, b, ["--seed", int(ctx.seed) + 1000 * rep, "--long", 1], v, 1, timeout=400, tag=f"long{rep}", crash_key=_crash_key))
    jobs = long_jobs + jobs
    for rrs in vf.run_many(ctx, jobs, workers=16 + len(long_jobs)):
        for rr in rrs:
            ctx.ingest(rr, where=f"(pool, {rr.flavor})")
            if getattr(rr, "bad", None):
                ctx.inconcl(rr.bad)
    ctx.rule = ("scenario = seeded (min,max threads, idle timeout, queue size, submitter count, submission pattern "
                "{tight spin-barrier burst | streams | streams racing stop() | submissions around the idle-exit instant}, "
                "task kinds {quick, sleep, throw std::runtime_error / int / std::string, nested submit, latch}, API mix enqueue/tryEnqueue/enqueueWithResult, "
                "first or second life of the pool (stop -> reset -> start after a short earlier life), "
                "shutdown kind {destructor | stop | drain+stop | stop racing submitters | shutdown() racing submitters}); distinct = hash of those "
                "coordinates plus (refusal seen?, throwing task seen?, concurrency high-water mark). Long-task family: every worker busy with a "
                "task of 5.35-7.6 s (on either side of shutdown()'s 5 s + 1 s waits and the destructor's 5 s drain phase) with quick tasks queued "
                "behind it, torn down by shutdown() / a timed-out drain() followed by stop() / stop() from Running / the destructor: the call may "
                "only return (or report success) after every accepted task has finished, nothing starts afterwards")
    ctx.assumptions = [
        "task bodies are bounded (latched tasks give up after 20 s); DETACHED shutdown mode is excluded (documented as leaking)",
        "the pool object is never destroyed while a submitter may still call into it (that would be the caller's UB); stop() may race submitters",
        "'queue full' refusals are only judged in scenarios that never submit more tasks than the queue holds",
    ]
    ctx.require_obs("scenarios", "tasks_accepted", "tasks_refused", "tasks_throwing", "shutdown_kind_destructor",
                    "shutdown_kind_stop", "shutdown_kind_drain_stop", "shutdown_kind_stop_racing_submitters", "shutdown_kind_shutdown_racing_submitters", "submitter_pre_lock_delays",
                    "pattern_tight_burst", "pattern_idle_exit_race", "scenarios_reaching_max_threads",
                    "late_submission_refused_cleanly", "condvar_prepark_delays", "thread_create_delays", "worker_post_unlock_delays",
                    "scenarios_in_second_life", "scenarios_without_error_handler", "scenarios_in_graceful_shutdown_mode", "long_graceful_mode", "tasks_submitted_with_argument_pack", "tasks_throwing_non_std_exception", "long_scenarios", "long_shutdown", "long_destructor", "long_stop", "long_stop-after-timed-out-drain", "long_drain_timed_out_before_stop")


def replay(ctx, path):
    """Re-run what a replay file names: the long-task variant or the scenario index (repeated, since the
    interleaving is not replayable), else the whole tier with the recorded seed."""
    import json
    with open(path) as fh:
        rp = json.load(fh)
    d = (rp.get("first") or {}).get("detail") or {}
    if not isinstance(d, dict):
        d = {}
    seed = d.get("seed", rp.get("seed", ctx.seed))
    if "variant" not in d and "scenario" not in d:
        ctx.seed, ctx.tier = rp.get("seed", ctx.seed), rp.get("tier", ctx.tier)
        return run(ctx)
    bins = vf.build_many([("c09_pool", f) for f in ("plain", "tsan")])
    jobs = []
    if "variant" in d:
        for rep in range(3):
            jobs.append(lambda rep=rep: vf.run_resumable(ctx, bins[("c09_pool", "plain")], ["--seed", seed, "--long", 1],
                                                         int(d["variant"]), 1, timeout=400, tag=f"rlong{rep}", crash_key=_crash_key))
        ctx.rule = f"replay of long-task variant {d['variant']} seed {seed} (3 runs)"
    else:
        for fl, reps in (("plain", 30), ("tsan", 10)):
            for rep in range(reps):
                jobs.append(lambda fl=fl, rep=rep: vf.run_resumable(ctx, bins[("c09_pool", fl)], ["--seed", seed],
                                                                    int(d["scenario"]), 1, timeout=600, tag=f"rs{rep}", crash_key=_crash_key))
        ctx.rule = f"replay of scenario {d['scenario']} seed {seed} (30 plain + 10 tsan runs; the schedule itself is not replayable)"
    for rrs in vf.run_many(ctx, jobs):
        for rr in rrs:
            ctx.ingest(rr, where=f"(replay, {rr.flavor})")
            if getattr(rr, "bad", None):
                ctx.inconcl(rr.bad)
