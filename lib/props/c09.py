# C09 — thread pool: every accepted task exactly once, bounded threads, clean shutdown
import vf

LEVEL = "exploration"
BUILDS = [("c09_pool", "plain"), ("c09_pool", "tsan"), ("c09_pool", "asan")]


def _crash_key(rr, k):
    sig = -rr.rc if rr.rc < 0 else rr.rc
    kind = "abort" if sig == 6 else ("segv" if sig == 11 else f"rc-{sig}")
    tail = rr.err[-600:]
    if "terminate called" in tail:
        kind = "terminate"
    return (f"C09:crash:{kind}", f"pool harness process died ({kind}) in scenario {k}: {tail[-200:]!r}")


def run(ctx):
    thorough = ctx.tier == "thorough"
    flavors = ["plain", "tsan"] + (["asan"] if thorough else [])
    bins = vf.build_many([("c09_pool", f) for f in flavors])
    n = 20000 if thorough else 960
    jobs = []
    for fl in flavors:
        b = bins[("c09_pool", fl)]
        nf = n if fl == "plain" else max(64, n // 4)
        per = max(1, nf // 8)
        for w in range(0, nf, per):
            jobs.append(lambda b=b, w=w, per=per: vf.run_resumable(
                ctx, b, ["--seed", ctx.seed], w, per, timeout=1200, tag="pool", crash_key=_crash_key))
    for rrs in vf.run_many(ctx, jobs):
        for rr in rrs:
            ctx.ingest(rr, where=f"(pool, {rr.flavor})")
            if getattr(rr, "bad", None):
                ctx.inconcl(rr.bad)
    ctx.rule = ("scenario = seeded (min,max threads, idle timeout, queue size, submitter count, submission pattern "
                "{tight spin-barrier burst | streams | streams racing stop() | submissions around the idle-exit instant}, "
                "task kinds {quick, sleep, throw, nested submit, latch}, API mix enqueue/tryEnqueue/enqueueWithResult, "
                "shutdown kind {destructor | stop | drain+stop | stop racing submitters | shutdown() racing submitters}); distinct = hash of those "
                "coordinates plus (refusal seen?, throwing task seen?, concurrency high-water mark)")
    ctx.assumptions = [
        "task bodies are bounded (latched tasks give up after 20 s); DETACHED shutdown mode is excluded (documented as leaking)",
        "the pool object is never destroyed while a submitter may still call into it (that would be the caller's UB); stop() may race submitters",
        "'queue full' refusals are only judged in scenarios that never submit more tasks than the queue holds",
    ]
    ctx.require_obs("scenarios", "tasks_accepted", "tasks_refused", "tasks_throwing", "shutdown_kind_destructor",
                    "shutdown_kind_stop", "shutdown_kind_drain_stop", "shutdown_kind_stop_racing_submitters", "shutdown_kind_shutdown_racing_submitters", "submitter_pre_lock_delays",
                    "pattern_tight_burst", "pattern_idle_exit_race", "scenarios_reaching_max_threads",
                    "late_submission_refused_cleanly", "condvar_prepark_delays", "thread_create_delays", "worker_post_unlock_delays")
