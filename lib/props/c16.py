# C16 — each HTTP request on a persistent connection gets exactly one well-formed response, in order.
#
# harness/c16_httpresp.cpp runs a real HttpServer and raw-socket clients and dumps, per connection,
# the requests it sent and every byte it read (hex) with EOF kind and stop reason. Everything is
# judged here: the byte stream is split by the independent reference framer (lib/c16_respframer.py),
# responses are matched to requests by token and position, and the rules of the property are
# applied. Expected statuses/bodies are recomputed here from (kind, method, token, n) — the
# generator's own knowledge of the routes it registered — never taken from iora.
import json, os, threading
import vf
import c16_respframer as rf

LEVEL = "exploration"
NAME = "c16_httpresp"
BUILDS = [(NAME, "plain"), (NAME, "tsan"), (NAME, "asan")]   # quick: plain + tsan; thorough: + asan

# unparsable requests whose defect is the message-length information (found by the framing step,
# before the request reaches the request parser)
LENGTH_INFO_MAL = ("badcl", "hugecl", "badte", "conflictcl")
BODY_KINDS = ("w", "big", "put", "patch", "del", "create")
EXPECT = {  # kind -> method -> status
    "w": {"GET": 200, "HEAD": 200}, "big": {"GET": 200, "HEAD": 200},
    "put": {"PUT": 200}, "patch": {"PATCH": 200}, "del": {"DELETE": 200}, "create": {"POST": 201},
    "echo": {"POST": 200}, "throw": {"GET": 500, "HEAD": 500},
    "s204": {"GET": 204, "HEAD": 204}, "s304": {"GET": 304, "HEAD": 304},
    "options": {"OPTIONS": 204}, "optstar": {"OPTIONS": 200},
    # the handler leaves a body in the response object but ends with a status that cannot carry one
    "sb204": {"GET": 204, "HEAD": 204}, "sb304": {"GET": 304, "HEAD": 304}, "sbp204": {"POST": 204},
    "naive204": {"GET": 204, "HEAD": 204},
    "defsb204": {"GET": 204, "HEAD": 204}, "defsb304": {"GET": 304, "HEAD": 304},
}
STALE_BODY_KINDS = ("sb204", "sb304", "sbp204", "naive204", "defsb204", "defsb304")


def mk_body(tok, n):
    p = "tok=%s;" % tok
    n = max(n, len(p))
    unit = tok + "|"
    return (p + unit * ((n - len(p)) // len(unit) + 2))[:n].encode()


def fnv64(b):
    h = 1469598103934665603
    for x in b:
        h = ((h ^ x) * 1099511628211) & 0xFFFFFFFFFFFFFFFF
    return h


class ReqX:
    """what the property expects for one request (computed from the request's own description)"""

    def __init__(self, i, q, defh):
        self.i, self.q = i, q
        self.kind, self.method, self.token = q["kind"], q["method"], q["token"]
        self.mal = q.get("mal") or ""
        self.close = bool(q.get("close"))
        self.head = self.method == "HEAD"
        self.status = None        # exact expected status, None = class check only
        self.tokened = True       # the response must carry X-Token
        self.body = None          # exact expected body (non-HEAD), None = not checked
        k, m = self.kind, self.method
        if k == "malformed":
            self.tokened = False
        elif k == "m405":
            self.status, self.tokened = 405, False
        elif k == "nope":
            self.status, self.tokened = 404, bool(defh)
            if defh:
                self.body = mk_body(self.token, 48)
        elif k in ("options", "optstar"):
            self.status, self.tokened = EXPECT[k][m], False
            if k == "optstar":
                self.body = b""
        else:
            self.status = EXPECT[k][m]
            if k in BODY_KINDS:
                self.body = mk_body(self.token, int(q["n"]))
            elif k == "echo":
                raw = bytes.fromhex(q["hex"])
                rb = raw[raw.find(b"\r\n\r\n") + 4:]
                self.body = ("tok=%s;len=%d;fnv=%016x;" % (self.token, len(rb), fnv64(rb))).encode()
            elif k in ("s204", "s304") or k in STALE_BODY_KINDS:
                self.body = b""
        self.trigger = (k == "malformed") or self.close


def analyze_conn(rec):
    """returns dict(viol=[(key, what, detail, needs_confirm)], obs={}, sig=..., sample=...)"""
    V, obs = [], {}

    def ob(name, n=1):
        obs[name] = obs.get(name, 0) + n

    defh = bool(rec.get("defh"))
    pipe = bool(rec.get("pipe"))
    depth = int(rec.get("depth", 1))
    reqs = [ReqX(i, q, defh) for i, q in enumerate(rec["reqs"])]
    data = bytes.fromhex(rec["rx"])
    eof = rec["eof"] in ("fin", "rst")
    stop = rec["stop"]
    where = dict(scn=rec["scn"], conn=rec["conn"], pipe=pipe, depth=depth, defh=int(defh), sendcap=rec.get("sendcap", 0),
                 profile=rec.get("profile"), eof=rec["eof"], stop=stop,
                 requests=["%s %s%s%s" % (r.method, r.kind, ":" + r.mal if r.mal else "", " [close]" if r.close else "") for r in reqs])
    if len(where["requests"]) > 40:
        where["requests"] = where["requests"][:3] + ["... %d more ..." % (len(reqs) - 9)] + where["requests"][-6:]
    mode = "pipeline" if pipe else "sequential"

    def viol(key, what, extra=None, confirm=False):
        d = dict(where)
        if extra:
            d.update(extra)
        V.append((key, what, d, confirm))

    ob("connections")
    ob("requests", len(reqs))
    ob("pipelined_connections" if pipe else "sequential_connections")
    if pipe:
        obs["max_pipeline_depth"] = min(depth, len(reqs))
    if rec.get("slow"):
        ob("slow_reader_connections")
    if stop == "connect-failed":
        return dict(viol=[], obs=obs, sig=None, sample=None, inconcl="client could not connect (scn %s conn %s)" % (rec["scn"], rec["conn"]))

    bytok = {r.token: r for r in reqs}

    def is_head(idx, resp):
        t = resp.get("x-token")
        if t is not None:
            r = bytok.get(t.decode("latin-1"))
            return bool(r and r.head)
        # no token: attribute by position (token-less HEAD requests are only sent sequentially)
        if not pipe and idx < len(reqs):
            return reqs[idx].head
        return False

    fr = rf.frame_stream(data, is_head, eof)
    complete = [r for r in fr.responses if r.complete]
    partial = [r for r in fr.responses if not r.complete]
    ob("responses_framed", len(complete))
    ob("bytes_received", len(data))

    # ---- map responses to requests
    answered = {}            # request index -> Resp
    order = []               # request index per complete response in stream order (None = unassigned)
    for r in complete:
        t = r.get("x-token")
        qi = None
        if t is not None:
            ts = t.decode("latin-1")
            rq = bytok.get(ts)
            if rq is None:
                viol("C16:pairing:foreign-token", "a response carries a token no request on this connection sent",
                     dict(token=ts, response=r.summary()))
            elif rq.i in answered:
                viol("C16:count:duplicate-response", "two responses carry the token of one request",
                     dict(token=ts, request=rq.i, response=r.summary()))
            else:
                qi = rq.i
        else:
            st = r.status or 0
            # a response without a token: first a token-less request that yields exactly this
            # status, then an unparsable request (any error status answers it)
            cands = [q for q in reqs if q.i not in answered and not q.tokened and q.status == st]
            if not cands:
                cands = [q for q in reqs if q.i not in answered and q.kind == "malformed" and st >= 400]
            if not cands:   # a 500 whose headers were replaced, or a 503 overload answer
                cands = [q for q in reqs if q.i not in answered and (q.status == st or (st == 503))]
                if st == 503 and cands:
                    ob("overload_503_responses")
            if cands:
                qi = cands[0].i
            else:
                rest = [q for q in reqs if q.i not in answered]
                if rest:
                    qi = rest[0].i   # position; the status check below reports the mismatch
                else:
                    viol("C16:count:extra-response", "a complete response arrived that no request accounts for",
                         dict(response=r.summary()))
        order.append(qi)
        if qi is not None:
            answered[qi] = r

    # ---- per-response checks
    for r, qi in zip(complete, order):
        for p in r.problems:
            viol("C16:format:" + p, "response is not well-formed: " + p, dict(response=r.summary()))
        if r.framing == "until-close":
            viol("C16:content-length:missing", "a response with a body carries neither Content-Length nor chunked framing",
                 dict(response=r.summary()))
        if qi is None:
            continue
        q = reqs[qi]
        st = r.status
        if q.kind == "malformed":
            ob("malformed_answered_with_error_status" if (st or 0) >= 400 else "malformed_answered_otherwise")
            if (st or 0) < 400:
                viol("C16:malformed:answered-with-success:" + q.mal, "an unparsable request was answered with a non-error status",
                     dict(request=qi, response=r.summary()))
        elif q.kind == "throw":
            ob("throw_requests_answered")
            if st != 500:
                viol("C16:throw:status-not-500", "a handler that throws was not answered with 500", dict(request=qi, response=r.summary()))
            else:
                ob("throw_answered_500_" + (q.q.get("thr") or "std"))
        elif q.status is not None and st != q.status:
            viol("C16:status:unexpected:%s-%s" % (q.kind, q.method), "response status is not what the route yields",
                 dict(request=qi, expected=q.status, response=r.summary()))
        else:
            ob("status_%s" % st)
        if q.tokened and r.get("x-token") is None and q.kind != "throw":
            viol("C16:pairing:token-header-missing", "the handler's X-Token header is missing from its response",
                 dict(request=qi, response=r.summary()))
        # body token vs header token
        if r.body.startswith(b"tok="):
            bt = r.body[4:r.body.find(b";")] if b";" in r.body else b"?"
            ht = r.get("x-token")
            if ht is not None and bt != ht:
                viol("C16:interleave:header-body-token-mismatch", "header and body of one response carry different tokens",
                     dict(request=qi, header_token=ht.decode("latin-1"), body_token=bt.decode("latin-1")[:80]))
        if q.kind in STALE_BODY_KINDS or q.kind in ("s204", "s304") or q.head:
            follow = any(r2.start >= r.end for r2 in fr.responses if r2 is not r)
            ob("bodyless_checked:%s-%s-%s" % (q.method, st, "handler-body" if q.kind in STALE_BODY_KINDS or q.kind in BODY_KINDS or q.kind in ("throw", "nope", "m405") else "no-body"))
            if follow:
                ob("bodyless_responses_followed_by_another_response")
        if q.head:
            ob("head_responses")
            if r.declared_length:
                ob("head_responses_with_content_length")
        elif q.body is not None and st == q.status:
            if r.framing == "length" and r.declared_length != len(q.body):
                viol("C16:content-length:not-equal-body", "Content-Length differs from the body the handler set",
                     dict(request=qi, declared=r.declared_length, body_set=len(q.body), response=r.summary()))
            elif r.body != q.body:
                viol("C16:interleave:body-bytes-differ", "body bytes are not the bytes the handler set for this token",
                     dict(request=qi, got=r.body[:120].decode("latin-1"), want=q.body[:120].decode("latin-1"),
                          first_diff=next((i for i in range(min(len(r.body), len(q.body))) if r.body[i] != q.body[i]), -1)))
            else:
                ob("bodies_verified_exact")
                if len(q.body) >= 65536:
                    ob("large_bodies_verified")
        if q.kind in ("options", "m405") and r.get("allow") is None:
            viol("C16:format:allow-missing", "405/OPTIONS answer without Allow", dict(request=qi, response=r.summary()))
        if int(q.q.get("h_calls", 0)) > 1:
            viol("C16:count:handler-invoked-twice", "the handler ran more than once for one request", dict(request=qi))

    # ---- bytes that are not part of any response
    for g in fr.garbage:
        prev = [r for r in complete if r.end == g.start]
        key = "C16:stream:garbage-between-responses"
        what = "bytes that do not start a response where a response had to start (interleaved or stray bytes)"
        if prev:
            p = prev[-1]
            pq = next((reqs[qi] for r, qi in zip(complete, order) if r is p and qi is not None), None)
            if p.is_head and g.data.startswith(b"tok=") or (pq is not None and pq.head):
                key, what = "C16:head:body-bytes", "body bytes follow the header block of a response to HEAD"
            elif (p.status or 0) in (204, 304):
                key, what = "C16:nobody-status:body-bytes", "body bytes follow a 204/304 response"
        viol(key, what, dict(offset=g.start, bytes=g.data[:160].decode("latin-1"), length=len(g.data)))

    # ---- order
    seq = [qi for qi in order if qi is not None]
    late = [(k, qi) for k, qi in enumerate(seq) if any(x > qi for x in seq[:k])]
    if late:
        ov = dj = 0
        for k, qi in late:
            for x in seq[:k]:
                if x > qi:
                    a, b = rec["reqs"][qi], rec["reqs"][x]
                    if a.get("h_exit") and b.get("h_enter"):
                        if a["h_exit"] >= b["h_enter"]:
                            ov += 1
                        else:
                            dj += 1
        ob("misorder_pairs_handlers_overlapped", ov)
        ob("misorder_pairs_handler_finished_before_overtaker_started", dj)
        viol("C16:%s:responses-out-of-order" % mode,
             "responses are not in request order: wire order (request indices) %s" % seq,
             dict(wire_order=seq, statuses=[r.status for r in complete],
                  handler_ms=[q.get("ms") for q in rec["reqs"]]))
    # input class that exposes completion reordering: a later request of the same flight has a
    # shorter handler than an earlier one
    if pipe:
        ms = [q.get("ms", 0) if reqs[i].kind not in ("malformed", "m405", "options", "optstar") else 0 for i, q in enumerate(rec["reqs"])]
        if any(ms[i] > ms[j] + 2 for i in range(len(ms)) for j in range(i + 1, len(ms)) if i // depth == j // depth):
            ob("pipelines_where_a_later_request_has_a_shorter_handler")
    # evidence that the pool really reordered completion
    ex = [(q.get("h_exit"), i) for i, q in enumerate(rec["reqs"]) if q.get("h_exit")]
    if pipe and len(ex) >= 2 and [i for _, i in sorted(ex)] != [i for _, i in ex]:
        ob("pipelines_with_handler_completion_out_of_request_order")

    # ---- count / close / malformed
    trig = next((q for q in reqs if q.trigger), None)
    required = [q for q in reqs if trig is None or q.i <= trig.i]
    missing = [q for q in required if q.i not in answered]
    tail = partial[0] if partial else None
    tail_bytes = (len(data) - tail.start) if tail is not None else 0
    if trig is not None and trig.close:
        ob("close_requests")
    if any(q.kind == "malformed" for q in reqs):
        ob("malformed_requests")

    def flight(i):
        return i // depth if pipe else i

    outcome = "in-order"
    if late:
        outcome = "misordered"
    if eof:
        ob("connections_closed_by_server")
        if rec["eof"] == "rst":
            ob("connections_ended_by_rst")
        # the stream was cut inside stray bytes (not a response at all) with responses still owed:
        # same event as a cut inside a response, the bytes in front of the cut are just unframable
        cut_in_garbage = bool(fr.garbage) and fr.garbage[-1].end == len(data) and tail is None and bool(missing) and trig is not None
        if cut_in_garbage:
            ob("streams_cut_inside_stray_bytes")
            viol("C16:close:response-truncated-before-eof",
                 "the server closed the connection while bytes were still unsent: the stream ends inside stray bytes (%d) with requests %s unanswered"
                 % (len(fr.garbage[-1].data), [q.i for q in missing]),
                 dict(received_total=len(data), trigger=trig.i, missing=[q.i for q in missing]))
            outcome = "truncated"
        elif tail is not None and tail_bytes > 0:
            outcome = "truncated"
            tq = None
            t = tail.get("x-token") if tail.headers else None
            if t is not None and t.decode("latin-1") in bytok:
                tq = bytok[t.decode("latin-1")]
            viol("C16:close:response-truncated-before-eof",
                 "the server closed the connection before a response was fully written (%d of %s bytes of it arrived)"
                 % (tail_bytes, (tail.head_end - tail.start + tail.declared_length) if tail.declared_length is not None and tail.head_end else "?"),
                 dict(partial_response=tail.summary(), for_request=tq.i if tq else None, received_total=len(data),
                      trigger=(trig.i if trig else None)))
            ob("truncated_tail_bytes_seen", tail_bytes)
        elif trig is None:
            if missing:
                viol("C16:count:closed-with-requests-unanswered",
                     "the server closed a persistent connection although no request asked for it; requests %s got no response"
                     % [q.i for q in missing], dict(missing=[q.i for q in missing]))
            else:
                ob("server_closed_idle_connection")
        else:
            before = [q for q in missing if q.i < trig.i]
            if before:
                outcome = "close-overtook"
                same = all(flight(q.i) == flight(trig.i) for q in before)
                if pipe and same and trig.kind == "malformed" and trig.mal in LENGTH_INFO_MAL:
                    viol("C16:pipeline:framing-rejection-overtakes-earlier-responses",
                         "the rejection of request %d (malformed:%s: invalid/oversized length information, %s) was carried out before the responses of earlier pipelined requests %s were written"
                         % (trig.i, trig.mal, "answered %s + close" % answered[trig.i].status if trig.i in answered else "closed without a response",
                            [q.i for q in before]),
                         dict(missing=[q.i for q in before], trigger=trig.i, wire_order=seq,
                              handler_ms=[q.get("ms") for q in rec["reqs"]]))
                elif pipe and same:
                    viol("C16:pipeline:close-overtakes-earlier-responses",
                         "the close caused by request %d (%s) was executed before the responses of earlier pipelined requests %s were written"
                         % (trig.i, "Connection: close" if trig.close else "malformed:" + trig.mal, [q.i for q in before]),
                         dict(missing=[q.i for q in before], trigger=trig.i, wire_order=seq,
                              handler_ms=[q.get("ms") for q in rec["reqs"]]))
                else:
                    viol("C16:count:response-missing-at-close",
                         "connection closed with earlier requests %s unanswered (not in flight together with the closing request)"
                         % [q.i for q in before], dict(missing=[q.i for q in before], trigger=trig.i))
            if trig.close and trig.i not in answered and not before:
                viol("C16:close:no-response-before-eof", "the connection was closed without any byte of the response to the Connection: close request",
                     dict(trigger=trig.i, received_total=len(data)))
            if trig.close and trig.i in answered:
                ob("close_response_complete_then_eof")
                last = answered[trig.i]
                after = [r for r in complete if r.start >= last.end]
                if after:
                    ob("responses_after_the_closing_response", len(after))
            if trig.kind == "malformed" and trig.i not in answered:
                ob("malformed_closed_without_response")
    else:
        if stop == "no-eof":
            sub = ":list-valued-connection-header" if trig is not None and "," in (trig.q.get("close_hdr") or "") else ""
            if not missing:
                outcome = "left-open"
                viol("C16:close:connection-left-open" + sub,
                     "the response to a request with '%s' was fully written but the server did not close the connection (waited %s ms)"
                     % (trig.q.get("close_hdr") if trig else "?", int((rec["t_end"] - max(rec["t_last_byte"], rec["t_last_send"])) / 1e6)),
                     dict(trigger=trig.i if trig else None), confirm=True)
        if stop == "silence" and missing:
            outcome = "stalled"
            first = missing[0]
            waited = int((rec["t_end"] - max(rec["t_last_byte"], rec["t_last_send"])) / 1e6)
            if first.kind == "malformed":
                viol("C16:malformed:no-status-no-close:" + first.mal,
                     "an unparsable request got neither an error status nor a close (connection silent for %d ms)" % waited,
                     dict(request=first.i, request_bytes=bytes.fromhex(first.q["hex"])[:120].decode("latin-1")), confirm=True)
            elif first.kind == "throw":
                viol("C16:throw:no-response", "a request whose handler throws got no response (connection silent for %d ms)" % waited,
                     dict(request=first.i, thrown=first.q.get("thr"), h_exit=first.q.get("h_exit")), confirm=True)
            else:
                viol("C16:count:response-missing", "requests %s got no response although the connection stayed open (silent for %d ms)"
                     % ([q.i for q in missing], waited), dict(missing=[q.i for q in missing]),
                     confirm=not rec.get("stall"))   # a race-mode stall was already probed with a kick request
        elif stop == "silence":
            viol("C16:stream:unframable-tail", "the stream ended inside something that is not a complete response",
                 dict(tail=tail.summary() if tail else None), confirm=True)
        if stop == "settled":
            if missing or tail is not None:
                return dict(viol=V, obs=obs, sig=None, sample=None,
                            inconcl="client pacer and reference framer disagree (scn %s conn %s): missing=%s tail=%s"
                                    % (rec["scn"], rec["conn"], [q.i for q in missing], tail.summary() if tail else None))
            ob("keepalive_connections_quiescent_with_all_responses")
    # ---- race mode: a stall suspect that the client probed with one more request (the kick)
    st = rec.get("stall")
    if rec.get("profile") == "race":
        ob("race_chunks_judged")
        ob("race_rounds_judged_by_reference_framer", len(reqs) // 2)
    if st:
        # The verdict is made on the FIRST unanswered request F of the connection (requests of one
        # connection are processed strictly one after the other, so nothing behind F can start
        # before F has finished). F was PARKED by the server iff
        #   (1) its handler had not been entered when the kick was written (snapshot taken by the
        #       harness right before the kick, after 3 x stall_ms of silence) — a handler that was
        #       entered before the kick means F was running or its thread was descheduled: slowness;
        #   (2) no handler of this connection was executing at any time during the stall window;
        #   (3) other connections of the same server completed requests during the whole window and
        #       during its last two thirds (server, I/O thread and pool alive);
        #   (4) after the kick F's handler was entered promptly (< 250 ms) and F and the kick were
        #       answered, in order.
        ob("race_stall_kicks_judged")
        f_i, k_i = st["first_unanswered"], st["kick"]
        kick = rec["reqs"][k_i] if k_i < len(rec["reqs"]) else None
        F = reqs[f_i] if f_i < len(reqs) else None
        if F is not None and kick is not None:
            t_kick = int(st.get("t_kick_ns") or kick["sent_ns"])
            f_enter_final = int(F.q.get("h_enter") or 0)
            entered_before_kick = bool(st.get("first_unanswered_h_enter_at_kick")) or (0 < f_enter_final <= t_kick)
            # the stall window = the silence before the kick: from the last byte received (or F's write) to the kick
            window_start = max(int(F.q.get("sent_ns") or 0), t_kick - int(st.get("silent_ms_before_kick", st["stall_ms"])) * 1000000 + 1000000)
            executing = [q.i for q in reqs[:k_i] if int(q.q.get("h_enter") or 0) and int(q.q["h_enter"]) <= t_kick and
                         (not int(q.q.get("h_exit") or 0) or int(q.q["h_exit"]) >= window_start)]
            alive = st.get("others_progress", 0) > 0 and st.get("others_progress_last_two_thirds", 0) > 0
            lag_ms = (f_enter_final - t_kick) / 1e6 if f_enter_final else None
            answered_all = all(q.i in answered for q in reqs[f_i:k_i + 1])
            facts = dict(stall=st, first_unanswered=f_i, token=F.token, sent_ns=F.q.get("sent_ns"), t_kick_ns=t_kick,
                         h_enter=F.q.get("h_enter"), h_exit=F.q.get("h_exit"), handler_entered_before_kick=entered_before_kick,
                         handlers_of_this_connection_executing_in_window=executing, handler_entry_after_kick_ms=lag_ms,
                         wire_order=seq[-6:])
            if entered_before_kick or executing:
                ob("race_stall_kicks_slow_handler_was_entered_before_the_kick")
            elif not alive:
                ob("race_stall_kicks_server_made_no_progress_at_all")
            elif answered_all and lag_ms is not None and 0 < lag_ms < 250:
                outcome = "parked-until-next-input"
                viol("C16:stall:request-parked-until-next-input#event",
                     "request %d was completely sent and stayed unanswered with the connection open for %d ms; its handler had not been entered "
                     "and no handler of this connection was running, while other connections of the same server completed %d requests (%d in the "
                     "last two thirds); %.1f ms after one more request was written on the same connection its handler was entered and both were "
                     "answered, in order: the server had parked it until the next input"
                     % (f_i, st.get("silent_ms_before_kick", st["stall_ms"]), st["others_progress"],
                        st["others_progress_last_two_thirds"], lag_ms), facts)
            elif answered_all:
                ob("race_stall_kicks_answered_long_after_the_kick")  # not attributable to the kick
    if not V:
        ob("connections_fully_conforming")

    kinds = sorted(set("%s-%s" % (q.kind, q.method) for q in reqs))
    sig = vf.h64(json.dumps([pipe, min(depth, 16), len(reqs), kinds, [q.mal for q in reqs if q.mal],
                             bool(trig and trig.close), bool(rec.get("slow")), bool(rec.get("sendcap")), defh, outcome]))
    sample = dict(scn=rec["scn"], conn=rec["conn"], mode=mode, depth=depth, requests=where["requests"],
                  wire_order=seq, statuses=[r.status for r in complete], eof=rec["eof"], stop=stop,
                  bytes=len(data), outcome=outcome)
    return dict(viol=V, obs=obs, sig=sig, sample=sample, inconcl=None)


# ------------------------------------------------------------------------------------- driver
def _args(seed, job):
    a = ["--seed", seed, "--from", job["from"], "--count", job["count"], "--defhandler", job["defh"],
         "--sendcap", job["sendcap"], "--profile", job["profile"], "--silence-ms", job["silence"],
         "--closewait-ms", job["closewait"], "--settle-ms", job["settle"]]
    if job.get("bigmax"):
        a += ["--bigmax", job["bigmax"]]
    if job.get("onlyconn") is not None:
        a += ["--onlyconn", job["onlyconn"]]
    if job["profile"] == "race":
        a += ["--rounds", job["rounds"], "--hammers", job.get("hammers", 0), "--raceconns", job.get("raceconns", 8),
              "--stall-ms", job.get("stall", 1000)]
    return a


def _run_job(ctx, binary, job, tag):
    out = os.path.join(ctx.tmp, "c16-%s-%s.jsonl" % (vf.flavor_of(binary), tag))
    rr = vf.run_harness(binary, _args(ctx.seed, job) + ["--out", out], timeout=job.get("timeout", 900), out_file=out)
    conns = [r for r in rr.records if r.get("t") == "conn"]
    rr.records = [r for r in rr.records if r.get("t") != "conn"]
    try:
        os.unlink(out)
    except OSError:
        pass
    res = []
    for rec in conns:
        try:
            a = analyze_conn(rec)
        except Exception as e:  # an analysis crash must never read as "held"
            import traceback
            a = dict(viol=[], obs={}, sig=None, sample=None,
                     inconcl="analysis failed for scn %s conn %s: %s %s" % (rec.get("scn"), rec.get("conn"), e, traceback.format_exc()[-600:]))
        a["scn"], a["conn"] = rec["scn"], rec["conn"]
        res.append(a)
    bad = None
    if rr.timed_out or rr.rc != 0:
        bad = "harness process rc=%s timed_out=%s (%s, %s) stderr=%s" % (rr.rc, rr.timed_out, rr.flavor, tag, rr.err[-300:])
    return dict(rr=rr, res=res, bad=bad, job=job, binary=binary, nconn=len(conns))


def _plan(tier, seed):
    """list of (flavor, job)"""
    jobs = []

    def add(flavor, n_proc, per, base, slow_procs=0, slow_per=3, silence=8000, closewait=2500, settle=150, bigmax=0):
        caps = [0, 0, 1460, 0, 700, 0, 8192, 0, 3000, 0, 0, 257]
        for i in range(n_proc):
            jobs.append((flavor, dict(**{"from": base + i * per}, count=per, defh=i % 2, sendcap=caps[i % len(caps)],
                                      profile="mix", silence=silence, closewait=closewait, settle=settle, bigmax=bigmax)))
        for i in range(slow_procs):
            jobs.append((flavor, dict(**{"from": base + 100000 + i * slow_per}, count=slow_per, defh=i % 2, sendcap=0,
                                      profile="slow", silence=silence * 2, closewait=closewait, settle=settle,
                                      bigmax=bigmax)))
    def race(flavor, n_proc, rounds, base, stall=700, silence=8000, hammers=0, conns=8):
        for i in range(n_proc):
            jobs.append((flavor, dict(**{"from": base + 200000 + i}, count=1, defh=0, sendcap=0, profile="race", silence=silence,
                                      closewait=2500, settle=150, bigmax=0, rounds=rounds, stall=stall,
                                      hammers=hammers if i % 2 else 0, raceconns=conns)))
    if tier == "thorough":
        race("plain", 6, 20000, 0, hammers=1)
        race("asan", 2, 3000, 10000, stall=2000, silence=15000)
        race("tsan", 2, 600, 20000, stall=2500, silence=20000, conns=4)
        add("plain", 16, 60, 0, slow_procs=6, slow_per=12)
        add("asan", 16, 25, 10000, slow_procs=2, slow_per=10, silence=15000, closewait=5000, settle=300)
        add("tsan", 16, 25, 20000, slow_procs=2, slow_per=10, silence=20000, closewait=6000, settle=400)
    else:
        race("plain", 2, 4000, 0)
        race("tsan", 1, 250, 20000, stall=2500, silence=20000, conns=4)
        add("plain", 10, 7, 0, slow_procs=2, slow_per=3)
        add("tsan", 5, 4, 20000, slow_procs=0, silence=20000, closewait=6000, settle=400)
    return jobs


PARKED_KEY = "C16:stall:request-parked-until-next-input"


def _merge(ctx, out, confirm_list, parked=None):
    rr = out["rr"]
    ctx.ingest(rr, where="(%s)" % rr.flavor)
    if out["bad"]:
        ctx.inconcl(out["bad"])
    for a in out["res"]:
        for k, n in a["obs"].items():
            if k == "max_pipeline_depth":
                ctx.obs_max(k, n)
            else:
                ctx.obs(k, n)
        if a.get("inconcl"):
            confirm_list.append((out, a, None))
            continue
        if a["sig"] is not None:
            ctx.case(a["sig"], a["sample"])
        for key, what, detail, confirm in a["viol"]:
            detail = dict(detail, flavor=rr.flavor, argv=rr.argv)
            if key == PARKED_KEY + "#event":
                (parked if parked is not None else []).append((out, what, detail))
                continue
            if confirm:
                confirm_list.append((out, a, (key, what, detail)))
            else:
                ctx.violation(key, what, detail)


def run(ctx):
    rf._selftest()
    plan = _plan(ctx.tier, ctx.seed)
    flavors = sorted(set(f for f, _ in plan))
    bins = vf.build_many([(NAME, f) for f in flavors])
    jobs = []
    for n, (fl, job) in enumerate(plan):
        jobs.append(lambda fl=fl, job=job, n=n: _run_job(ctx, bins[(NAME, fl)], job, "p%d" % n))
    confirm, parked = [], []
    for out in vf.run_many(ctx, jobs):
        _merge(ctx, out, confirm, parked)

    # Parked-request events (race mode). One event alone could be a thread or vCPU frozen for
    # seconds right before the handler entry that happens to resume just after the kick; a lost
    # wake-up in the server shows again. Two or more events in this run are a violation; a single
    # event is re-run once (same race job, twice the rounds) and counts only if it shows again.
    ctx.obs("race_parked_request_events", len(parked))
    if len(parked) == 1:
        out0, what0, detail0 = parked[0]
        job = dict(out0["job"])
        job["rounds"] = int(job["rounds"]) * 2
        again = _run_job(ctx, out0["binary"], job, "re-race")
        ctx.obs("isolated_reruns")
        more = []
        _merge(ctx, again, confirm, more)
        if more:
            parked += more
        else:
            ctx.obs("race_single_parked_event_not_reproduced")
            ctx.extra["race_single_parked_event_not_reproduced"] = dict(what=what0, detail={k: v for k, v in detail0.items() if k != "requests"})
    if len(parked) >= 2:
        for out0, what0, detail0 in parked:
            ctx.violation(PARKED_KEY, what0, dict(detail0, parked_events_in_this_run=len(parked)))

    # verdicts that rest on a wall-clock bound (silence, missing EOF) or on a pacer/framer
    # disagreement: re-run that scenario once, alone (doubled bounds), and keep only what shows
    # again. At most 3 suspects per key are re-run (the verdict is per key).
    per_key, todo, seen = {}, [], set()
    for out, a, v in confirm:
        k = v[0] if v else "inconcl"
        tag = (out["rr"].flavor, a["scn"], a["conn"], k)
        if tag in seen or per_key.get(k, 0) >= 3:
            continue
        seen.add(tag)
        per_key[k] = per_key.get(k, 0) + 1
        todo.append((out, a, v))
    if len(confirm) > len(todo):
        ctx.obs("time_bound_suspects_not_rerun_same_key", len(confirm) - len(todo))

    def rerun(out, a, v):
        job = dict(out["job"])
        job.update({"from": a["scn"], "count": 1, "silence": job["silence"] * 2, "closewait": job["closewait"] * 2})
        return _run_job(ctx, out["binary"], job, "re-%s-%s-%s" % (out["rr"].flavor, a["scn"], a["conn"]))

    agains = vf.run_many(ctx, [lambda o=o, a=a, v=v: rerun(o, a, v) for o, a, v in todo])
    for (out, a, v), again in zip(todo, agains):
        ctx.obs("isolated_reruns")
        hit = None
        for b in again["res"]:
            if b["conn"] != a["conn"]:
                continue
            if v is None:
                if b.get("inconcl"):
                    hit = ("inconcl", b["inconcl"])
            else:
                for key, what, detail, c in b["viol"]:
                    if key == v[0]:
                        hit = (key, what, dict(detail, flavor=again["rr"].flavor, argv=again["rr"].argv, reproduced_in_isolation=True))
        if again["bad"]:
            ctx.inconcl(again["bad"])
        elif hit is None:
            ctx.obs("timeout_suspects_not_reproduced")
        elif hit[0] == "inconcl":
            ctx.inconcl(hit[1])
        else:
            ctx.violation(*hit)

    dump = os.environ.get("VF_C16_DUMP")   # debugging aid: every violation record incl. known findings
    if dump:
        with open(dump, "w") as fh:
            for v in ctx.violations:
                fh.write(json.dumps(v, default=str) + "\n")

    ctx.rule = ("connection = seeded (sequential | pipelined depth 2-16, 1-16 requests over routes w/echo/put/patch/del/create/big/"
                "throw(std|int)/204/304/404/405/OPTIONS/OPTIONS*/HEAD variants, 204/304 with a handler-set or inherited body via GET/HEAD/POST and the default handler, optional malformed request at one position "
                "(15 kinds), optional Connection: close (5 spellings) on the last request, normal or slow reader, server send() "
                "capped or not, default handler or built-in 404); 1-32 connections run concurrently per scenario. distinct = hash of "
                "(mode, depth, #requests, set of kind-method, malformed kind, close?, slow?, capped?, default handler?, outcome class)")
    ctx.rule += ("; race mode: 8 keep-alive connections x N rounds of (request A, then request B in a separate write at a seeded offset: "
                 "-100..+20 us around the return of A's 120 us busy handler / measured response latency minus 0..120 us / 0..300 us after "
                 "sending A / 0..60 us after the first byte of response A); first chunk, anomalous chunks and stall chunks are judged by "
                 "the reference framer, the others by an in-order token check in the client")
    ctx.assumptions = [
        "a 204/304 response and every response to HEAD must put no body bytes on the wire whatever the handler left in the response object (RFC 9112 6.3: such a message ends at the empty line); both handler styles are driven: body cleared by the handler, and body set/inherited and left in place",
        "a connection on which nothing arrives for the silence bound (8 s plain, 15-20 s sanitizers; doubled on the isolated re-run) while responses are outstanding will never deliver them; likewise 2.5 s (5-6 s sanitizers; doubled on the re-run) for the close after a completely received Connection: close response",
        "token-less HEAD answers (built-in 404, 405) are attributed by position and therefore only sent on sequential connections",
        "race mode: the FIRST unanswered request of a connection whose handler had not been entered after 3 x the stall bound (2.1 s plain, 6-7.5 s sanitizers) of silence with no handler of that connection running, while other connections progressed throughout, and whose handler is entered < 250 ms after one more request is written on that connection, was parked by the server; a handler entered before the kick, or an answer arriving without the kick, is slowness",
        "the client never half-closes and never sends after a Connection: close request, so a server-side close is always the server's decision",
    ]
    ctx.require_obs("connections", "pipelined_connections", "sequential_connections", "responses_framed", "bodies_verified_exact",
                    "head_responses", "throw_answered_500_std", "throw_answered_500_int", "status_204", "status_304", "status_404",
                    "status_405", "malformed_answered_with_error_status", "malformed_closed_without_response",
                    "close_response_complete_then_eof", "keepalive_connections_quiescent_with_all_responses",
                    "pipelines_where_a_later_request_has_a_shorter_handler", "srv_send_calls_capped",
                    "slow_reader_connections", "large_bodies_verified",
                    "bodyless_responses_followed_by_another_response",
                    "race_rounds", "race_chunks_judged", "race_rounds_b_at_offset_after_handler_of_a_returned",
                    "race_rounds_b_at_measured_latency_minus_x", "race_rounds_b_at_offset_after_sending_a",
                    "race_rounds_b_after_first_byte_of_response_a", "race_rounds_b_written_before_response_a_arrived",
                    "race_rounds_response_a_arrived_within_100us_after_b_was_written",
                    "bodyless_checked:HEAD-200-handler-body", "bodyless_checked:HEAD-204-handler-body",
                    "bodyless_checked:HEAD-304-handler-body", "bodyless_checked:HEAD-404-handler-body",
                    "bodyless_checked:HEAD-405-handler-body", "bodyless_checked:HEAD-500-handler-body",
                    "bodyless_checked:GET-204-handler-body", "bodyless_checked:GET-304-handler-body",
                    "bodyless_checked:POST-204-handler-body",
                    "bodyless_checked:GET-204-no-body", "bodyless_checked:GET-304-no-body")


def replay(ctx, path):
    with open(path) as fh:
        rp = json.load(fh)
    d = (rp.get("first") or {}).get("detail") or {}
    argv = d.get("argv")
    if not argv:
        raise vf.HarnessFailure("replay file carries no argv")
    flavor = d.get("flavor", "plain")
    binary = vf.build(NAME, flavor)
    args = argv[1:]
    # restrict to the scenario of the recorded case
    def setarg(name, val):
        if name in args:
            args[args.index(name) + 1] = str(val)
        else:
            args.extend([name, str(val)])
    setarg("--from", d.get("scn", 0))
    setarg("--count", 1)
    out = os.path.join(ctx.tmp, "replay.jsonl")
    setarg("--out", out)
    rr = vf.run_harness(binary, args, timeout=900, out_file=out)
    ctx.ingest(rr)
    for rec in [r for r in rr.records if r.get("t") == "conn"]:
        a = analyze_conn(rec)
        for k, n in a["obs"].items():
            ctx.obs(k, n)
        if a["sig"] is not None:
            ctx.case(a["sig"], a["sample"])
        for key, what, detail, confirm in a["viol"]:
            ctx.violation(key.replace("#event", ""), what, dict(detail, flavor=flavor, argv=rr.argv))
    ctx.rule = "replay of scenario %s (%s)" % (d.get("scn"), rp.get("key"))
