# C10 — bounded queues: FIFO, lossless, bounded, no lost wake-up, race-free
import os
import vf

LEVEL = "exploration"
BUILDS = [("c10_queue", "plain"), ("c10_queue", "tsan"), ("c10_queue", "asan")]


def _bq_worker(ctx, binary, seed, start, count, timeout):
    """Run scenarios [start, start+count); a stuck caller ends the process (its threads can never
    be joined), so resume after the scenario that stopped it."""
    results = []
    cur, end = start, start + count
    while cur < end:
        out = os.path.join(ctx.tmp, f"bq-{vf.flavor_of(binary)}-{start}-{cur}.jsonl")
        rr = vf.run_harness(binary, ["--mode", "bq", "--seed", seed, "--from", cur, "--count", end - cur,
                                     "--out", out], timeout=timeout, out_file=out)
        results.append(rr)
        stopped = [r for r in rr.records if r.get("t") == "stopped"]
        if stopped:
            cur = stopped[0]["at"] + 1
            continue
        if rr.timed_out or rr.rc not in (0,):
            rr.bad = f"bq worker rc={rr.rc} timed_out={rr.timed_out} stderr={rr.err[-400:]}"
        break
    return results


def run(ctx):
    thorough = ctx.tier == "thorough"
    flavors = ["plain", "tsan"] + (["asan"] if thorough else [])
    bins = vf.build_many([("c10_queue", f) for f in flavors])
    n_bq = 10000 if thorough else 208
    ring_cases = 96 if thorough else 12
    ring_items = 2000000 if thorough else 400000
    jobs = []
    for fl in flavors:
        b = bins[("c10_queue", fl)]
        scale = 1 if fl == "plain" else (4 if fl == "asan" else 8)
        nb = max(16, n_bq // scale)
        per = max(1, nb // 16)
        for w in range(0, nb, per):
            jobs.append(lambda b=b, w=w, per=per: ("bq", _bq_worker(ctx, b, ctx.seed, w, per, 600)))
        rc = max(6, ring_cases // (1 if fl != "tsan" else 2))
        ri = ring_items // scale
        for w in range(0, rc, 2):
            def ring(b=b, w=w, ri=ri):
                out = os.path.join(ctx.tmp, f"ring-{vf.flavor_of(b)}-{w}.jsonl")
                rr = vf.run_harness(b, ["--mode", "ring", "--seed", ctx.seed, "--from", w, "--count", 2,
                                        "--items", ri, "--out", out], timeout=900, out_file=out)
                if rr.timed_out or rr.rc not in (0, 87, 86):
                    rr.bad = f"ring worker rc={rr.rc} timed_out={rr.timed_out} stderr={rr.err[-400:]}"
                return ("ring", [rr])
            jobs.append(ring)
    for kind, rrs in vf.run_many(ctx, jobs):
        for rr in rrs:
            ctx.ingest(rr, where=f"({kind}, {rr.flavor})")
            if getattr(rr, "bad", None):
                ctx.inconcl(rr.bad)
    ctx.rule = ("blocking-queue scenarios = seeded (capacity, producers, consumers, op mix, close moment, pre-park delay) "
                "with every item unique (producer,seq,checksum); ring cases = SPSC runs per (ring type, capacity) with "
                "single/batch/peek mixes and resize at quiescent points. distinct = hash of (capacity, P, C, close kind, "
                "items left at close?, put-found-full?, take-found-empty?, timeout seen?, refusal after close?) resp. (ring, cap, case)")
    ctx.assumptions = [
        "a caller still parked 6 s after close() returned, with the queue closed, is stuck forever (lost wake-up), not slow",
        "ring size() is sampled only from the producer or consumer thread (the documented SPSC contract)",
        "TSan's happens-before model is the oracle for the C++ memory-model clause; x86 hardware would hide a relaxed load",
    ]
    ctx.require_obs("bq_scenarios", "bq_put_found_full", "bq_take_found_empty", "bq_items_left_at_close",
                    "bq_refused_after_close", "ring_items", "ring_full_seen", "ring_empty_seen", "ring_resizes",
                    "condvar_prepark_delays", "bq_burst_consumers_parked", "bq_burst_producers_parked",
                    "bq_failed_takes_judged", "bq_refused_puts_judged",
                    "bq_burst_then_close_consumers_parked", "bq_burst_then_close_producers_parked")


def replay(ctx, path):
    """Re-run the blocking-queue scenario or ring case a replay file names (repeated: the interleaving itself
    is not replayable), else the whole tier with the recorded seed."""
    import json
    with open(path) as fh:
        rp = json.load(fh)
    d = (rp.get("first") or {}).get("detail") or {}
    if not isinstance(d, dict) or ("scenario" not in d and "idx" not in d):
        ctx.seed, ctx.tier = rp.get("seed", ctx.seed), rp.get("tier", ctx.tier)
        return run(ctx)
    seed = d.get("seed", rp.get("seed", ctx.seed))
    bins = vf.build_many([("c10_queue", f) for f in ("plain", "tsan")])
    jobs = []
    for fl, reps in (("plain", 24), ("tsan", 8)):
        b = bins[("c10_queue", fl)]
        for rep in range(reps):
            if "scenario" in d:
                jobs.append(lambda b=b, rep=rep: _bq_worker(ctx, b, seed, int(d["scenario"]) + 0, 1, 600) if rep >= 0 else None)
            else:
                def ring(b=b, rep=rep):
                    out = os.path.join(ctx.tmp, f"rring-{vf.flavor_of(b)}-{rep}.jsonl")
                    return [vf.run_harness(b, ["--mode", "ring", "--seed", seed, "--from", int(d["idx"]), "--count", 1,
                                               "--items", 400000 // (1 if vf.flavor_of(b) == "plain" else 8), "--out", out], timeout=900, out_file=out)]
                jobs.append(ring)
    for rrs in vf.run_many(ctx, jobs, workers=1 if "scenario" in d else None):
        for rr in rrs:
            ctx.ingest(rr, where=f"(replay, {rr.flavor})")
            if getattr(rr, "bad", None):
                ctx.inconcl(rr.bad)
    ctx.rule = f"replay of {'scenario ' + str(d.get('scenario')) if 'scenario' in d else 'ring case ' + str(d.get('idx'))} seed {seed} (24 plain + 8 tsan runs)"
