# C19 — DNS messages decode exactly or are rejected; cached answers honour TTL
#
# decode : lib/c19_dnsgen.py encodes well-formed responses (own compressor) and derives byte-level mutants;
#          harness/c19_dns.cpp (asan) hands each byte string to DnsMessage::parse in an exact-size heap buffer
#          and reports the rendering / exception type / death of the child; the verdict is computed here.
# query  : DnsMessage::buildQuery output decoded by a reference decoder here and by iora.
# cache  : seeded DnsCache histories with the steady clock under harness control (reference model in the harness).
import json, multiprocessing, os, random, re, struct
import vf
import c19_dnsgen as g

LEVEL = "exploration"
BUILDS = [("c19_dns", "asan"), ("c19_fuzz", "fuzz")]

TYPED_IDX = {k: 4 + i for i, k in enumerate(g.TYPED_ORDER)}   # position in the brief count vector

# CPU-time bound for one parse under asan: generous constant + per-byte slope (a linear decoder needs ~0.05 us/byte)
_BOUND_CONST_NS = int(os.environ.get("VF_C19_TIME_BOUND_CONST_NS", "5000000"))   # override only to exercise the re-run path


def time_bound_ns(n):
    return _BOUND_CONST_NS + 20_000 * n


class Acc:
    """picklable per-shard result"""

    def __init__(self):
        self.viols, self.obs, self.sigs, self.samples, self.inconcl = [], {}, set(), [], []
        self.evals = 0
        self.san = 0

    def ob(self, k, n=1): self.obs[k] = self.obs.get(k, 0) + n
    def viol(self, key, what, detail):
        if sum(1 for v in self.viols if v[0] == key) < 3:
            self.viols.append((key, what, detail))
        else:
            self.viols.append((key, what, None))


def _hexcap(b, n=3000):
    h = b.hex()
    return h if len(h) <= n else h[:n] + "...(%d bytes)" % len(b)


def _has_aaaa_hi(m):
    return any(rr["type"] == g.T_AAAA and any(b >= 0xC0 for b in rr["addr"][:15]) for s in m.sections.values() for rr in s)


def _has_txt_hi(m):
    for s in m.sections.values():
        for rr in s:
            if rr["type"] == g.T_TXT:
                sp = rr["span"]
                rd = m.wire[sp["rd0"]:sp["rd0"] + sp["rdlen"]]
                if any(b >= 0xC0 for b in rd[:-1]):
                    return True
    return False


def _has_a_ptrlike(m):
    return any(rr["type"] == g.T_A and rr["addr"][0] == 0xC0 and rr["addr"][1] < 64 and rr["addr"][2:] == b"\0\0"
               for s in m.sections.values() for rr in s)


def classify_rejection(m, r):
    w = r.get("w", "")
    if r["ex"] != "DnsParseException":
        return "C19:decode:wellformed:exception:" + re.sub(r"[^A-Za-z_]", "", r["ex"])[:40], "well-formed response ended in " + r["ex"]
    if "Malicious compression pointer detected in 28" in w and _has_aaaa_hi(m):
        return "C19:decode:aaaa:high-byte-rejected", "well-formed response with an AAAA address containing a byte >= 0xC0 rejected as malicious"
    if "Malicious compression pointer detected in 16" in w and _has_txt_hi(m):
        return "C19:decode:txt:high-byte-rejected", "well-formed response with a TXT RDATA byte >= 0xC0 (text byte or length octet) rejected as malicious"
    if "Malicious compression pointer detected in A record" in w and _has_a_ptrlike(m):
        return "C19:decode:a:pointer-like-address-rejected", "well-formed response with an A record 192.(0-63).0.0 rejected as malicious"
    if "Domain name too long: 254" in w and m.walked255:
        return "C19:decode:name-wire-255:rejected", "well-formed response with a maximum-length name (255 octets on the wire, 253 characters) rejected"
    return "C19:decode:wellformed:rejected", "well-formed response rejected: " + w[:100]


def classify_mismatch(m, act):
    exp = m.expected
    for k in ["h", "q", "an", "ns", "ar"] + g.TYPED_ORDER:
        if act.get(k) != exp[k]:
            if k in g.TYPED_ORDER and k in m.rdata255 and len(act.get(k, [])) < len(exp[k]):
                return ("C19:decode:name-wire-255:typed-record-dropped",
                        "typed %s record whose RDATA holds a maximum-length name (255 octets on the wire) silently dropped" % k, k)
            if k in g.TYPED_ORDER and len(act.get(k, [])) < len(exp[k]):
                return "C19:decode:mismatch:%s:typed-record-missing" % k, "typed %s record of a well-formed response missing from the result" % k, k
            return "C19:decode:mismatch:%s" % k, "decoded %s differs from what the message encodes" % k, k
    return None


def crash_key(rec):
    txt = rec.get("stderr", "")
    reps = vf.parse_sanitizer(txt)
    if reps:
        k = reps[0]["key"]
        if "validateRdataSecurity" in k:
            return "C19:decode:empty-rdata:oob-read", "AAAA/TXT record with RDLENGTH 0: rdata.size()-1 underflows in validateRdataSecurity -> read through a null/out-of-bounds pointer (%s)" % reps[0]["kind"], reps[0]["text"][:3000]
        return "C19:san:" + k, "sanitizer report " + k, reps[0]["text"][:3000]
    return "C19:decode:crash:" + rec.get("status", "?").replace(" ", "-"), "decoder process died: " + rec.get("status", "?"), txt[-2000:]


def decode_shard(job):
    seed, shard, rounds, binary, tmp, n_msgs, n_bases, per_base, n_sweeps, n_rand, with_bombs = job
    acc = Acc()
    for rnd in range(rounds):
        rng = random.Random((seed * 1000003 + shard) * 1009 + rnd)
        entries, meta = [], []          # meta[i] = (kind, payload)
        msgs = [g.gen_message(rng) for _ in range(n_msgs)]
        for m in msgs:
            entries.append((m.wire, 0)); meta.append(("wf", m))
        for _ in range(n_bases):
            base = g.gen_message(rng, "clean")
            for b, cls, expect in g.mutants(rng, base, per_base):
                entries.append((b, 2)); meta.append(("mut", (cls, expect, b)))
        for _ in range(n_sweeps):
            base = g.gen_message(rng, "clean")
            if len(base.wire) > 700:
                continue
            entries.append((base.wire, 3)); meta.append(("sweep", base))
        for _ in range(n_rand):
            b, cls = g.gen_random_bytes(rng)
            entries.append((b, 2)); meta.append(("mut", (cls, None, b)))
        if with_bombs and rnd == 0:
            for size in (2048, 8192, 32768, 65535):
                for max_chain in (None, 120):       # unbounded chain, and one short enough to pass a 128-hop limit (names walked in full)
                    b, chain, nrec = g.gen_bomb(rng, size, max_chain)
                    entries.append((b, 2)); meta.append(("bomb", (size, chain, nrec, b)))
        tag = "dec-%d-%d" % (shard, rnd)
        inp, outp = os.path.join(tmp, tag + ".bin"), os.path.join(tmp, tag + ".jsonl")
        g.write_batch(inp, entries)
        rr = vf.run_harness(binary, ["--mode", "decode", "--in", inp, "--out", outp, "--hangcpums", 20000], timeout=1800, out_file=outp)
        for p in (inp, outp):
            try:
                os.unlink(p)
            except OSError:
                pass
        done = any(r.get("t") == "done" for r in rr.records)
        if rr.timed_out or rr.rc != 0 or not done:
            acc.inconcl.append("decode batch %s did not complete: rc=%s timed_out=%s stderr=%s" % (tag, rr.rc, rr.timed_out, rr.err[-300:]))
        slow = []
        for r in rr.records:
            t = r.get("t")
            if t == "inconclusive":
                acc.inconcl.append(r.get("what", "")); continue
            if t == "done":
                continue
            i = r["i"]
            kind, pay = meta[i]
            if t in ("crash", "hang"):
                wire = pay.wire if kind in ("wf", "sweep") else pay[-1]
                if kind == "sweep":
                    wire = wire[:r["k"]]
                cls = "wellformed" if kind == "wf" else ("truncation" if kind == "sweep" else pay[0] if kind == "mut" else "pointer-chain")
                if t == "hang":
                    acc.viol("C19:decode:hang:" + re.sub(r"-(q|owner|rdata)$", "", cls), "decoder spent more than 20 s of CPU on one %d-byte input (%s)" % (len(wire), cls),
                             dict(hex=_hexcap(wire), cls=cls, status=r.get("status")))
                else:
                    key, what, text = crash_key(r)
                    acc.san += 1
                    acc.viol(key, what + " [input class: %s]" % cls, dict(hex=_hexcap(wire), cls=cls, status=r.get("status"), report=text))
                acc.ob("decode_child_deaths")
                acc.evals += 1
                continue
            acc.evals += 1
            n = r.get("ns", 0)
            if kind == "wf":
                m = pay
                for sg in m.sigs:
                    acc.sigs.add(vf.h64(repr(sg)))
                acc.ob("wellformed_messages")
                if m.enc.ptr_sites:
                    acc.ob("wellformed_with_compression")
                if any(ps["where"] == "rdata" for ps in m.enc.ptr_sites):
                    acc.ob("wellformed_with_pointer_inside_rdata")
                if m.into_rdata:
                    acc.ob("wellformed_with_pointer_into_rdata_name")
                if m.walked255 or m.rdata255:
                    acc.ob("wellformed_with_255_octet_name")
                if "ex" in r:
                    key, what = classify_rejection(m, r)
                    acc.viol(key, what, dict(hex=_hexcap(m.wire), exception=r["ex"], message=r.get("w")))
                    acc.ob("wellformed_rejected")
                else:
                    act = g.normalise_actual(r["r"])
                    mm = classify_mismatch(m, act)
                    if mm:
                        key, what, k = mm
                        acc.viol(key, what, dict(hex=_hexcap(m.wire), field=k, expected=m.expected[k][:4], actual=act.get(k, [])[:4]))
                        acc.ob("wellformed_mismatch")
                    else:
                        acc.ob("wellformed_exact")
                        for rrk in g.TYPED_ORDER:
                            if m.expected[rrk]:
                                acc.ob("exact_typed_" + rrk, len(m.expected[rrk]))
                        if len(acc.samples) < 2 and m.enc.ptr_sites:
                            acc.samples.append(dict(kind="well-formed", hex=_hexcap(m.wire, 600), pointers=len(m.enc.ptr_sites), outcome="decoded exactly"))
                if n > time_bound_ns(len(m.wire)):
                    slow.append((m.wire, "wellformed", n))
            elif kind == "sweep":
                acc.ob("truncations")
                acc.ob("truncation_rejected" if "ex" in r else "truncation_accepted")
                if "ex" in r and r["ex"] != "DnsParseException":
                    acc.viol("C19:decode:malformed:exception:" + re.sub(r"[^A-Za-z_]", "", r["ex"])[:40], "truncated message ended in %s instead of DnsParseException" % r["ex"],
                             dict(hex=_hexcap(pay.wire[:r["k"]]), message=r.get("w")))
                if r["k"] % 64 == 0:
                    acc.sigs.add(vf.h64("trunc:%s:%s" % ("ex" in r, min(r["k"] // 64, 8))))
            elif kind == "mut":
                cls, expect, b = pay
                outcome = "rejected" if "ex" in r else "accepted"
                acc.ob("mutants")
                acc.ob("mutant_" + outcome)
                acc.sigs.add(vf.h64("mut:%s:%s" % (cls, outcome)))
                if "ex" in r and r["ex"] != "DnsParseException":
                    acc.viol("C19:decode:malformed:exception:" + re.sub(r"[^A-Za-z_]", "", r["ex"])[:40], "malformed message (%s) ended in %s instead of DnsParseException" % (cls, r["ex"]),
                             dict(hex=_hexcap(b), cls=cls, message=r.get("w")))
                if expect:
                    why = expect[1] if expect[0] == "must-reject" else expect[3]
                    acc.ob("ptr_rewrites_judged")
                    if expect[0] == "must-reject":
                        acc.ob("must_reject_" + why)
                        if "ok" in r:
                            acc.viol("C19:%s:accepted:%s" % (why, expect[3]), "message with a %s (%s) on the %s-name path decoded without error" % (why, expect[2], expect[3]),
                                     dict(hex=_hexcap(b), cls=cls))
                    else:
                        acc.ob("reject_or_drop_" + why)
                        if "ok" in r:
                            got = r["c"][TYPED_IDX[expect[1]]]
                            if got >= expect[2]:
                                acc.viol("C19:%s:accepted:rdata" % why, "%s (%s) inside the RDATA name of a %s record produced a typed record anyway" % (why, expect[4], expect[1]),
                                         dict(hex=_hexcap(b), cls=cls, typed_count=got, rr_count=expect[2]))
                            else:
                                acc.ob("rdata_pointer_fault_contained_record_dropped")
                    if len(acc.samples) < 4 and "ex" in r:
                        acc.samples.append(dict(kind=cls, hex=_hexcap(b, 400), outcome=r["ex"] + ": " + r.get("w", "")[:80]))
                if n > time_bound_ns(len(b)):
                    slow.append((b, cls, n))
            elif kind == "bomb":
                size, chain, nrec, b = pay
                acc.ob("pointer_chain_messages")
                acc.ob("pointer_chain_accepted" if "ok" in r else "pointer_chain_rejected")
                acc.sigs.add(vf.h64("bomb:%d:%d:%s" % (size, chain, "ok" in r)))
                acc.obs["pointer_chain_max_cpu_ms"] = max(acc.obs.get("pointer_chain_max_cpu_ms", 0), n // 1000000)
                if n > time_bound_ns(len(b)):
                    slow.append((b, "pointer-chain:%d-pointers-x-%d-names" % (chain, nrec), n))
        # time-bound candidates: re-run each once in isolation; only a reproduced excess counts
        for b, cls, n in slow[:8]:
            inp, outp = os.path.join(tmp, tag + ".slow.bin"), os.path.join(tmp, tag + ".slow.jsonl")
            # the isolated process parses the input SIX times and the verdict uses the FASTEST of the last five: the first
            # parse of a fresh (sanitizer) process pays one-off costs — the first C++ exception alone initialises the unwinder,
            # 100+ ms of CPU on a slow VM — and a noisy neighbour can inflate any single measurement; a decoder that is
            # genuinely superlinear on this input is slow every time
            g.write_batch(inp, [(b, 2)] * 6)
            r2 = vf.run_harness(binary, ["--mode", "decode", "--in", inp, "--out", outp, "--hangcpums", 60000], timeout=600, out_file=outp)
            reps = [x.get("ns", 0) for x in r2.records if "i" in x and x.get("i", 0) >= 1]
            n2 = min(reps) if len(reps) >= 3 else 0
            for p in (inp, outp):
                try:
                    os.unlink(p)
                except OSError:
                    pass
            if n2 > time_bound_ns(len(b)):
                base = cls.split(":")[0]
                acc.viol("C19:decode:%s:superlinear-time" % ("pointer-chain" if base == "pointer-chain" else "slow:" + base),
                         "parse of a %d-byte message took %.0f ms of CPU (%.0f ms when re-run alone); the linear bound for that size is %.0f ms [%s]"
                         % (len(b), n / 1e6, n2 / 1e6, time_bound_ns(len(b)) / 1e6, cls),
                         dict(hex=_hexcap(b, 400), cls=cls, cpu_ms=n / 1e6, cpu_ms_isolated=n2 / 1e6, bytes=len(b)))
            else:
                acc.ob("time_bound_excess_not_reproduced")
    return acc


def query_shard(job):
    seed, shard, binary, tmp, n = job
    acc = Acc()
    rng = random.Random(seed * 7919 + shard * 31 + 5)
    cases = [g.gen_query_case(rng) for _ in range(n)]
    inp, outp = os.path.join(tmp, "q-%d.txt" % shard), os.path.join(tmp, "q-%d.jsonl" % shard)
    with open(inp, "w") as fh:
        for c in cases:
            fh.write("Q %d %d %d\n" % (c["id"], c["rd"], len(c["qs"])))
            for name, t, cl in c["qs"]:
                fh.write("%s %d %d\n" % (name.hex() or "-", t, cl))
    rr = vf.run_harness(binary, ["--mode", "query", "--in", inp, "--out", outp], timeout=600, out_file=outp)
    if rr.rc != 0 or rr.timed_out or not any(r.get("t") == "done" for r in rr.records):
        acc.inconcl.append("query batch %d did not complete: rc=%s stderr=%s" % (shard, rr.rc, rr.err[-300:]))
    for rep in rr.san_reports:
        acc.san += 1
        acc.viol("C19:san:" + rep["key"], "sanitizer report in buildQuery round trip " + rep["key"], dict(report=rep["text"][:3000]))
    for r in rr.records:
        if "i" not in r:
            continue
        c = cases[r["i"]]
        valid, exp = g.query_expect(c)
        acc.evals += 1
        detail = dict(case=dict(id=c["id"], rd=c["rd"], qs=[(nm.hex(), t, cl) for nm, t, cl in c["qs"]]))
        acc.sigs.add(vf.h64("q:%d:%s:%s:%s" % (len(c["qs"]), valid, "ex" in r, c["rd"])))
        if "ex" in r:
            acc.ob("query_refused")
            if r["ex"] != "DnsParseException":
                acc.viol("C19:query:exception:" + re.sub(r"[^A-Za-z_]", "", r["ex"])[:40], "buildQuery threw " + r["ex"], detail)
            elif valid:
                acc.ob("query_valid_name_refused")      # e.g. names of 254/255 wire octets: not built, so nothing to decode back
            continue
        acc.ob("query_built")
        b = bytes.fromhex(r["hex"])
        if not valid:
            acc.viol("C19:query:invalid-name:built", "buildQuery produced a message for a name with a label > 63 or a wire length > 255", dict(detail, hex=r["hex"][:600]))
            continue
        try:
            hdr, qs, end = g.ref_decode_questions(b)
        except ValueError as e:
            acc.viol("C19:query:roundtrip:undecodable", "buildQuery output does not decode (reference decoder: %s)" % e, dict(detail, hex=r["hex"][:600]))
            continue
        want_flags = 0x0100 if c["rd"] in (1, 2) else 0
        ok = (qs == exp and end == len(b) and hdr[2:] == (len(exp), 0, 0, 0) and hdr[1] == want_flags and
              (hdr[0] == c["id"] if c["id"] else hdr[0] != 0))
        if not ok:
            acc.viol("C19:query:roundtrip:reference-mismatch", "buildQuery output decodes (reference decoder) to other questions/header than requested",
                     dict(detail, hex=r["hex"][:600], decoded=[(g.name_hex(l), t, cl) for l, t, cl in qs], header=hdr))
            continue
        d = r["dec"]
        if "ex" in d:
            acc.viol("C19:query:roundtrip:iora-rejects-own-query", "DnsMessage::parse rejects a message buildQuery produced: " + d.get("w", "")[:80], dict(detail, hex=r["hex"][:600]))
            continue
        got = [[q[0], q[1], q[2]] for q in d["r"]["q"]]
        want = [[g.name_hex(l), t, cl] for l, t, cl in exp]
        if got != want or d["r"]["h"][0] != hdr[0] or d["r"]["h"][5] != (1 if want_flags else 0):
            acc.viol("C19:query:roundtrip:iora-mismatch", "DnsMessage::parse of a buildQuery message yields other questions than requested", dict(detail, hex=r["hex"][:600], got=got[:3]))
            continue
        acc.ob("query_roundtrip_exact")
        if len(acc.samples) < 1 and len(c["qs"]) > 1:
            acc.samples.append(dict(kind="query", questions=[(nm.decode("latin1"), t, cl) for nm, t, cl in c["qs"]], hex=r["hex"][:200], outcome="decoded back exactly (reference decoder and iora)"))
    for p in (inp, outp):
        try:
            os.unlink(p)
        except OSError:
            pass
    return acc


def cache_shard(job):
    seed, binary, tmp, start, count, ops = job
    outp = os.path.join(tmp, "cache-%d.jsonl" % start)
    rr = vf.run_harness(binary, ["--mode", "cache", "--seed", seed, "--from", start, "--count", count, "--ops", ops, "--out", outp], timeout=1200, out_file=outp)
    try:
        os.unlink(outp)
    except OSError:
        pass
    if rr.timed_out or rr.rc != 0 or not any(r.get("t") == "done" for r in rr.records):
        rr.bad = "cache histories %d.. did not complete: rc=%s timed_out=%s stderr=%s" % (start, rr.rc, rr.timed_out, rr.err[-300:])
    return rr


def run_fuzz(ctx, runs_per_job, jobs):
    """libFuzzer on DnsMessage::parse (thorough): corpus seeded with generated messages and mutants, bounded by -runs"""
    fb = vf.build("c19_fuzz", "fuzz")
    d = os.path.join(ctx.tmp, "fuzz")
    corpus = os.path.join(d, "corpus")
    os.makedirs(corpus, exist_ok=True)
    rng = random.Random(ctx.seed ^ 0xF019)
    n = 0
    for i in range(400):
        m = g.gen_message(rng)
        if len(m.wire) > 2048:
            continue
        with open(os.path.join(corpus, "m%04d" % i), "wb") as fh:
            fh.write(m.wire)
        n += 1
        if i % 4 == 0:
            for j, (b, cls, _e) in enumerate(g.mutants(rng, m, 2)):
                if len(b) <= 2048:
                    with open(os.path.join(corpus, "x%04d-%d" % (i, j)), "wb") as fh:
                        fh.write(b)
    workers = min(jobs, vf.NCPU)
    args = ["-runs=%d" % runs_per_job, "-jobs=%d" % jobs, "-workers=%d" % workers, "-max_len=2048", "-seed=%d" % ctx.seed,
            "-artifact_prefix=%s/artifact-" % d, "-print_final_stats=1", "-timeout=25", "-rss_limit_mb=3000", corpus]
    rr = vf.run_harness(fb, args, timeout=3000, cwd=d, parse_stdout=False)
    ctx.flavors.add("fuzz")
    execs, logs = 0, ""
    for f in sorted(os.listdir(d)):
        if f.startswith("fuzz-") and f.endswith(".log"):
            with open(os.path.join(d, f), "r", errors="replace") as fh:
                t = fh.read()
            logs += t
            for mm in re.finditer(r"stat::number_of_executed_units:\s*(\d+)", t):
                execs += int(mm.group(1))
    ctx.obs("fuzz_executions", execs)
    ctx.obs("fuzz_seed_corpus", n)
    ctx.evaluations += execs
    arts = {}
    for a in os.listdir(d):
        if a.startswith("artifact-"):
            with open(os.path.join(d, a), "rb") as fh:
                arts[a] = fh.read()[:1500].hex()
    for mm in re.finditer(r"C19-FUZZ-VIOL (\S+) (.*)", logs + rr.err):
        ctx.violation(mm.group(1), "libFuzzer in-process assertion: " + mm.group(2)[:200], dict(artifacts=arts))
    for rep in vf.parse_sanitizer(logs + "\n" + rr.err):
        if "deadly-signal" in rep["key"] and "C19-FUZZ-VIOL" in logs:
            continue                                  # the abort() of an in-process assertion, already reported
        ctx.san_reports += 1
        key, what, text = crash_key(dict(stderr=rep["text"]))
        ctx.violation(key, what + " [libFuzzer]", dict(report=text, artifacts=arts))
    if rr.timed_out:
        ctx.inconcl("libFuzzer run hit the outer watchdog")
    if execs == 0:
        ctx.inconcl("libFuzzer executed nothing: " + (rr.err[-300:] or logs[-300:]))


def _merge(ctx, acc):
    ctx.evaluations += acc.evals
    ctx.add_sigs(acc.sigs)
    ctx.san_reports += acc.san
    for k, v in acc.obs.items():
        if k.endswith("_max_cpu_ms"):
            ctx.obs_max(k, v)
        else:
            ctx.obs(k, v)
    for key, what, detail in acc.viols:
        ctx.violation(key, what, detail)
    for s in acc.samples:
        if len(ctx.samples) < 6:
            ctx.samples.append(s)
    for w in acc.inconcl:
        ctx.inconcl(w)


def run(ctx):
    thorough = ctx.tier == "thorough"
    binary = vf.build("c19_dns", "asan")
    ctx.flavors.add("asan")
    W = 16
    rounds = 30 if thorough else 1
    # per shard and round: 1875 well-formed + 650 bases x 15 mutants + ~22 truncation sweeps + 600 random strings
    djobs = [(ctx.seed, s, rounds, binary, ctx.tmp, 1875, 650, 15, 22, 600, s == 0) for s in range(W)]
    qjobs = [(ctx.seed, s, binary, ctx.tmp, (40000 if thorough else 1500)) for s in range(W)]
    n_hist = 200000 if thorough else 2000
    per = n_hist // (W * (4 if thorough else 1))
    cjobs = [(ctx.seed, binary, ctx.tmp, st, per, 80) for st in range(0, n_hist, per)]
    mp = multiprocessing.get_context("fork")
    with mp.Pool(min(vf.NCPU, W)) as pool:
        rd = pool.map_async(decode_shard, djobs, chunksize=1)
        rq = pool.map_async(query_shard, qjobs, chunksize=1)
        rc = pool.map_async(cache_shard, cjobs, chunksize=1)
        for acc in rd.get() + rq.get():
            _merge(ctx, acc)
        for rr in rc.get():
            ctx.ingest(rr, where="(cache histories)")
            if getattr(rr, "bad", None):
                ctx.inconcl(rr.bad)
    if thorough:
        run_fuzz(ctx, 750_000, 12)
        ctx.require_obs("fuzz_executions")
    ctx.rule = ("decode: every well-formed message from the generator (own encoder/compressor) must come back as exactly its header, questions, "
                "section records and typed records; every mutant/truncation/random string must end in a result or DnsParseException with no sanitizer "
                "report, no dead or spinning child and CPU time <= 5 ms + 20 us/byte; a rewritten pointer (self, loop, 2-cycle, out of range) on a "
                "question/owner path must be rejected, inside a typed record's RDATA name it must be rejected or that typed record dropped. "
                "query: buildQuery output decodes (reference decoder and iora) to the requested questions. cache: get() may return only the value "
                "last put for the same (lower(name), type, class) and only strictly before insertion + min record TTL / negative TTL. "
                "distinct = hashes of (record types, compression positions used, pointer into RDATA?, binary labels?, boundary name?, section shape) "
                "for messages, (mutant class, outcome) for mutants, set of history event kinds for cache histories")
    ctx.assumptions = [
        "labels never contain the byte 0x2E: iora reports names as unescaped dotted strings, such a label is not representable",
        "typed records are generated in class IN only; unsupported types are compared as generic records (type, class, ttl, raw RDATA)",
        "an AAAA address is compared by value (iora's text parsed back with Python's ipaddress), not by text form",
        "a pointer fault inside the RDATA name of a typed record counts as reported when parse throws or that typed record is absent "
        "(parseTypedRecord logs and drops it by design); on question and owner names only an exception counts",
        "truncated input that still decodes is not judged (the property allows a decoded message or an error); it is counted",
        "CPU time (CLOCK_THREAD_CPUTIME_ID) is the promptness measure; an excess is re-measured alone before it counts",
        "cache entries whose result carries no record at all (no TTL to honour) are checked for identity only, not for expiry",
        "TTL values are taken as unsigned 32-bit seconds; the boundary of a TTL >= 2^31 is visited once per history",
    ]
    ctx.require_obs("wellformed_exact", "wellformed_with_compression", "wellformed_with_pointer_inside_rdata",
                    "wellformed_with_pointer_into_rdata_name", "mutants", "truncations", "must_reject_pointer-loop",
                    "must_reject_pointer-out-of-range", "reject_or_drop_pointer-loop", "pointer_chain_messages",
                    "query_roundtrip_exact", "cache_histories", "cache_probe_just_before_hit", "cache_probe_exactly_at_miss",
                    "cache_probe_just_after_miss", "cache_hit_negative_before_expiry", "cache_mode_running")
    ctx.extra["tier_counts"] = dict(rounds=rounds, shards=W, cache_histories=n_hist)


def replay(ctx, path):
    """re-run the input stored in a replay file (decode violations carry the message hex; cache ones seed+history)"""
    with open(path) as fh:
        rp = json.load(fh)
    d = (rp.get("first") or {}).get("detail") or {}
    binary = vf.build("c19_dns", "asan")
    if "history" in d:
        rr = cache_shard((d.get("seed", rp.get("seed", 1)), binary, ctx.tmp, d["history"], 1, 80))
        ctx.ingest(rr, where="(replay)")
    elif "hex" in d and "..." not in d["hex"]:
        key = rp.get("key", "")
        wire = bytes.fromhex(d["hex"])
        inp, outp = os.path.join(ctx.tmp, "replay.bin"), os.path.join(ctx.tmp, "replay.jsonl")
        timing = "superlinear" in key
        g.write_batch(inp, [(wire, 0)] * (6 if timing else 1))
        rr = vf.run_harness(binary, ["--mode", "decode", "--in", inp, "--out", outp], timeout=300, out_file=outp)
        if timing:
            # same discipline as the check itself: fastest of the last five parses in one process (the first pays one-off costs)
            reps = [x.get("ns", 0) for x in rr.records if "i" in x and x.get("i", 0) >= 1]
            fastest = min(reps) if len(reps) >= 3 else 0
            print(json.dumps(dict(parses=len(reps) + 1, fastest_of_last_five_ns=fastest, bound_ns=time_bound_ns(len(wire)))))
            if fastest > time_bound_ns(len(wire)):
                ctx.violation(key, "reproduced: fastest of five warm parses still exceeds the linear bound", dict(hex=d["hex"], ns=fastest))
            ctx.case("replay:" + key, dict(key=key))
            ctx.rule = "replay of one recorded input (timing: fastest of five warm parses)"
            return
        for r in rr.records:
            print(json.dumps({k: (v if k != "stderr" else v[:2000]) for k, v in r.items()})[:4000])
            if r.get("t") in ("crash", "hang"):
                k2, what, text = crash_key(r) if r["t"] == "crash" else (key, "decoder spinning again", "")
                ctx.violation(k2, what, dict(report=text, hex=d["hex"]))
            elif "i" in r:
                again = False
                if ":accepted" in key:
                    again = "ok" in r
                elif "superlinear" in key:
                    again = r.get("ns", 0) > time_bound_ns(len(wire))
                elif "mismatch" in key or "typed-record-dropped" in key:
                    again = "ok" in r and g.normalise_actual(r["r"]).get(d.get("field"), [])[:4] != d.get("expected")
                elif key.endswith("rejected") or ":exception:" in key:
                    again = "ex" in r
                if again:
                    ctx.violation(key, "reproduced: " + (rp.get("first") or {}).get("what", ""), dict(hex=d["hex"], outcome={k: v for k, v in r.items() if k != "r"}))
        ctx.case("replay", dict(replayed=path, bytes=len(wire)))
    else:
        ctx.inconcl("replay file carries no re-runnable input")
