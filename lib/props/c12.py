# C12 — KVStore equals a reference map with per-key absolute expiry, across restarts.
# Oracle: harness/c12_model.hpp (plain std::map, no iora code) evaluated at the wall clock the
# harness controls (harness/c12_clock.hpp on top of the shared clock shim). The C++ driver
# (harness/c12_kvmodel.cpp) runs the real KVStore:
#   --mode hist : seeded sequential histories, ALL read APIs compared with the model after every
#                 step, wall clock frozen just before / exactly at / just after each expiry with
#                 eviction not run, both clocks advanced so eviction does run, restarts, compaction;
#   --mode conc : readers/writers/compaction/clock jumps racing the eviction worker on a running
#                 clock, per-key linearizability check; this part also runs under TSan.
import json, os
import vf

LEVEL = "exploration"
BUILDS = [("c12_kvmodel", "plain"), ("c12_kvmodel", "asan"), ("c12_kvmodel", "tsan")]
NAME = "c12_kvmodel"


def _chunks(start, total, per):
    cur = start
    while cur < start + total:
        n = min(per, start + total - cur)
        yield cur, n
        cur += n


def _job(ctx, binary, mode, start, count, extra, timeout):
    """One worker process over scenarios [start, start+count). Watchdog firing -> the scenario is
    re-run once alone; only a reproduced stall is a violation."""
    def go():
        d = os.path.join(ctx.tmp, f"{mode}-{vf.flavor_of(binary)}-{start}")
        os.makedirs(d, exist_ok=True)
        base = ["--mode", mode, "--seed", ctx.seed, "--dir", d] + list(extra)
        rrs = vf.run_resumable(ctx, binary, base, start, count, timeout=timeout, tag=f"{mode}{start}")
        out = []
        for rr in rrs:
            bad = getattr(rr, "bad", None)
            if bad and rr.timed_out:
                begun = [r["i"] for r in rr.records if r.get("t") == "begin"]
                k = begun[-1] if begun else start
                alone = vf.run_resumable(ctx, binary, base, k, 1, timeout=timeout, tag=f"{mode}{k}alone")
                if any(getattr(a, "timed_out", False) for a in alone):
                    rr.records.append(dict(t="viol", key=f"C12:{mode}:stuck", what=f"{mode} scenario {k} did not finish within {timeout}s twice "
                                           f"(alone as well): a KVStore call or close never returned",
                                           detail=dict(scenario=k, seed=ctx.seed, flavor=vf.flavor_of(binary), argv=rr.argv)))
                else:
                    rr.records.append(dict(t="obs", name="watchdog_fired_but_not_reproduced", n=1))
                    out.extend(alone)
                rr.bad = None
            out.append(rr)
        return mode, out
    return go


def run(ctx):
    thorough = ctx.tier == "thorough"
    bins = vf.build_many(BUILDS)
    P, A, T = bins[(NAME, "plain")], bins[(NAME, "asan")], bins[(NAME, "tsan")]
    jobs = []
    if thorough:
        hist = [(P, 0, 16000, 50, []), (A, 16000, 11000, 50, []), (T, 27000, 3000, 50, [])]
        conc = [(T, 0, 1000, 8), (P, 1000, 640, 8), (A, 1640, 360, 8)]
        steps = 40
    else:
        hist = [(P, 0, 720, 36, []), (A, 720, 480, 30, [])]
        conc = [(T, 0, 128, 8), (P, 128, 64, 8), (A, 192, 32, 8)]
        steps = 40
    for b, start, total, per, extra in hist:
        for s, n in _chunks(start, total, per):
            jobs.append(_job(ctx, b, "hist", s, n, ["--steps", steps] + extra, 600))
    for b, start, total, per in conc:
        for s, n in _chunks(start, total, per):
            jobs.append(_job(ctx, b, "conc", s, n, [], 600))
    for mode, rrs in vf.run_many(ctx, jobs):
        for rr in rrs:
            ctx.ingest(rr, where=f"({mode}, {rr.flavor})")
            if getattr(rr, "bad", None):
                ctx.inconcl(rr.bad)
    ctx.rule = (
        "hist case = one seeded history (config: cache size 1-4|1000, wheel tick 10 ms x {2,4,128,256} slots x {1,2,4} levels, "
        "inline/background/no auto-compaction; 16 binary keys incl. lengths 255/256/65535; values 0/1/255/256/65535/65536 B and random) "
        "of >= 40 steps, every third one starting with one of 28 directed shapes (persist/expireAt then restart after the first expiry, "
        "TTL-overwrite-compact-restart, compaction/restart with expired-not-evicted keys, cache entry across expiry, ...); after every step "
        "get/exists/ttl on 19 keys, getBatch, keys, 6-8 prefix scans and size are compared with the model at the frozen wall clock. "
        "conc case = one run of 2-3 writers (one per key), 3 readers, admin thread (compact/flush/wall-clock jumps) on 3 keys. "
        "distinct = hash of (config, set of step kinds used, directed shape, restart/compaction seen) resp. (config, writers, compaction mode, jumps, evictions seen)")
    ctx.assumptions = [
        "expired iff now >= expiry: kvstore.hpp uses `expiry <= now` on every read path, in compaction and in load(); the model uses the same convention",
        "an expired key is absent for every purpose: expireAt()/persist() on it are no-ops (the map-with-expiry reading of the property)",
        "model resolution is 1 ms (expiries are persisted as epoch ms); hist mode freezes the wall clock at ms-aligned instants, so sub-ms truncation at restart is not judged",
        "hist mode freezes system_clock (harness definition of std::chrono::system_clock::now on top of the CLOCK_REALTIME offset shim); wall-clock jumps during a single API call are out of reach",
        "conc mode: exactly one writer per key, so writes per key are totally ordered; a read may observe the state after any write that may precede it, at any instant inside the read",
        "eviction having run is observed through 'D' records appearing in the log with no API call in progress; it is coverage evidence, never a verdict",
    ]
    ctx.require_obs("hist_histories", "hist_reads_compared", "hist_probe_just_before", "hist_probe_exactly_at",
                    "hist_probe_just_after", "hist_compare_rounds_with_expired_not_dropped_key",
                    "hist_evictions_observed_in_log", "hist_restarts_after_first_expiry_of_extended_key",
                    "hist_restarts_with_expired_not_evicted_keys", "hist_restarts_exactly_at_an_expiry",
                    "hist_compactions_with_expired_not_evicted_keys", "hist_mono_only_advances",
                    "conc_runs", "conc_reads_checked", "conc_reads_overlapping_a_write",
                    "conc_reads_overlapping_an_expiry_instant", "conc_reads_of_expired_key_judged_absent",
                    "conc_evictions_seen_in_log_lower_bound", "conc_wall_clock_jumps", "conc_compactions")


def replay(ctx, path):
    """Re-run the history / run named in a replay file (plain + asan; conc runs are schedule-dependent)."""
    with open(path) as fh:
        rp = json.load(fh)
    det = (rp.get("first") or {}).get("detail") or {}
    mode = "conc" if "run" in det else "hist"
    idx = det.get("run", det.get("history", 0))
    ctx.seed = det.get("seed", rp.get("seed", ctx.seed))
    bins = vf.build_many([(NAME, "plain"), (NAME, "asan")])
    for fl in ("plain", "asan"):
        for mode_, rrs in [_job(ctx, bins[(NAME, fl)], mode, idx, 1, [], 600)()]:
            for rr in rrs:
                ctx.ingest(rr, where=f"(replay {mode}, {fl})")
    ctx.rule = f"replay of {mode} scenario {idx} seed {ctx.seed}"
