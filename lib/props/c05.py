# C05 — stop/destroy of a transport never strands, crashes or races
import json, os
import vf
import c04_common as cc

LEVEL = "exploration"
NAME = "c05_teardown"
XF = ("-fno-access-control",)   # observation of Transport::Impl's parked-caller counters under its own lock
BUILDS = [(NAME, "asan", XF), (NAME, "tsan", XF), (NAME, "plain", XF)]

TD = ["stop-from-other-thread", "last-owner-dropped-on-user-thread", "last-owner-dropped-in-onClose",
      "last-owner-dropped-in-onData", "stop-from-callback-then-stop", "start-stop-cycles", "two-concurrent-stops"]


def _first_pass(ctx, rr, where):
    cc.annotate(rr, ctx.seed)
    cc.filter_tsan(ctx, rr)
    ctx.ingest(rr, where=where)


def _isolated(ctx, binary, idx, timeout=900):
    out = os.path.join(ctx.tmp, f"iso-{vf.flavor_of(binary)}-{idx}.jsonl")
    extra = ["--nested-start", 1] if int(idx) >= 1000000 else []
    rr = vf.run_harness(binary, ["--seed", ctx.seed, "--from", idx, "--count", 1, "--out", out] + extra, timeout=timeout, out_file=out)
    cc.annotate(rr, ctx.seed)
    cc.filter_tsan(ctx, rr)
    return rr


def run(ctx):
    thorough = ctx.tier == "thorough"
    flavors = ["asan", "tsan"] + (["plain"] if thorough else [])
    bins = vf.build_many([(NAME, f, XF) for f in flavors])
    plan = {"plain": 8000, "asan": 7000, "tsan": 5000} if thorough else {"asan": 960, "tsan": 640}
    nworkers = {"plain": 6, "asan": 5, "tsan": 5} if thorough else {"asan": 8, "tsan": 8}
    jobs = []
    for fl in flavors:
        b = bins[(NAME, fl)]
        n, w = plan[fl], nworkers[fl]
        per = (n + w - 1) // w
        for s in range(0, n, per):
            cnt = min(per, n - s)
            jobs.append(lambda b=b, s=s, cnt=cnt: cc.worker(ctx, b, ["--seed", ctx.seed], s, cnt,
                                                            5400 if thorough else 1500, "c05"))
    # nested start() from callbacks runs in its own processes and its own index range: on a tree where it
    # aborts the process (known finding) it must not take the other scenarios of a worker down with it
    for fl in (["asan", "plain"] if thorough else ["asan"]):
        n, w = (400, 4) if thorough else (48, 4)
        per = n // w
        for s in range(0, n, per):
            jobs.append(lambda b=bins[(NAME, fl)], s=s, per=per: cc.worker(ctx, b, ["--seed", ctx.seed, "--nested-start", 1], 1000000 + s, per,
                                                                         5400 if thorough else 1500, "c05ns"))
    deaths = []
    for rrs in vf.run_many(ctx, jobs):
        for rr in rrs:
            _first_pass(ctx, rr, f"({rr.flavor})")
            for r in rr.records:   # a nested start() that ended the process cannot report its own counter
                if r.get("t") == "stuck" and ":start-called-from-a-callback" in str(r.get("key")):
                    ctx.obs("nested_start_from_callback_attempted")
                if r.get("t") == "obs" and r.get("name") in ("nested_start_from_callback_returned", "nested_start_from_callback_threw_logic_error"):
                    ctx.obs("nested_start_from_callback_attempted", r.get("n", 1))
            if hasattr(rr, "died_at"):
                deaths.append(rr)

    # ---- a process that stopped because calls were stranded, or that died: run that iteration alone
    seen, seen_keys, skipped = set(), set(), 0
    for rr in deaths:
        kind = cc.death_kind(rr)
        if kind == "sanitizer":
            continue  # the report itself is the violation; the worker resumed after that iteration
        tag = (rr.flavor, rr.died_at)
        ks = frozenset(r.get("key") for r in rr.records if r.get("t") == "stuck")
        if tag in seen or (ks and ks <= seen_keys):
            continue  # one representative per distinct stranding/crash key is re-run alone
        if len(seen) >= 24:
            skipped += 1
            continue
        seen.add(tag)
        seen_keys |= ks
        scn = rr.died_scn.get("scn", "?")
        keys1 = sorted({r.get("key") for r in rr.records if r.get("t") == "stuck"})
        r2 = None
        for attempt in range(4 if kind == "stuck" else 1):   # a stranding is a race: give it a few chances alone
            r2 = _isolated(ctx, bins[(NAME, rr.flavor)], rr.died_at)
            if any(r.get("t") == "stuck" and r.get("key") in keys1 for r in r2.records) or r2.san_reports:
                break
        for rep in r2.san_reports:
            ctx.violation(f"{ctx.prop}:san:{rep['key']}", f"sanitizer report {rep['key']} (isolated re-run)", dict(text=rep["text"][:4000]))
        for r in r2.records:
            if r.get("t") == "viol":
                ctx.violation(r["key"], r.get("what", ""), r.get("detail"))
        keys2 = sorted({r.get("key") for r in r2.records if r.get("t") == "stuck"})
        died2 = r2.timed_out or r2.rc not in (0, 87) or bool(keys2)
        run_info = dict(flavor=rr.flavor, idx=rr.died_at, seed=ctx.seed)
        if kind == "stuck" and any(k.startswith("harness:") for k in keys1):
            ctx.inconcl(f"iteration {rr.died_at} ({scn}, {rr.flavor}): {keys1} (the raw peer's trigger was lost; nothing was torn down)")
        elif kind == "stuck":
            common = [k for k in keys1 if k in keys2]
            if common:
                for k in common:
                    what = ("the process died (fatal signal / std::terminate) in the phase or nested call the key names, again when the iteration ran alone"
                            if k.startswith("C05:crash:") else
                            "a call was still blocked 15 s after teardown began (its own timeout is 60 s), again when the iteration ran alone")
                    ctx.violation(k, what, dict(desc=rr.died_scn.get("desc"), _run=run_info))
            else:
                ctx.inconcl(f"iteration {rr.died_at} ({scn}, {rr.flavor}): stranded calls {keys1} once, {keys2 or 'none'} when run alone")
        elif kind == "exit-3":
            ctx.inconcl(f"iteration {rr.died_at} ({scn}, {rr.flavor}): harness set-up failed (exit 3): {rr.err[-200:]}")
        else:
            if died2 and not r2.san_reports:
                ctx.violation(f"C05:harness-process-died:{scn}:{kind}", f"iteration {rr.died_at} ({scn}, {rr.flavor}) ended with {kind}, again when run alone",
                              dict(first=rr.err[-1500:], second=r2.err[-1500:], _run=run_info))
            elif not died2:
                ctx.inconcl(f"iteration {rr.died_at} ({scn}, {rr.flavor}) ended with {kind} once and passed when run alone: {rr.err[-300:]}")

    if skipped:
        ctx.inconcl(f"{skipped} more processes died/stalled with keys not re-run alone (cap reached)")
    ctx.rule = ("one case = one teardown iteration: fresh Transport (TCP or UDP) + raw peers + callers parked in connectSync (black hole), "
                "receiveSync and a setReadMode flush held in a slow data callback + racers entering those calls around the teardown moment "
                "+ short-timeout 'edge' callers whose expiry is aimed at the teardown moment and who are held 0.2-5 ms after every other mutex release "
                "(pthread_mutex_unlock interposer, asan/plain builds) + storm threads (send/close/addListener/connect/getStats) + in 40 % of the non-self-destruct iterations callbacks (onClose, I/O-thread onData, "
                "close observers, session-data cleanup) that call stop/send/close/connect/addListener/setReadMode/start/connectSync/receiveSync themselves "
                "while teardown is under way + one of 7 teardown kinds. distinct = hash(teardown kind, proto, "
                "cycles, which parked kinds were actually parked when teardown hit, how each blocked call returned, racers?, storm?, slow onClose?, cv delay?)")
    ctx.assumptions = [
        "a call still blocked 15 s after teardown began is stranded (parked callers use 60 s timeouts; the iteration is re-run alone before a verdict)",
        "parked-caller state is read from Transport::Impl under its own syncMutex (-fno-access-control, observation only); a destroying "
        "teardown is only issued once the raw-pointer callers are verifiably parked (an unparked raw-pointer caller racing a destructor is the caller's bug)",
        "the callback fence covers setReadMode(Sync->Async) flusher threads: an onData entered before stop() returned and still running is counted, "
        "an onData ENTERED after stop() returned is a violation on any thread",
        "start() is never issued concurrently with other calls (documented lifecycle contract); stop()/destruction are",
        "TSan reports without any iora frame in either access stack are counted and dropped",
    ]
    req = ["iterations", "teardown_hit_parked_connectSync", "teardown_hit_parked_receiveSync", "teardown_hit_flusher_in_data_callback",
           "teardown_hit_all_three_parked_kinds", "stop_from_callback_threw_logic_error",
           "self_destruct_in_onClose_dtor_ran_on_io_thread", "self_destruct_in_onData_dtor_ran_on_io_thread",
           "drop_user_dtor_ran_on_user_thread", "after_stop_operation_sets_checked", "restarts_after_stop", "fence_checks",
           "impl_freed", "storm_ops_issued_after_teardown_began", "callbacks_entered_while_stop_in_progress",
           "send_false", "addListener_refused", "connect_refused", "condvar_prepark_delays",
           "connectSync_returned_ShuttingDown_parked", "receiveSync_returned_PeerClosed_parked", "receiveSync_returned_ShuttingDown_parked",
           "second_chunk_buffered_while_flusher_in_data_callback", "flusher_still_inside_onData_entered_before_stop_returned",
           "reentry_iterations", "nested_stop_from_callback_returned", "nested_stop_issued_while_another_threads_teardown_drains",
           "nested_send_from_callback_returned", "nested_close_from_callback_returned", "nested_connect_from_callback_returned",
           "nested_addListener_from_callback_returned", "nested_start_from_callback_attempted",
           "nested_setReadMode_from_callback_threw_logic_error", "nested_connectSync_from_callback_threw_logic_error",
           "nested_receiveSync_from_callback_threw_logic_error",
           "burst_connectSync_calls_entered_between_teardown_begin_and_stop_return", "burst_connectSync_shutting_down",
           "connectViaListener_ok", "datagrams_from_known_peers_delivered_after_restart", "datagrams_from_raw_peers_delivered_first_start",
           "reconnect_from_ShuttingDown_onClose_refused",
           "edge_callers_started", "post_unlock_holds", "edge_connectSync_returned_Timeout", "edge_connectSync_returned_ShuttingDown",
           "edge_receiveSync_returned_Timeout", "teardown_began_with_connectSync_caller_past_its_expiry_not_yet_returned",
           "teardown_began_with_receiveSync_caller_past_its_expiry_not_yet_returned"]
    req += [f"iterations:{t}:{p}" for t in TD for p in ("tcp", "udp")]
    ctx.require_obs(*req)


def replay(ctx, path):
    with open(path) as fh:
        rep = json.load(fh)
    run_info = ((rep.get("first") or {}).get("detail") or {}).get("_run") or {}
    fl = run_info.get("flavor", "asan")
    idx = run_info.get("idx")
    ctx.seed = run_info.get("seed", rep.get("seed", ctx.seed))
    if idx is None:
        raise vf.HarnessFailure("replay file carries no iteration index")
    b = vf.build(NAME, fl, XF)
    rr = _isolated(ctx, b, idx)
    ctx.ingest(rr, where="(replay)")
    ctx.rule = f"replay of iteration {idx} ({fl}) seed {ctx.seed}"
