# C03 — synchronous receive: lossless, ordered, drains before EOF, flush-before-later-bytes on the
# switch to Async, Disabled delivers nothing, sticky overflow after the bytes buffered before it.
# Driver only: the oracle is the offline history checker in harness/c03_checker.hpp (it sees the
# recorded log, never iora state) plus the sanitizers on the same workloads.
import json, os
import vf

LEVEL = "exploration"
H = "c03_syncrecv"
BUILDS = [(H, "plain"), (H, "tsan"), (H, "asan")]   # quick: plain + tsan; thorough adds asan


def _worker(ctx, binary, mode, seed, start, count, stride=1, timeout=1500, isolated=False, extra=()):
    """Run histories start, start+stride, ...; a watchdog inside the harness ends the process with a
    'stopped' record (its threads cannot be joined) - resume behind that history."""
    results, done = [], 0
    fl = vf.flavor_of(binary)
    while done < count:
        first = start + done * stride
        out = os.path.join(ctx.tmp, f"{mode}-{fl}-{start}-{first}{'-iso' if isolated else ''}.jsonl")
        args = ["--mode", mode, "--seed", seed, "--from", first, "--count", count - done, "--stride", stride, "--out", out]
        if isolated:
            args += ["--isolated", 1]
        args += list(extra)
        rr = vf.run_harness(binary, args, timeout=timeout, out_file=out)
        rr.where = f"({mode}, {fl}, from {first})"
        results.append(rr)
        stopped = [r for r in rr.records if r.get("t") == "stopped"]
        if stopped and not isolated:
            done = (stopped[0]["at"] - start) // stride + 1
            continue
        if rr.timed_out or rr.rc not in (0, 86, 87):
            rr.bad = f"C03 worker {rr.where} rc={rr.rc} timed_out={rr.timed_out} stderr={rr.err[-400:]}"
        break
    return results


def _split(total, parts, floor=1):
    per = max(floor, (total + parts - 1) // parts)
    return [(s, min(per, total - s)) for s in range(0, total, per)]


def _space(binary):
    rr = vf.run_harness(binary, ["--mode", "exh", "--count-only", "1"], timeout=120)
    for r in rr.records:
        if r.get("t") == "space":
            return int(r["n"])
    raise vf.HarnessFailure("c03: could not size the exhaustive space: " + rr.err[-300:])


def run(ctx):
    thorough = ctx.tier == "thorough"
    flavors = ["plain", "tsan"] + (["asan"] if thorough else [])
    bins = vf.build_many([(H, f) for f in flavors])
    space = _space(bins[(H, "plain")])
    # histories per flavor: (conc, seq, tcp, probe, exhaustive stride or 0); multi = transports with 2-6 Sync sessions each
    if thorough:
        plan = {"plain": (120000, 80000, 6000, 48, 1), "asan": (30000, 20000, 1500, 16, 1), "tsan": (16000, 10000, 800, 16, 1)}
        multi = {"plain": 20000, "asan": 5000, "tsan": 2500}
        cancel = {"plain": 4000, "asan": 1200, "tsan": 600}
    else:
        plan = {"plain": (2400, 1200, 256, 8, 41), "tsan": (800, 400, 64, 4, 499)}
        multi = {"plain": 600, "tsan": 160}
        cancel = {"plain": 192, "tsan": 48}
    jobs = []
    exh_runs = {}
    for fl in flavors:
        b = bins[(H, fl)]
        conc, seq, tcp, probe, stride = plan[fl]
        par = 32 if thorough else 8
        for mode, n in (("conc", conc), ("seq", seq), ("tcp", tcp), ("probe", probe)):
            for s, c in _split(n, par if mode in ("conc", "seq") else max(2, par // 4)):
                jobs.append(lambda b=b, mode=mode, s=s, c=c: _worker(ctx, b, mode, ctx.seed, s, c))
        # multi-session transports; thorough: every 200th one at the default GC threshold with >1024 short-lived sessions
        for s, c in _split(multi[fl], par):
            jobs.append(lambda b=b, s=s, c=c: _worker(ctx, b, "multi", ctx.seed, s, c, extra=("--big-every", 200 if thorough else 0)))
        # reader in receiveSyncCancellable, token.cancel() placed around scripted arrivals (each history spends ~0.1 s in slices)
        for s, c in _split(cancel[fl], 2 * par):
            jobs.append(lambda b=b, s=s, c=c: _worker(ctx, b, "cancel", ctx.seed, s, c))
        if stride:
            off = 0 if stride == 1 else ctx.seed % stride   # quick: a seeded residue class of the space
            n = (space - off + stride - 1) // stride
            exh_runs[fl] = (stride, n)
            for s, c in _split(n, par):
                jobs.append(lambda b=b, s=s, c=c, stride=stride, off=off: _worker(ctx, b, "exh", 0, off + s * stride, c, stride))
    suspects = []
    for rrs in vf.run_many(ctx, jobs):
        for rr in rrs:
            ctx.ingest(rr, where=rr.where)
            if getattr(rr, "bad", None):
                ctx.inconcl(rr.bad)
            for r in rr.records:
                if r.get("t") == "suspect":
                    suspects.append((rr.argv[0], r["idx"]))
    # watchdog class (a long receiveSync ran into its timeout / returned very late): once more, alone
    for binary, idx in suspects[:8]:
        for rr in _worker(ctx, binary, "conc", ctx.seed, idx, 1, isolated=True):
            ctx.ingest(rr, where=f"(isolated re-run of conc history {idx})")
            ctx.obs("suspects_rerun_isolated")
    ctx.extra["exhaustive_small_scope"] = {
        "space": "all chunkings of 6 bytes (32) x buffer length 1..6 x buffer bound {2^20, 3} x read pattern {after each arrival, "
                 "only at the end, twice after each arrival} x close position 0..n x switch kind {none, ->Async, ->Disabled, "
                 "->Async->Sync, ->Disabled->Sync, ->Disabled->Async} x switch position 0..n; sequential histories, zero timeouts",
        "size": space,
        "runs": {fl: dict(stride=st, histories=n, exhaustive=(st == 1)) for fl, (st, n) in exh_runs.items()},
        "exhaustive": any(st == 1 for st, _ in exh_runs.values()),
    }
    ctx.rule = ("history = (chunking of a self-describing stream, maxSyncReceiveBuffer, initial mode, arrival pacing, reader buffer-length and "
                "timeout profile, mode-switch/close script with gates, callback delay, pre-park delay); conc = 3-4 threads racing, seq = one "
                "director, multi = 2-6 Sync sessions on one Transport with syncBufferGcThreshold 1..8 closing with undrained tails while "
                "unrelated sessions open/close (tombstone GC), cancel = reader in receiveSyncCancellable with token.cancel() placed before/after/"
                "without a scripted arrival inside the 100 ms slice, pre-cancelled tokens, late drains with buffers of 1..8 bytes, exh = enumerated small scope, tcp = real engine + raw peer writing data and FIN back to back. distinct = hash of "
                "(kind, #chunks class, overflow possible/reported, definitely-Disabled chunk, ambiguous chunk, flush handed bytes, flush raced "
                "an arrival, reader inside call at close, bytes drained after close, Cancelled/Timeout/PeerClosed seen, late-caller data, "
                "direct callbacks, close origin, unexplained gap)")
    ctx.assumptions = [
        "one receiveSync caller at a time per session (the documented contract); the second-reader probe only checks the loud rejection",
        "an event A is 'before' B only if A's end was logged before B's start on one global atomic sequence; overlapping events are "
        "treated as unordered and every outcome either order allows is accepted",
        "a switch to Async on a session whose close was already reported is not required to flush (the tail stays readable by receiveSync)",
        "BufferOverflow is sticky until the close: once the close has been reported AND the overflow had been reported, a later call may "
        "return PeerClosed or Timeout (closed entry reclaimed); an overflow that was never reported must still be reported after the close",
        "a closed, fully drained session may be reclaimed, so a late receiveSync is not required to ever return PeerClosed",
        "TSan builds perturb from harness threads only (no condvar shim); the pre-park delay runs in plain/asan builds",
    ]
    # only things the workloads produce by construction (race outcomes are reported, not required)
    need = ["histories_conc", "histories_seq", "histories_exh", "histories_tcp", "histories_multi", "histories_cancel", "recv_cancelled_by_token",
            "cancel_during_call_data_still_returned", "recv_data", "recv_PeerClosed",
            "recv_BufferOverflow", "recv_Timeout", "flush_handed_bytes", "close_then_buffered_bytes_drained",
            "chunks_definitely_disabled", "cb_direct", "cb_flush", "late_caller_data_results", "tcp_peerclosed_after_full_drain",
            "tcp_reader_parked_before_peer_wrote", "multi_other_close_while_closed_tail_undrained", "multi_filler_closes"]
    ctx.require_obs(*need)


def replay(ctx, path):
    """Re-run the single history recorded in a replay file (same seed, same index, same kind)."""
    with open(path) as fh:
        rp = json.load(fh)
    d = (rp.get("first") or {}).get("detail") or {}
    kind, seed, idx = d.get("kind", "conc"), int(d.get("seed", rp.get("seed", 1))), int(d.get("idx", 0))
    flavors = ["plain", "tsan"]
    bins = vf.build_many([(H, f) for f in flavors])
    for fl in flavors:
        for rr in _worker(ctx, bins[(H, fl)], kind, seed, idx, 1):
            ctx.ingest(rr, where=f"(replay {kind} {idx}, {fl})")
            if getattr(rr, "bad", None):
                ctx.inconcl(rr.bad)
    ctx.rule = f"replay of {kind} history seed={seed} idx={idx}"
