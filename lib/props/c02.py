# C02 — every session id the application has seen gets exactly one close; nothing before announce
# or after close; ordered close fan-out (global -> observers in registration order -> user-data
# cleanup last); sessions gauge never under-counts and returns to 0.
# Oracle: online per-id state machine + post-hoc fan-out/gauge checks in harness/c02_monitor.hpp,
# fed by randomised histories on the real TCP and UDP engines (harness/c02_close.cpp).
import json, os, threading
import vf

LEVEL = "exploration"
# every (harness, flavor) the quick and thorough tiers use (pre-built by ./check setup)
BUILDS = [("c02_close", "plain"), ("c02_close", "tsan"), ("c02_close", "asan")]

# close origins that must have been exercised (observed through the reason handed to the close
# callback) for a pass; "observed nothing" is exit 2, not 0
REQUIRED_QUICK = [
    "origin_app", "origin_peer_fin", "origin_rst", "origin_refused", "origin_unresolvable", "origin_timeout",
    "origin_tls_failure", "origin_idle_gc", "origin_backpressure", "origin_stop", "origin_connect_no_route", "origin_connect_einval",
    "origin_udp_app", "origin_udp_idle_gc", "origin_udp_stop", "origin_udp_unresolvable", "origin_udp_connect_fails",
    "tcp_observer_fires", "tcp_cleanup_fires", "udp_observer_fires", "udp_cleanup_fires",
    "tcp_gauge_samples_io_thread", "udp_gauge_samples_io_thread", "tcp_final_checks", "udp_final_checks",
    "il_tcp_stop_with_open_sessions", "il_tcp_connect_during_stop_accepted",
    "tcp_unobserve_actor_true", "tcp_race_attempts_close_vs_timer",
    # read-mode script: Sync with undrained peer bytes, setReadMode(Async) after the close was observed, live flush
    "tcp_readmode_sync_sessions", "tcp_readmode_flush_after_close_calls", "tcp_readmode_partial_drains", "tcp_readmode_flush_data_events",
    "udp_readmode_sync_sessions", "udp_readmode_flush_after_close_calls",
    # several logical UDP sessions to one remote address (accept + via / via + via): gauge sampled in their callbacks
    "udp_via_to_peer_with_open_session",
    # teardown by dropping the last owner while running (application thread / inside a callback) with open sessions carrying user data
    "tcp_teardown_drop_last_owner_user_thread", "udp_teardown_drop_last_owner_user_thread", "tcp_teardown_drop_last_owner_in_callback",
    "tcp_teardown_open_sessions_with_userdata", "udp_teardown_open_sessions_with_userdata", "tcp_cleanup_conservation_registered",
]

# plan kinds / ends as numbered in harness/c02_actors.hpp (used to attribute a close class to the planned origin)
E_RST, E_RACE_RST, E_IDLE = 2, 8, 3
K_OUT_REFUSED, K_OUT_BLACKHOLE, K_OUT_NOROUTE, K_OUT_EINVAL, K_U_FAIL_CONNECT = 1, 2, 15, 16, 27


def _origins(obs):
    """Derive origin counters from per-(plan kind, plan end, close class) counters."""
    o = {}

    def add(name, n):
        if n:
            o[name] = o.get(name, 0) + n

    for name, n in obs.items():
        for eng in ("tcp", "udp"):
            pre = eng + "_close_"
            if name.startswith(pre):
                cls = name[len(pre):]
                u = "udp_" if eng == "udp" else ""
                if cls == "app": add("origin_" + u + "app", n)
                elif cls == "peer_fin": add("origin_" + u + "peer_fin", n)
                elif cls == "unresolvable": add("origin_" + u + "unresolvable", n)
                elif cls == "connect_timeout": add("origin_timeout", n)
                elif cls == "tls_failure": add("origin_tls_failure", n)
                elif cls == "backpressure": add("origin_" + u + "backpressure", n)
                elif cls == "stop": add("origin_" + u + "stop", n)
                elif cls == "handshake_timeout": add("origin_handshake_timeout", n)
                elif cls == "write_stall": add("origin_write_stall", n)
                elif cls == "dns_timeout": add("origin_dns_timeout", n)
                elif cls == "tls_io": add("origin_tls_io", n)
                elif cls == "config": add("origin_" + u + "config_failure", n)
                elif cls == "socket_error" and eng == "udp": add("origin_udp_icmp_refused", n)
            pre = eng + "_plan_"
            if name.startswith(pre) and "__" in name:
                ke, cls = name[len(pre):].split("__", 1)
                try:
                    k, e = [int(x) for x in ke.split("_")]
                except ValueError:
                    continue
                if eng == "tcp":
                    if e in (E_RST, E_RACE_RST) and cls in ("hup", "socket_error", "tls_io", "tls_failure"): add("origin_rst", n)
                    if k == K_OUT_REFUSED and cls == "connect_failed": add("origin_refused", n)
                    if k == K_OUT_NOROUTE and cls == "connect_failed": add("origin_connect_no_route", n)    # fails inside connect(): immediate-failure branch
                    if k == K_OUT_EINVAL and cls == "connect_failed": add("origin_connect_einval", n)       # no usable address: 'cfd < 0' branch
                    if k == K_OUT_BLACKHOLE and cls == "gc": add("origin_timeout", n)      # GC-fallback connect timeout
                    if e == E_IDLE and cls == "gc": add("origin_idle_gc", n)
                else:
                    if e == E_IDLE and cls == "gc": add("origin_udp_idle_gc", n)
                    if k == K_U_FAIL_CONNECT and cls == "connect_failed": add("origin_udp_connect_fails", n)
    return o


def _chunks(total, nchunks):
    per = max(1, (total + nchunks - 1) // nchunks)
    return [(a, min(per, total - a)) for a in range(0, total, per)]


def _run_chunk(ctx, binary, seed, start, count, par, tag, timeout):
    out = os.path.join(ctx.tmp, f"c02-{tag}-{start}.jsonl")
    tmpd = os.path.join(ctx.tmp, f"c02-{tag}-{start}.d")
    os.makedirs(tmpd, exist_ok=True)
    env = {}
    if vf.flavor_of(binary) == "tsan":
        env["TSAN_OPTIONS"] = "suppressions=" + _tsan_supp(ctx)
    args = ["--seed", seed, "--from", start, "--count", count, "--par", par, "--tmp", tmpd, "--out", out]
    if os.environ.get("VF_C02_DIRTY_RESTART") == "0":   # restart TCP transports only from a clean stop (no session open at stop())
        args += ["--dirty-restart", 0]
    rr = vf.run_harness(binary, args, timeout=timeout, out_file=out, env_extra=env)
    rr.c02 = dict(start=start, count=count, tag=tag)
    return rr


_supp_lock = threading.Lock()


def _tsan_supp(ctx):
    p = os.path.join(ctx.tmp, "c02-tsan.supp")
    with _supp_lock:
        if not os.path.exists(p):
            with open(p, "w") as fh:
                # libssl/libcrypto are not instrumented: their internal atomics are invisible to TSan, so
                # intercepted libc calls made from inside them look unsynchronised. Frames entirely outside iora only.
                fh.write("called_from_lib:libcrypto.so\ncalled_from_lib:libssl.so\n")
    return p


def _fold(ctx, rr, done, pending_inconcl):
    ctx.ingest(rr, where=f"({rr.flavor}, histories {rr.c02['start']}..{rr.c02['start'] + rr.c02['count'] - 1})")
    for r in rr.records:
        if r.get("t") == "c02_done":
            done.add((rr.flavor, r["hist"]))
        elif r.get("t") == "c02_inconcl":
            pending_inconcl.append((rr.flavor, r["hist"], r.get("key", ""), r.get("what", "")))


def run(ctx, only=None):
    thorough = ctx.tier == "thorough"
    flavors = ["plain", "tsan"] + (["asan"] if thorough else [])
    bins = vf.build_many([("c02_close", f) for f in flavors])
    n_hist = {"plain": 5000 if thorough else 300, "tsan": 1500 if thorough else 300, "asan": 2500}
    par = {"plain": 4, "tsan": 3, "asan": 3}
    timeout = 3000 if thorough else 900
    jobs = []
    for fl in flavors:
        b = bins[("c02_close", fl)]
        nchunks = (16 if fl == "plain" else 12) * (4 if thorough else 1)
        for (a, n) in _chunks(n_hist[fl], nchunks):
            jobs.append(lambda b=b, a=a, n=n, fl=fl: _run_chunk(ctx, b, ctx.seed, a, n, par[fl], fl, timeout))
    done, pend = set(), []
    results = vf.run_many(ctx, jobs)
    expected = []
    for rr in results:
        _fold(ctx, rr, done, pend)
        for h in range(rr.c02["start"], rr.c02["start"] + rr.c02["count"]):
            expected.append((rr.flavor, h))
        if rr.rc not in (0, 86, 87) and not rr.timed_out:
            ctx.obs("harness_process_abnormal_exit")
    # histories that did not finish (watchdog, crash, sanitizer abort) and histories that reported a
    # late close: re-run each once in isolation; only a reproduced, characterised failure is a violation
    redo = {}
    for key in expected:
        if key not in done:
            redo.setdefault(key, []).append(("", "history did not finish (watchdog / process ended early)"))
    for fl, h, k, w in pend:
        redo.setdefault((fl, h), []).append((k, w))
    rejobs = []
    for (fl, h) in sorted(redo)[:48]:
        b = bins[("c02_close", fl)]
        rejobs.append(lambda b=b, h=h, fl=fl: _run_chunk(ctx, b, ctx.seed, h, 1, 1, fl + "-redo", timeout))
    if len(redo) > 48:
        ctx.inconcl(f"{len(redo)} histories needed an isolated re-run; only 48 were re-run")
    for rr in vf.run_many(ctx, rejobs):
        d2, p2 = set(), []
        _fold(ctx, rr, d2, p2)
        key = (rr.flavor, rr.c02["start"])
        first = redo[key]
        ctx.obs("histories_rerun_in_isolation")
        if key not in d2:
            crashed = rr.rc is not None and rr.rc < 0
            if crashed and any(w.startswith("history did not finish") for _, w in first):
                ctx.violation(f"C02:harness-process-died:signal{-rr.rc}", f"history {key[1]} ({key[0]}) ended the process twice (rc={rr.rc})",
                              dict(hist=key[1], flavor=key[0], stderr=rr.err[-1500:]))
            else:
                ctx.inconcl(f"history {key[1]} ({key[0]}) did not finish in isolation either: {[w for _, w in first][:2]} rc={rr.rc} timed_out={rr.timed_out}")
        elif p2:
            for fl2, h2, k2, w2 in p2:
                if k2 and any(k2 == k1 for k1, _ in first):
                    ctx.violation(k2, w2 + " (reproduced in an isolated re-run)", dict(hist=h2, flavor=fl2, seed=ctx.seed))
                else:
                    ctx.inconcl(f"history {h2} ({fl2}): {w2}")
        else:
            ctx.obs("inconclusive_resolved_by_isolated_rerun")
    for name, n in _origins(ctx.observed).items():
        ctx.obs(name, n)
    ctx.rule = ("history = one Transport (TCP 72% / UDP 28%) with a seeded configuration (edge/level triggered, batching, hi-res timers or GC fallback, "
                "idle GC 1 s, TLS listeners, maxWriteQueue 2, restart) and 8-22 concurrently driven sessions (connect to listening / refused / "
                "black-holed / unresolvable / TLS-failing / silent / own listener; raw and OpenSSL peers connecting in) ended by app close, peer FIN, "
                "RST, idle GC, back-pressure, timers racing peer or app close, or stop() at a random point; observers and user data registered/"
                "unregistered from application threads and from inside callbacks. distinct = hash of (engine, config bits, stop mode, set of "
                "(planned kind/end : observed close class), interleaving classes seen)")
    ctx.assumptions = [
        "the application has seen an id when connect()/connectViaListener() returned it or an accept/connect callback carried it",
        "a connect callback on a session accepted by a TLS listener is the engine's handshake-complete notification for the same session (allowed once)",
        "gauge bounds are sampled on the I/O thread inside callbacks, where no session can be inserted or erased concurrently; '== 0' is required after stop() and when every seen id is closed with no connect in flight",
        "an observer/user-data registration that overlaps the close of its session in time may or may not take part in the fan-out; registrations completed before the global close callback started (or made inside it) must",
        "a close expected from a cause (peer FIN, RST, app close, ...) that does not arrive within 25 s while running is inconclusive; missing closes are judged after an orderly stop() returned",
        "TSan: interceptors called from uninstrumented libssl/libcrypto are ignored (frames entirely outside iora)",
    ]
    if only is None:
        ctx.require_obs(*REQUIRED_QUICK)
    ctx.extra["histories_per_flavor"] = {f: n_hist[f] for f in flavors}


def replay(ctx, path):
    """Re-run the history named in a replay file (all flavors of the quick tier, isolated)."""
    with open(path) as fh:
        rp = json.load(fh)
    d = (rp.get("first") or {}).get("detail") or {}
    hist = d.get("hist")
    seed = d.get("seed", rp.get("seed", ctx.seed))
    if hist is None:
        raise vf.HarnessFailure("replay file carries no history index")
    bins = vf.build_many([("c02_close", f) for f in ("plain", "tsan")])
    done, pend = set(), []
    for fl in ("plain", "tsan"):
        rr = _run_chunk(ctx, bins[("c02_close", fl)], seed, hist, 1, 1, fl + "-replay", 900)
        _fold(ctx, rr, done, pend)
    for fl, h, k, w in pend:
        ctx.inconcl(f"history {h} ({fl}): {w}")
    ctx.rule = f"replay of history {hist} seed {seed}"
