# C15 — HTTP/1.1 message framing is exact, segmentation-independent and bounded
#
# Oracle = the generator's own message list (lib/c15_httpgen.py); the C++ driver
# (harness/c15_http.cpp) only drives iora and reports what handlers / callers saw.
import json, os, random
import vf
import c15_httpgen as g

LEVEL = "exploration"
MIB = 1024 * 1024
# quick: plain + asan; thorough: + tsan. The optional -fno-access-control build (client-inproc,
# quick: plain; thorough: plain + asan) is pre-built by setup() below, not listed here, because a
# compile failure of it only skips that sub-run.
BUILDS = [("c15_http", "plain"), ("c15_http", "asan"), ("c15_http", "tsan")]


def setup():
    for f in ("plain", "asan"):
        try:
            vf.build("c15_http_priv", f, priv_flags())
        except vf.HarnessFailure as e:
            print("[setup] optional c15_http_priv.%s not built: %s" % (f, str(e)[:300]))

# (family, symptom) used in keys when a hostile message is framed and delivered
HKEY = {
    "cl-prefix-number": ("content-length", "prefix-number-accepted"),
    "cl-signed": ("content-length", "signed-number-accepted"),
    "cl-list-conflict": ("content-length", "conflicting-list-accepted"),
    "cl-dup-conflict": ("content-length", "conflicting-duplicate-accepted"),
    "cl-overflow": ("content-length", "overflowing-number-accepted"),
    "cl-over-cap": ("content-length", "over-cap-length-accepted"),
    "cl-negative": ("content-length", "negative-number-accepted"),
    "cl-empty": ("content-length", "empty-value-accepted"),
    "cl-nondigit": ("content-length", "non-numeric-accepted"),
    "chunk-size-nonhex": ("chunk-size", "non-hex-accepted"),
    "chunk-size-overflow": ("chunk-size-overflow", "framed-not-rejected"),
    "chunk-bad-terminator": ("chunked", "bad-chunk-terminator-accepted"),
    "chunk-bad-line-end": ("chunked", "bare-cr-line-end-accepted"),
    "te-unsupported": ("transfer-encoding", "non-chunked-final-coding-accepted"),
    "header-over-cap": ("header-over-cap", "delivered"),
    "cl-and-te": ("content-length-and-transfer-encoding", "content-length-preferred-over-chunked"),
}


def priv_flags():
    import hashlib
    with open(os.path.join(vf.HARNESS, "c15_http.cpp"), "rb") as fh:
        h = hashlib.sha256(fh.read()).hexdigest()[:16]
    return ["-fno-access-control", "-DC15_PRIV=1", "-DC15_SRC_HASH=0x" + h]


def hkey(side, hclass):
    if side == "server" and hclass == "cl-and-te":
        return "C15:server:content-length-and-transfer-encoding:framed-not-rejected"
    if hclass in HKEY:
        fam, sym = HKEY[hclass]
    elif hclass.startswith("truncated-"):
        fam, sym = hclass[len("truncated-"):], "truncated-message-delivered"
    elif hclass.startswith("flood-"):
        fam, sym = hclass, "delivered"
    elif hclass.startswith("chunk-overhead-"):
        fam, sym = hclass, "over-cap-response-returned"
    else:
        fam, sym = hclass, "framed-not-rejected"
    return "C15:%s:%s:%s" % (side, fam, sym)


# ------------------------------------------------------------------------------------------------
# corpora (deterministic in seed + tier)

def corpora(seed, tier):
    thorough = tier == "thorough"
    rng = random.Random(seed * 1000003 + (7 if thorough else 3))
    c = {}
    c["sv"] = g.server_valid(rng, 36000 if thorough else 1500, multi=24 if thorough else 4)
    c["sc"] = g.server_cap_streams(rng)
    c["sh"] = g.server_hostile(rng, quick=not thorough)
    c["sf"] = g.server_floods(rng)
    c["sm"] = g.mutated(rng, c["sv"], 6000 if thorough else 200, "server", "sm")
    c["cv"] = g.client_valid(rng, 10000 if thorough else 360)
    c["ch"] = g.client_hostile(rng, quick=not thorough)
    c["cf"] = g.client_floods(rng)
    c["cm"] = g.mutated(rng, c["cv"], 3000 if thorough else 120, "client", "cm")
    # chunked framing overhead against small response caps: controls just under the cap, complete /
    # truncated over-cap streams below the transport's sync buffer, never-ending paced floods
    c["cc"], c["co"], c["cg"] = g.client_overhead(rng, quick=not thorough)
    return c


def socket_variant(st, rng, ncuts, zs):
    """same stream, few segmentations, for the loopback modes."""
    s2 = g.Stream(st.id, st.side, st.kind)
    s2.__dict__.update(st.__dict__)
    L = len(st.wire)
    cuts = g.interesting_cuts(st.marks, L, rng, ncuts) if st.marks else sorted(set(rng.randrange(1, L) for _ in range(ncuts))) if L > 1 else []
    items = []
    if cuts:
        items.append("L:" + ",".join(map(str, cuts)))
    if L > 2:
        items.append("M:2")
    if zs:
        items.append("Z:" + ",".join(map(str, zs)))
    s2.segspec = ";".join(items)
    return s2


# ------------------------------------------------------------------------------------------------
# running shards with resume after a hang / crash

class Shard:
    def __init__(self, flavor, mode, streams, tag, extra=(), timeout=900):
        self.flavor, self.mode, self.streams, self.tag, self.extra, self.timeout = flavor, mode, streams, tag, list(extra), timeout
        self.records = {}     # stream id -> c15 record
        self.events = []      # dict(kind=hang|crash|timeout, id, detail)
        self.rrs = []
        self.flaky = []       # first observations that differed once and were not reproduced on the careful re-run


def run_shard(ctx, binary, sh):
    path = os.path.join(ctx.tmp, "%s.cases" % sh.tag)
    with open(path, "w") as fh:
        for st in sh.streams:
            fh.write(st.line() + "\n")
    cur, rounds = 0, 0
    while cur < len(sh.streams) and rounds < 400:
        rounds += 1
        out = os.path.join(ctx.tmp, "%s.%d.jsonl" % (sh.tag, rounds))
        rr = vf.run_harness(binary, ["--mode", sh.mode, "--cases", path, "--seed", ctx.seed, "--from", cur, "--out", out] + sh.extra,
                            timeout=sh.timeout, out_file=out)
        try:
            os.unlink(out)
        except OSError:
            pass
        sh.rrs.append(rr)
        begun, hang = None, None
        for r in rr.records:
            t = r.get("t")
            if t == "flaky":
                sh.flaky.append(r)
            if t == "c15":
                sh.records[r["id"]] = r
            elif t == "begin":
                begun = r
            elif t == "hang":
                hang = r
        if rr.rc == 0 and not rr.timed_out:
            break
        # abnormal end: which case was in progress?
        if begun is None or begun["id"] in sh.records:
            sh.events.append(dict(kind="harness", id=None, detail="rc=%s timed_out=%s stderr=%s" % (rr.rc, rr.timed_out, rr.err[-600:])))
            break
        if hang is not None:
            sh.events.append(dict(kind="hang", id=begun["id"], detail=hang))
        elif rr.timed_out:
            sh.events.append(dict(kind="timeout", id=begun["id"], detail="process watchdog %ss" % sh.timeout))
        else:
            sh.events.append(dict(kind="crash", id=begun["id"], detail=dict(rc=rr.rc, stderr=rr.err[-1500:], san=[x["key"] for x in rr.san_reports])))
        cur = begun["idx"] + 1
    try:
        os.unlink(path)
    except OSError:
        pass
    return sh


def split_shards(flavor, mode, streams, tag, nshards, extra=(), timeout=900):
    """balance by estimated cost (number of segmentations x stream size)."""
    if not streams:
        return []
    nshards = max(1, min(nshards, len(streams)))
    buckets = [[] for _ in range(nshards)]
    loads = [0] * nshards
    for st in sorted(streams, key=lambda s: -(s.nseg() * (len(s.wire) + 200))):
        i = loads.index(min(loads))
        buckets[i].append(st)
        loads[i] += st.nseg() * (len(st.wire) + 200)
    return [Shard(flavor, mode, b, "%s-%s-%s-%d" % (tag, mode, flavor, i), extra, timeout) for i, b in enumerate(buckets) if b]


# ------------------------------------------------------------------------------------------------
# judges

def _hdrs(olist):
    d = {}
    for k, v in olist:
        d[k.lower()] = v
    return d


def compare_headers(e, obs_list, strict_framing):
    """returns a description of the first difference or None."""
    o = _hdrs(obs_list)
    exp = dict(e["headers"])
    if strict_framing:
        exp.update(e["framing"])
    for k, v in exp.items():
        if k not in o:
            return "header %r missing (expected value %r)" % (k, v)
        if o[k] != v:
            return "header %r: expected %r, observed %r" % (k, v, o[k])
    for k, v in o.items():
        if k in exp:
            continue
        if k in e["framing"] and e["framing"][k] == v:
            continue
        if k == "content-length" and v == str(e["body_len"]):
            continue      # normalised after decoding a chunked body
        if k in e["trailers"] and e["trailers"][k] == v:
            continue      # trailer fields may be merged (RFC 9110 6.5.1) or dropped
        return "unexpected header %r: %r" % (k, v)
    return None


def body_symptom(e, o):
    if o["bl"] == e["body_len"] and o["bs"] == e["body_sha"]:
        return None
    if "transfer-encoding" in e["framing"] and o["bl"] == e["raw_len"] and o["bs"] == e["raw_sha"]:
        return "body-not-decoded"
    return "body-mismatch"


class Judge:
    """First pass: every verdict is only a *suspect* (self.suspects). run() re-runs representatives of
    each suspect key alone, in a fresh process, with generous bounds; only a key that shows up again
    there is reported (confirmed=True marks verdicts that already went through an isolated re-run)."""
    def __init__(self, ctx, quiet=False):
        self.ctx = ctx
        self.quiet = quiet        # re-judging an isolated re-run: no evidence counters
        self.suspects = []        # dict(key, what, detail, st, rec, mode, flavor, confirmed)

    def viol(self, key, what, st, rec, mode, flavor, **extra):
        d = dict(stream=st.id, mode=mode, flavor=flavor, kind=st.kind, hclass=st.hclass, note=st.note, seed=self.ctx.seed, tier=self.ctx.tier,
                 wire_head=st.wire[:400].decode("latin-1"), wire_len=len(st.wire), segspec=st.segspec[:200], case_line=st.line()[:20000])
        d.update(extra)
        if rec is not None:
            d["observed"] = rec.get("ref")
            if rec.get("diffs"):
                d["diffs"] = rec["diffs"][:2]
        self.suspects.append(dict(key=key, what=what, detail=d, st=st, rec=rec, mode=mode, flavor=flavor,
                                  confirmed=bool(extra.get("confirmed"))))

    def count(self, name, n=1):
        if not self.quiet:
            self.ctx.obs(name, n)

    # ---- server
    def server(self, st, rec, mode, flavor):
        side = "server"
        ref = rec["ref"]
        nv0 = len(self.suspects)
        cap = g.SERVER_CAP
        if ref.get("exc"):
            if ref["exc"].startswith("HARNESS:"):
                if not self.quiet:
                    self.ctx.inconcl("%s %s: %s" % (mode, st.id, ref["exc"]))
                return
            self.viol("C15:server:%s:exception-escaped-data-callback" % (st.hclass or st.cls()),
                      "exception escaped HttpServer::handleIncomingData: %s" % ref["exc"], st, rec, mode, flavor)
        limit = 3 * cap + MIB + 8 * len(st.wire)
        if rec["peak"] > limit:
            self.viol("C15:server:%s:memory-beyond-cap" % (st.hclass or st.cls()),
                      "peak live bytes attributable to the case %d > 3 x cap + 1 MiB (+8 x stream) = %d" % (rec["peak"], limit), st, rec, mode, flavor)
        if st.kind == "m":
            self.count("mutated_cases_judged")
            return
        exp = [m.expected() for m in st.msgs]
        obs = list(ref["reqs"])
        by_path = {}
        for o in obs:
            by_path.setdefault(o["p"], []).append(o)
        lost = False
        for i, e in enumerate(exp):
            cands = by_path.get(e["path"], [])
            if not cands and st.kind == "h":
                # valid messages in front of a hostile one: the server may reject the connection
                # before it got round to serving them (not a refuting event of C15); if they are
                # delivered they must be exact (checked below)
                self.count("hostile_valid_prefix_not_served_before_rejection")
                continue
            if not cands:
                where = ("after-" + exp[i - 1]["cls"]) if i > 0 else e["cls"]
                lost = True
                self.viol("C15:server:%s:request-lost" % where,
                          "request %d (%s %s) of a valid pipeline was never handed to a handler (session closed=%s, statuses=%s)"
                          % (i, e["method"], e["path"], ref["closed"], ref["st"]), st, rec, mode, flavor, expected=e)
                continue
            o = cands.pop(0)
            if o["m"] != e["method"]:
                self.viol("C15:server:%s:method-mismatch" % e["cls"], "method %r delivered as %r" % (e["method"], o["m"]), st, rec, mode, flavor, expected=e)
            hd = compare_headers(e, o["h"], strict_framing=False)
            if hd:
                self.viol("C15:server:%s:header-mismatch" % e["cls"], hd, st, rec, mode, flavor, expected=e)
            bsym = body_symptom(e, o)
            if bsym:
                self.viol("C15:server:%s:%s" % (e["cls"], bsym),
                          "request %d body: expected %d bytes sha1 %s, handler saw %d bytes sha1 %s (first bytes %s)%s"
                          % (i, e["body_len"], e["body_sha"][:12], o["bl"], o["bs"][:12], o["bx"][:64],
                             " = the raw chunked encoding" if bsym == "body-not-decoded" else ""), st, rec, mode, flavor, expected=e)
        extras = [o for lst in by_path.values() for o in lst]
        if st.kind == "v":
            for o in extras[:3]:
                self.viol("C15:server:%s:phantom-request" % st.cls(), "handler invoked for a request that was never sent: %s %s (%d body bytes)"
                          % (o["m"], o["p"], o["bl"]), st, rec, mode, flavor)
            if not lost and not ref["sync"] and len(self.suspects) == nv0:
                self.viol("C15:server:after-%s:next-request-lost" % exp[-1]["cls"],
                          "the request following a valid %s message on the same connection was not delivered (closed=%s, statuses=%s): bytes of the message were left in / taken from the buffer"
                          % (exp[-1]["cls"], ref["closed"], ref["st"]), st, rec, mode, flavor)
            elif not lost and not ref["sync"]:
                self.count("sentinel_lost_on_already_violating_case")
            if rec["ndiff"]:
                if len(self.suspects) == nv0:
                    self.viol("C15:server:%s:cut-dependence" % st.cls(),
                              "%d of %d segmentations of the same valid stream produced different requests than the unsegmented stream"
                              % (rec["ndiff"], rec["nseg"]), st, rec, mode, flavor)
                else:
                    self.count("cut_dependence_on_already_violating_case")
            self.count("valid_streams_judged")
        elif st.kind == "h":
            self.count("hostile_cases_judged")
            if extras:
                o = extras[0]
                self.viol(hkey(side, st.hclass),
                          "message with invalid length information (%s) was framed and delivered: handler saw %s %s with %d body bytes (%s); %d handler call(s) beyond the valid prefix"
                          % (st.note, o["m"], o["p"], o["bl"], o["bx"][:40], len(extras)), st, rec, mode, flavor)
            elif not ref["closed"] and not ref["sync"]:
                fam = HKEY.get(st.hclass, (st.hclass, ""))[0]
                self.viol("C15:server:%s:invalid-length-not-rejected" % fam,
                          "message with invalid length information (%s) is neither rejected nor delivered: the connection stays open and keeps buffering (no close, no error status, following request never served)"
                          % st.note, st, rec, mode, flavor)
            else:
                self.count("hostile_rejected")
            if rec["ndiff"] and len(self.suspects) == nv0:
                self.viol("C15:server:%s:cut-dependence" % st.hclass, "hostile stream handled differently under %d of %d segmentations" % (rec["ndiff"], rec["nseg"]),
                          st, rec, mode, flavor)
        elif st.kind == "f":
            self.count("flood_cases_judged")
            if not self.quiet:
                self.ctx.obs_max("flood_peak_live_bytes_max", rec["peak"])
            if ref["closed"]:
                self.count("flood_cut_off_by_close")
            if extras:
                self.viol(hkey(side, st.hclass), "flood %s: a request was delivered (%s %s, %d bytes)" % (st.hclass, extras[0]["m"], extras[0]["p"], extras[0]["bl"]),
                          st, rec, mode, flavor)

    # ---- client
    def client(self, st, rec, mode, flavor, req_timeout_ms):
        ref = rec["ref"]
        nv0 = len(self.suspects)
        own_cap = st.cap or g.CLIENT_CAP
        cap = own_cap + g.CLIENT_TRANSPORT_CAP   # both configured caps sit on the receive path
        limit = 3 * cap + MIB + 8 * len(st.wire)
        if rec["peak"] > limit:
            self.viol("C15:client:%s:memory-beyond-cap" % (st.hclass or st.cls()),
                      "peak live bytes attributable to the exchange %d > 3 x cap + 1 MiB (+8 x stream) = %d" % (rec["peak"], limit), st, rec, mode, flavor)
        if st.kind == "m":
            self.count("mutated_cases_judged")
            return
        if st.kind == "v":
            self.count("valid_streams_judged")
            e = st.msgs[0].expected()
            cls = e["cls"]
            if not ref["ok"]:
                self.viol("C15:client:%s:valid-response-rejected" % cls, "valid %s response (interim=%d, surplus=%s, end=%s) failed with %s: %s"
                          % (cls, st.interim, st.surplus, st.end, ref["et"], ref["err"]), st, rec, mode, flavor, expected=e)
            else:
                if ref["st"] != e["status"]:
                    sym = "interim-response-returned" if 100 <= ref["st"] < 200 else "status-mismatch"
                    self.viol("C15:client:%s:%s" % (cls, sym), "status %d returned as %d" % (e["status"], ref["st"]), st, rec, mode, flavor, expected=e)
                elif ref["rs"] != e["reason"] or ref["ver"] != e["version"]:
                    self.viol("C15:client:%s:status-line-mismatch" % cls, "reason/version %r/%r returned as %r/%r" % (e["reason"], e["version"], ref["rs"], ref["ver"]),
                              st, rec, mode, flavor, expected=e)
                hd = compare_headers(e, ref["h"], strict_framing=True)
                if hd:
                    self.viol("C15:client:%s:header-mismatch" % cls, hd, st, rec, mode, flavor, expected=e)
                bsym = body_symptom(e, ref)
                if bsym:
                    self.viol("C15:client:%s:%s" % (cls, bsym), "body: expected %d bytes sha1 %s, Response.body has %d bytes sha1 %s (first bytes %s)"
                              % (e["body_len"], e["body_sha"][:12], ref["bl"], ref["bs"][:12], ref["bx"][:64]), st, rec, mode, flavor, expected=e)
            if rec["ndiff"]:
                if len(self.suspects) == nv0:
                    self.viol("C15:client:%s:cut-dependence" % cls, "%d of %d segmentations of the same valid response produced a different Response than the unsegmented stream"
                              % (rec["ndiff"], rec["nseg"]), st, rec, mode, flavor, expected=e)
                else:
                    self.count("cut_dependence_on_already_violating_case")
        elif st.kind in ("h", "f"):
            self.count("hostile_cases_judged" if st.kind == "h" else "flood_cases_judged")
            if st.kind == "f" and not self.quiet:
                self.ctx.obs_max("flood_peak_live_bytes_max", rec["peak"])
                self.ctx.obs_max("client_flood_bytes_sent_before_abort_max", ref.get("sent", 0))
            if not self.quiet:
                if "cap" in ref.get("err", ""):
                    self.count("client_over_cap_cut_off_by:response-cap")
                elif "overflow" in ref.get("err", ""):
                    self.count("client_over_cap_cut_off_by:transport-sync-buffer-overflow")
            # bytes the scripted server managed to send before the client stopped reading / closed:
            # at most cap + one read chunk + what the transport's sync buffer and the kernel can hold
            # (only for the slow-paced small-cap floods: at full pace the transport reads ahead of the client
            # and, once its sync buffer overflowed, reads and *drops* — bytes sent then say nothing about buffering)
            if st.kind == "f" and "s" in st.end:
                bound = own_cap + g.CLIENT_READ_CHUNK + g.CLIENT_TRANSPORT_CAP + g.KERNEL_SLACK
                if not self.quiet:
                    self.ctx.obs_max("client_flood_bytes_consumed_over_cap_max", max(0, ref.get("sent", 0) - own_cap))
                if ref.get("sent", 0) > bound:
                    self.viol("C15:client:%s:consumed-beyond-cap" % st.hclass,
                              "never-ending stream (%s): the scripted server had sent %d bytes before the client stopped reading; bound = cap %d + one %d-byte read + %d transport sync buffer + %d kernel slack = %d (client ended with: %s)"
                              % (st.hclass, ref.get("sent", 0), own_cap, g.CLIENT_READ_CHUNK, g.CLIENT_TRANSPORT_CAP, g.KERNEL_SLACK, bound,
                                 "Response returned" if ref["ok"] else ref.get("err", "")[:80]), st, rec, mode, flavor)
            # an over-cap stream that fits the transport's sync buffer: the client's own cap is the only bound in
            # play, so it must fail with its cap/framing error; failing only when the peer closes (or never) means
            # the whole stream was buffered
            if st.kind == "h" and st.hclass.startswith("chunk-overhead-") and not ref["ok"] and ref.get("et") != "framing":
                self.viol("C15:client:%s:consumed-whole-over-cap-stream" % st.hclass,
                          "%s: the client did not fail at its cap but read the stream to its end (ended with %s: %s)"
                          % (st.note, ref.get("et"), ref.get("err", "")[:80]), st, rec, mode, flavor)
            if ref["ok"]:
                if st.hclass == "cl-and-te" and ref["bl"] == 5 and ref["bx"] == b"hello".hex():
                    self.count("hostile_rejected")   # Transfer-Encoding overrides Content-Length (RFC 9112 6.3 rule 3): acceptable
                else:
                    why = ("over-cap / never-ending stream (%s)" % (st.note or st.hclass)) if st.kind == "f" or st.hclass == "header-over-cap" or st.hclass.startswith("chunk-overhead-") else \
                          ("truncated message (%s)" % st.note) if st.hclass.startswith("truncated-") else \
                          ("response with invalid length information (%s)" % (st.note or st.hclass))
                    self.viol(hkey("client", st.hclass), "%s was framed and returned as a complete Response: status %d, %d body bytes (%s)"
                              % (why, ref["st"], ref["bl"], ref["bx"][:40]), st, rec, mode, flavor)
            else:
                self.count("hostile_rejected")
            if rec["ndiff"] and len(self.suspects) == nv0:
                self.viol("C15:client:%s:cut-dependence" % st.hclass, "hostile response handled differently (returned vs. rejected) under %d of %d segmentations" % (rec["ndiff"], rec["nseg"]),
                          st, rec, mode, flavor)


# ------------------------------------------------------------------------------------------------

def plan(ctx, bins, corp, priv_bins):
    thorough = ctx.tier == "thorough"
    rng = random.Random(ctx.seed + 99)
    shards = []
    hang_shards = []
    req_to = 8000
    for fl in bins:
        b = fl
        scale = {"plain": 1.0, "asan": 0.2 if not thorough else 0.25, "tsan": 0.12}[fl]
        sv = corp["sv"][: max(40, int(len(corp["sv"]) * scale))]
        sm = corp["sm"][: max(30, int(len(corp["sm"]) * scale))]
        cv = corp["cv"][: max(40, int(len(corp["cv"]) * (scale if fl == "plain" else scale * 2)))]
        cm = corp["cm"][: max(20, int(len(corp["cm"]) * scale * 2))]
        sh_safe = [s for s in corp["sh"] if not s.hang_risk]
        sh_hang = [s for s in corp["sh"] if s.hang_risk]
        slow = 1 if fl == "plain" else 2
        inproc_extra = ["--wait-ms", 250 * slow, "--long-wait-ms", 2000 * slow, "--cpu-limit-ms", 4000 * slow]
        if os.environ.get("C15_TEST_TINY_WAITS"):
            # self-test of the confirmation phase: first-pass bounds so small that spurious
            # "did not happen in time" suspects are certain; the check must still exit 0
            inproc_extra = ["--wait-ms", 1, "--long-wait-ms", 1, "--grace-ms", 0, "--long-grace-ms", 0, "--cpu-limit-ms", 4000 * slow]
        # server, in process: every single cut of every valid stream
        shards += split_shards(fl, "server-inproc", sv, "sv", 14 if fl == "plain" else 10, inproc_extra)
        shards += split_shards(fl, "server-inproc", sh_safe + sm, "shm", 8, inproc_extra)
        shards += split_shards(fl, "server-inproc", corp["sf"] + (corp["sc"] if fl != "tsan" else corp["sc"][:1]), "sfc", 5, inproc_extra)
        # server, over loopback
        nsock = int((1500 if thorough else 160) * scale) + 24
        sock = [socket_variant(s, rng, 5, [1, 2, 5] if i % 3 == 0 else []) for i, s in enumerate(sv[:nsock])]
        sock += [socket_variant(s, rng, 2, [1] if i % 2 == 0 else []) for i, s in enumerate(sh_safe)]
        sock += [socket_variant(s, rng, 1, []) for s in sm[:40]]
        sock += corp["sf"][:3]
        shards += split_shards(fl, "server-socket", sock, "ss", 6, ["--wait-ms", 400 * slow, "--long-wait-ms", 2500 * slow])
        # client over loopback
        cl_extra = ["--req-timeout-ms", req_to, "--cpu-limit-ms", 4000 * slow]
        shards += split_shards(fl, "client-socket", cv, "cv", 8 if fl == "plain" else 5, cl_extra)
        shards += split_shards(fl, "client-socket", corp["ch"] + cm, "chm", 6 if fl == "plain" else 4, cl_extra)
        shards += split_shards(fl, "client-socket", corp["cf"] + corp["cg"], "cf", 6, cl_extra)
        shards += split_shards(fl, "client-socket", corp["cc"] + corp["co"], "cco", 6, cl_extra)
        # hostile cases that are expected to be able to hang: last, one process each
        if fl != "tsan":
            hs = sh_hang if fl == "plain" else sh_hang[:6]
            for i, s in enumerate(hs):
                hang_shards.append(Shard(fl, "server-inproc", [s], "hang-inproc-%s-%d" % (fl, i), ["--wait-ms", 250, "--long-wait-ms", 1500, "--cpu-limit-ms", 2500 * slow], 300))
            if fl == "plain":
                for i, s in enumerate(sh_hang[:3]):
                    hang_shards.append(Shard(fl, "server-socket", [socket_variant(s, rng, 1, [])], "hang-socket-%s-%d" % (fl, i),
                                             ["--wait-ms", 400, "--long-wait-ms", 2500], 300))
    for fl, pb in priv_bins.items():
        scale = 1.0 if fl == "plain" else 0.25
        cvp = []
        for s in corp["cv"][: int(len(corp["cv"]) * scale)]:
            s2 = g.Stream(s.id, s.side, s.kind)
            s2.__dict__.update(s.__dict__)
            s2.segspec = "A;M:4" if len(s.wire) <= 600 else s.segspec
            cvp.append(s2)
        for sh in split_shards(fl, "client-inproc", cvp + corp["ch"] + corp["cc"] + corp["co"], "cpriv", 8):
            sh.priv = True
            shards.append(sh)
    return shards, hang_shards, req_to


GENEROUS = {
    # bounds of the isolated confirmation run: decided by the logical conditions (sentinel request
    # served / EOF on the primed socket / Response returned); these limits are only watchdogs
    "server-inproc": ["--wait-ms", 20000, "--long-wait-ms", 30000, "--grace-ms", 1500, "--long-grace-ms", 3000, "--cpu-limit-ms", 12000],
    "server-socket": ["--wait-ms", 20000, "--long-wait-ms", 30000, "--grace-ms", 1500, "--long-grace-ms", 3000, "--pace-us", 2000, "--probe-ms", 30000],
    "client-socket": ["--req-timeout-ms", 30000, "--pace-us", 2000, "--cpu-limit-ms", 12000],
    "client-inproc": ["--cpu-limit-ms", 12000],
}


def isolation_variant(st, rec):
    """the same stream with only the segmentations the verdict rests on: the unsegmented reference
    plus the cuts of the recorded differing observations."""
    s2 = g.Stream(st.id, st.side, st.kind)
    s2.__dict__.update(st.__dict__)
    items = []
    if rec is not None:
        multi = ["," .join(map(str, d["cuts"])) for d in rec.get("diffs", []) if d.get("cuts")]
        zs = [str(d["z"]) for d in rec.get("diffs", []) if d.get("z")]
        if multi:
            items.append("X:" + "|".join(multi))
        if zs:
            items.append("Z:" + ",".join(zs))
    s2.segspec = ";".join(items)
    return s2


def confirm_suspects(ctx, judge, binary_of, req_to):
    """Every first-pass verdict is a suspect: many of them are 'X did not happen within a bound'
    observations taken on a shared, loaded machine. Representatives of each suspect key are re-run
    alone, in a fresh process, few at a time, with generous bounds; the key is reported only if the
    isolated run yields the same key again. Not reproduced -> counted, not reported."""
    by_key = {}
    for sp in judge.suspects:
        by_key.setdefault(sp["key"], []).append(sp)
    jobs, plan_ = [], {}
    for key, sps in by_key.items():
        if all(sp["confirmed"] for sp in sps):
            continue
        cands = [sp for sp in sps if not sp["confirmed"] and sp["rec"] is not None]
        step = max(1, len(cands) // 4)
        reps = cands[::step][:4]
        plan_[key] = reps
        for i, sp in enumerate(reps):
            def job(key=key, sp=sp, i=i):
                st = isolation_variant(sp["st"], sp["rec"])
                iso = Shard(sp["flavor"], sp["mode"], [st], "confirm-%s-%d" % (vf.h64(key), i), GENEROUS.get(sp["mode"], []), 600)
                class _S: pass
                tmp = _S(); tmp.flavor = sp["flavor"]; tmp.priv = (sp["mode"] == "client-inproc")
                run_shard(ctx, binary_of(tmp), iso)
                j2 = Judge(ctx, quiet=True)
                rec2 = iso.records.get(st.id)
                if rec2 is not None:
                    if sp["mode"].startswith("server"):
                        j2.server(sp["st"], rec2, sp["mode"], sp["flavor"])
                    else:
                        j2.client(sp["st"], rec2, sp["mode"], sp["flavor"], 30000)
                again = [x for x in j2.suspects if x["key"] == key]
                # a hang / crash in the confirmation run is a reproduction of nothing but itself: surface it
                return key, sp, again, iso
            jobs.append(job)
    results = vf.run_many(ctx, jobs, workers=4) if jobs else []
    reproduced = {}
    for key, sp, again, iso in results:
        ctx.obs("suspect_verdicts_rerun_in_isolation")
        for rr in iso.rrs:
            ctx.ingest(rr, where="(confirmation run %s %s)" % (sp["mode"], sp["flavor"]))
        for ev in iso.events:
            ctx.inconcl("confirmation run of %s (%s %s %s) ended with %s: %s" % (key, sp["mode"], sp["flavor"], sp["st"].id, ev["kind"], str(ev["detail"])[:300]))
        if again:
            reproduced.setdefault(key, []).append((sp, again[0]))
    for key, sps in by_key.items():
        if all(sp["confirmed"] for sp in sps):
            for sp in sps:
                ctx.violation(key, sp["what"], sp["detail"])
            continue
        if key in reproduced:
            ctx.obs("suspect_keys_reproduced_in_isolation")
            rep_ids = {id(sp) for sp, _ in reproduced[key]}
            for sp, ag in reproduced[key]:
                d = dict(sp["detail"])
                d["isolated_rerun"] = dict(what=ag["what"], observed=ag["detail"].get("observed"), diffs=ag["detail"].get("diffs"))
                ctx.violation(key, sp["what"] + " [reproduced alone in a fresh process with generous bounds]", d)
            for sp in sps:
                if id(sp) not in rep_ids:
                    ctx.violation(key, sp["what"], sp["detail"])
        else:
            for sp in sps:
                if sp["confirmed"]:
                    ctx.violation(key, sp["what"], sp["detail"])
            sps = [sp for sp in sps if not sp["confirmed"]]
            ctx.obs("suspect_verdicts_not_reproduced_in_isolation", len(sps))
            ctx.extra.setdefault("suspects_not_reproduced", []).append(
                dict(key=key, cases=len(sps), rerun=len(plan_.get(key, [])), first=dict(what=sps[0]["what"][:300], stream=sps[0]["st"].id,
                     mode=sps[0]["mode"], flavor=sps[0]["flavor"], note=sps[0]["st"].note)))


def run(ctx):
    thorough = ctx.tier == "thorough"
    flavors = ["plain", "asan"] + (["tsan"] if thorough else [])
    from concurrent.futures import ThreadPoolExecutor
    priv_flavors = ("plain", "asan") if thorough else ("plain",)
    bins, priv_bins = {}, {}
    with ThreadPoolExecutor(max_workers=6) as ex:
        main_f = {f: ex.submit(vf.build, "c15_http", f) for f in flavors}
        # optional: direct calls into the client's private framing functions (exact single cuts);
        # a compile failure of this -fno-access-control TU only skips the sub-run
        priv_f = {f: ex.submit(vf.build, "c15_http_priv", f, priv_flags()) for f in priv_flavors}
        for f, fu in main_f.items():
            bins[f] = fu.result()
        for f, fu in priv_f.items():
            try:
                priv_bins[f] = fu.result()
            except vf.HarnessFailure:
                ctx.extra.setdefault("skipped", []).append("client-inproc (%s): optional -fno-access-control build failed" % f)
    corp = corpora(ctx.seed, ctx.tier)
    by_id = {}
    for lst in corp.values():
        for s in lst:
            by_id[s.id] = s
    shards, hang_shards, req_to = plan(ctx, bins, corp, priv_bins)

    def binary_of(sh):
        return priv_bins[sh.flavor] if getattr(sh, "priv", False) else bins[sh.flavor]

    done = vf.run_many(ctx, [lambda sh=sh: run_shard(ctx, binary_of(sh), sh) for sh in shards])
    done += vf.run_many(ctx, [lambda sh=sh: run_shard(ctx, binary_of(sh), sh) for sh in hang_shards])

    judge = Judge(ctx)
    retry = []
    flaky = []
    for sh in done:
        for fr in sh.flaky:
            f1 = fr.get("first", {})
            flaky.append(dict(mode=fr.get("mode"), flavor=sh.flavor, id=fr.get("id"), cuts=fr.get("cuts"),
                              first=dict(ok=f1.get("ok"), err=f1.get("err"), st=f1.get("st"), bl=f1.get("bl"), nreq=f1.get("nreq"),
                                         sync=f1.get("sync"), closed=f1.get("closed"), ms=f1.get("ms"))))
    ctx.extra["not_reproduced_first_observations_sample"] = flaky[:12]
    for sh in done:
        for rr in sh.rrs:
            ctx.ingest(rr, where="(%s, %s)" % (sh.mode, sh.flavor))
        for ev in sh.events:
            if ev["kind"] == "harness":
                ctx.inconcl("%s %s: harness process ended abnormally: %s" % (sh.mode, sh.flavor, ev["detail"]))
            else:
                retry.append((sh, ev))
    # watchdog / crash events: re-run that case once, alone; only a reproduced event is a violation
    def isolated(sh, ev):
        st = next(s for s in sh.streams if s.id == ev["id"])
        iso = Shard(sh.flavor, sh.mode, [st], "iso-%s-%s-%s" % (sh.mode, sh.flavor, st.id), GENEROUS.get(sh.mode, sh.extra), 900)
        if getattr(sh, "priv", False):
            iso.priv = True
        run_shard(ctx, binary_of(sh), iso)
        return sh, ev, st, iso

    for sh, ev, st, iso in vf.run_many(ctx, [lambda a=a, b=b: isolated(a, b) for a, b in retry]):
        ctx.obs("watchdog_or_crash_events")
        again = [e for e in iso.events if e["kind"] == ev["kind"]]
        side = "client" if sh.mode.startswith("client") else "server"
        cls = st.hclass or st.cls()
        fam = HKEY.get(cls, (cls, ""))[0]
        for rr in iso.rrs:
            for rep in rr.san_reports:
                pass  # sanitizer reports of the first run were ingested already
        if again:
            ctx.obs("watchdog_or_crash_events_reproduced_in_isolation")
            if ev["kind"] == "hang" and again[0]["detail"].get("probe") and not again[0]["detail"].get("spinning"):
                # a fresh connection was not served within the (generous) bound, but the process was
                # not burning CPU meanwhile: slow machine, not an endless loop
                ctx.obs("probe_timeouts_without_cpu_burn")
                ctx.inconcl("%s %s case %s: fresh connection not served within the generous bound twice, without the I/O thread spinning" % (sh.mode, sh.flavor, st.id))
            elif ev["kind"] == "hang":
                d = again[0]["detail"]
                judge.viol("C15:%s:%s:io-thread-hang" % (side, fam),
                           "%s: a single data-callback / framing call did not return: %s ms CPU in one call on a %d-byte stream (%s), reproduced in an isolated process%s"
                           % (sh.mode, d.get("cpu_ms"), len(st.wire), st.note or cls, "; fresh connections are no longer served" if d.get("probe") else ""),
                           st, None, sh.mode, sh.flavor, hang=d, first=ev["detail"], confirmed=True)
            elif ev["kind"] == "crash":
                judge.viol("C15:%s:%s:process-crash" % (side, fam), "%s: the process died while handling the stream (rc=%s), reproduced in isolation: %s"
                           % (sh.mode, again[0]["detail"].get("rc"), again[0]["detail"].get("stderr", "")[-300:]), st, None, sh.mode, sh.flavor, crash=again[0]["detail"], confirmed=True)
            else:
                judge.viol("C15:%s:%s:call-never-returns" % (side, fam), "%s: process watchdog fired twice on this case" % sh.mode, st, None, sh.mode, sh.flavor, confirmed=True)
        else:
            ctx.obs("watchdog_or_crash_events_not_reproduced")
            if st.id in iso.records:
                sh.records[st.id] = iso.records[st.id]
            else:
                ctx.inconcl("%s %s case %s: %s once, no result in isolation either" % (sh.mode, sh.flavor, st.id, ev["kind"]))

    nsample = 0
    for sh in done:
        for st in sh.streams:
            rec = sh.records.get(st.id)
            if rec is None:
                if not any(ev["id"] == st.id for ev in sh.events):
                    ctx.inconcl("%s %s: no result for case %s" % (sh.mode, sh.flavor, st.id))
                continue
            smp = None
            if nsample < 6 and st.kind in ("v", "h") and (nsample % 2 == 0) == (st.kind == "v"):
                smp = dict(st.sample(), mode=sh.mode, flavor=sh.flavor, observed=dict(ndiff=rec["ndiff"], nseg=rec["nseg"]))
                nsample += 1
            ctx.case(sig="%s|%s" % (sh.mode, st.sig()), sample=smp, n=rec["nseg"])
            ctx.obs("%s:segmentations_judged" % sh.mode, rec["nseg"])
            if rec.get("capped"):
                ctx.obs("cases_with_segmentation_exploration_cut_short")
            if "A" in st.segspec.split(";"):
                ctx.obs("streams_with_every_single_cut_point")
            if st.interim:
                ctx.obs("client_streams_with_interim_1xx")
            if st.surplus:
                ctx.obs("client_streams_with_surplus_bytes")
            if len(st.msgs) > 1:
                ctx.obs("pipelined_streams")
            if sh.mode.startswith("server"):
                judge.server(st, rec, sh.mode, sh.flavor)
            else:
                judge.client(st, rec, sh.mode, sh.flavor, req_to)

    confirm_suspects(ctx, judge, binary_of, req_to)

    ctx.rule = ("stream = generated message list (method/status, header set with OWS/obs-text/case variants, body 0..cap, framing none/"
                "Content-Length/chunked incl. extensions, trailers, leading zeros/close-delimited, interim 1xx, surplus bytes, pipelines of 1-8) "
                "or hostile dictionary entry (invalid Content-Length forms, non-hex/overflowing chunk sizes around 2^64-k, bad chunk terminators, "
                "non-chunked final codings, over-cap headers, floods) or mutated valid stream; each judged per mode (server-inproc via protected "
                "handleIncomingData on a session primed through a real connection, server-socket, client-socket) and per segmentation "
                "(unsegmented reference, every single cut point or structural cuts, seeded multi-cuts, forced short reads). "
                "distinct = hash of (mode, side, kind, hostile class, #messages, #interim, surplus, per-message feature tuple: method/status, "
                "framing class, body-size bucket, #chunks bucket, hex form, #headers, OWS, obs-text)")
    ctx.assumptions = [
        "the generator's message list is the ground truth; header names are unique per message (duplicate-field combination is not judged)",
        "a request is 'delivered' iff the catch-all handler registered with setDefaultHandler ran for it; order between pipelined requests is C16's concern and is ignored here",
        "effective server request cap = SessionInfo::MAX_BUFFER_SIZE (1 MiB); client cap configured to 1 MiB (maxResponseBytes = jsonConfig.maxPayloadSize) on top of the transport's 1 MiB maxSyncReceiveBuffer, so the client-side cap in the memory bound is 2 MiB",
        "memory bound per case: peak live bytes (counting operator new/delete, all threads) - baseline <= 3 x cap + 1 MiB + 8 x stream length",
        "never-ending paced client floods: bytes the scripted server could send before the client stopped reading <= cap + one 8 KiB read + 1 MiB transport sync buffer + 512 KiB kernel slack (server SO_SNDBUF 64 KiB); over-cap streams below 1 MiB must end in HttpFramingError",
        "a single framing call that burns > 4 s CPU (2.5 s for the tiny chunk-size-overflow inputs) on <= 1 MiB of input is an endless loop, confirmed by an isolated re-run",
        "socket modes: segment boundaries are paced / forced by kernel-legal short reads, not guaranteed byte-exact; exact cuts are the in-process modes",
        "Transfer-Encoding overriding Content-Length and LF-only line ends are tolerated either way (RFC 9112 lets a recipient accept or reject)",
    ]
    ctx.require_obs("server-inproc:framings", "server-inproc:sessions_primed", "server-inproc:data_callbacks_fed", "server-socket:framings",
                    "server-socket:multi_segment_framings", "client-socket:exchanges", "valid_streams_judged", "hostile_cases_judged",
                    "flood_cases_judged", "mutated_cases_judged", "streams_with_every_single_cut_point", "pipelined_streams",
                    "client_streams_with_interim_1xx")
    walls = sorted(((round(sum(rr.wall for rr in sh.rrs), 1), sh.tag, len(sh.streams)) for sh in done), reverse=True)
    ctx.extra["slowest_shards_s"] = walls[:8]
    ctx.extra["corpora"] = {k: len(v) for k, v in corp.items()}
    ctx.extra["shards"] = len(shards) + len(hang_shards)


def replay(ctx, path):
    """re-run exactly the stream named in a replay file (corpora are deterministic in seed + tier)."""
    with open(path) as fh:
        rp = json.load(fh)
    d = rp["first"]["detail"]
    ctx.seed, ctx.tier = d.get("seed", rp.get("seed", ctx.seed)), d.get("tier", rp.get("tier", ctx.tier))
    corp = corpora(ctx.seed, ctx.tier)
    st = None
    for lst in corp.values():
        for s in lst:
            if s.id == d["stream"]:
                st = s
    mode, flavor = d["mode"], d.get("flavor", "plain")
    stored = d.get("case_line", "")
    if st is None or (stored and len(stored) < 20000 and st.line().split("\t")[6] != stored.split("\t")[6]):
        # the generator changed since the replay file was written: re-run the stored bytes verbatim;
        # without the message list only the robustness clauses can be judged (observation is printed)
        f = stored.split("\t")
        if len(f) < 7:
            raise vf.HarnessFailure("stream %s not found in the regenerated corpora and no stored case line" % d["stream"])
        st = g.Stream(f[0], "client" if mode.startswith("client") else "server", "m")
        st.hclass, st.expect_n, st.method, st.end, st.segspec, st.wire = "replayed-verbatim", -1, f[3], f[4], f[5], bytes.fromhex(f[6])
        if len(f) >= 9:
            st.kind, st.flood_unit, st.flood_total = "f", bytes.fromhex(f[7]), int(f[8])
        print("note: stream regenerated from the stored bytes (generator changed); robustness clauses only")
    elif mode not in ("server-inproc", "client-inproc"):
        st = socket_variant(st, random.Random(ctx.seed + 99), 5, [1] if mode == "server-socket" else []) if st.kind != "f" else st
    binary = vf.build("c15_http", flavor) if mode != "client-inproc" else vf.build("c15_http_priv", flavor, extra_flags=priv_flags())
    sh = Shard(flavor, mode, [st], "replay", GENEROUS.get(mode, []), 900)
    if mode == "client-inproc":
        sh.priv = True
    run_shard(ctx, binary, sh)
    judge = Judge(ctx)
    for rr in sh.rrs:
        ctx.ingest(rr, where="(replay %s %s)" % (mode, flavor))
    for ev in sh.events:
        side = "client" if mode.startswith("client") else "server"
        fam = HKEY.get(st.hclass or st.cls(), (st.hclass or st.cls(), ""))[0]
        sym = {"hang": "io-thread-hang", "crash": "process-crash"}.get(ev["kind"], "call-never-returns")
        judge.viol("C15:%s:%s:%s" % (side, fam, sym), "replay: %s" % (ev["detail"],), st, None, mode, flavor)
    rec = sh.records.get(st.id)
    if rec:
        ctx.case(sig=st.sig(), sample=dict(st.sample(), observed=rec["ref"]), n=rec["nseg"])
        (judge.server if mode.startswith("server") else judge.client)(*((st, rec, mode, flavor) if mode.startswith("server") else (st, rec, mode, flavor, 8000)))
    for sp in judge.suspects:
        ctx.violation(sp["key"], sp["what"], sp["detail"])
    print(json.dumps(dict(stream=st.sample(), record=rec, events=sh.events), indent=1, default=str)[:6000])
