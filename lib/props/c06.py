# C06 — UDP keeps datagram boundaries and the peer-to-session mapping
#
# harness/c06_udp.cpp drives Transport::udp against raw UDP sockets and logs both sides; the
# offline checker (harness/c06_check.hpp, no iora code) decides. This module only schedules
# histories, re-runs loss suspects once in isolation and folds the records into the evidence.
import json
import os
import vf

LEVEL = "exploration"
BUILDS = [("c06_udp", "plain"), ("c06_udp", "asan"), ("c06_udp", "tsan")]

# histories per (flavor, mode): quick ~400 mix + 22 idle-expiry (real time, ~3-4 s each, run in parallel)
PLAN = {
    "quick": {"plain": {"mix": 272, "idle": 16}, "asan": {"mix": 128, "idle": 6}},
    "thorough": {"plain": {"mix": 12000, "idle": 96}, "asan": {"mix": 4000, "idle": 32},
                 "tsan": {"mix": 4000, "idle": 32}},
}


def _crash_key(rr, k):
    sig = -rr.rc if rr.rc < 0 else rr.rc
    kind = "abort" if sig == 6 else ("segv" if sig == 11 else f"rc-{sig}")
    tail = rr.err[-600:]
    if "terminate called" in tail:
        kind = "terminate"
    return (f"C06:crash:{kind}", f"UDP harness process died ({kind}) in history {k}: {tail[-200:]!r}")


def _chunks(total, parts):
    per = max(1, (total + parts - 1) // parts)
    return [(s, min(per, total - s)) for s in range(0, total, per)]


def run(ctx):
    plan = PLAN["thorough" if ctx.tier == "thorough" else "quick"]
    bins = vf.build_many([("c06_udp", f) for f in plan])
    jobs = []
    for fl, modes in plan.items():
        b = bins[("c06_udp", fl)]
        for mode, n in modes.items():
            # idle histories wait on a 1 s GC tick: one or two per process so they overlap
            parts = max(1, n // 2) if mode == "idle" else (16 if ctx.tier != "thorough" else 48)
            off = {"plain": 0, "asan": 100000, "tsan": 200000}[fl]  # flavors explore different histories
            for start, cnt in _chunks(n, min(parts, n)):
                start += off
                jobs.append(lambda b=b, mode=mode, start=start, cnt=cnt: (b, mode, vf.run_resumable(
                    ctx, b, ["--mode", mode, "--seed", ctx.seed], start, cnt, timeout=1800,
                    tag=f"udp-{mode}", crash_key=_crash_key)))
    suspects = set()
    # the histories are latency-bound (stop-and-wait round trips, 1 s GC ticks), a process uses a fraction
    # of a core: run more processes than cores
    for b, mode, rrs in vf.run_many(ctx, jobs, workers=min(32, 2 * vf.NCPU)):
        for rr in rrs:
            ctx.ingest(rr, where=f"({mode}, {rr.flavor})")
            if getattr(rr, "bad", None):
                ctx.inconcl(rr.bad)
            for r in rr.records:
                if r.get("t") == "suspect":
                    suspects.add((b, r.get("mode", mode), int(r.get("i", 0))))
    # loss-class findings (datagram never delivered) and kernel-drop excuses are decided by one
    # isolated, still paced re-run of exactly that history: reproduced with zero kernel drops ->
    # violation; drops again -> inconclusive; clean -> scheduling noise of the shared machine.
    MAX_RERUN = 12

    def rerun(b, mode, i):
        out = os.path.join(ctx.tmp, f"iso-{vf.flavor_of(b)}-{mode}-{i}.jsonl")
        return mode, i, vf.run_harness(b, ["--mode", mode, "--seed", ctx.seed, "--from", i, "--count", 1,
                                           "--isolated", 1, "--out", out], timeout=1800, out_file=out)
    todo = sorted(suspects)[:MAX_RERUN]
    for mode, i, rr in vf.run_many(ctx, [lambda t=t: rerun(*t) for t in todo], workers=6):
        ctx.ingest(rr, where=f"(isolated re-run {mode}/{i}, {rr.flavor})")
        ctx.obs("loss_suspects_rerun_in_isolation")
        if rr.timed_out or rr.rc not in (0, 86, 87):
            ctx.inconcl(f"isolated re-run of history {mode}/{i} ({rr.flavor}) rc={rr.rc} timed_out={rr.timed_out}")
    if len(suspects) > MAX_RERUN:
        ctx.inconcl(f"{len(suspects)} histories with undelivered datagrams; only {MAX_RERUN} re-run in isolation")

    ctx.rule = (
        "history = fresh Transport::udp (edge/level triggered, batched/unbatched loop, small SO_SNDBUF, small write queue, "
        "ioReadChunk 65536|65507, maxSessions 0|2..6) with 1-2 listeners and 2-8 raw UDP peers on 127.0.0.0/8, ::1, or IPv4+IPv6 peers against a dual-stack :: listener; 30-70 seeded steps out of {peer batch -> listener, "
        "peer -> connected session, foreign peer -> connected port, send on open/closed/unknown session, sends to several "
        "destinations under an injected EAGAIN burst, connect, connectViaListener (biased to peers that already have a "
        "receiving session), close (biased to *other* sessions of such a peer), oversize send (error close), both-way burst "
        "with a second sending thread}, plus the motifs 'receiving session, open+close another session to the same peer, peer "
        "sends again' and 'fill the engine to its session cap, then an established peer and a new peer send'; idle mode = six real-time idle-expiry shapes (1 s timeout, 1 s GC tick). Sizes 1..65507 boundary-biased. "
        "Every datagram carries (origin, id, length, checksum) and is compared byte for byte. Offline rules: wire datagrams "
        "from iora are a sub-multiset of accepted sends, each at most once, intact, addressed to the session's peer; every "
        "datagram a raw peer sent (kernel drop counters zero) is exactly one intact data event on a session whose "
        "getRemoteAddress equals the source; while the session that receives (listener, peer) is open no other session gets "
        "that peer's datagrams there and no new accept for it occurs, whatever else is closed. distinct = hash of the "
        "configuration coordinates and of which of those situations the history actually reached")
    ctx.assumptions = [
        "loopback only: listeners on 127.0.0.1, on ::1 (~15 %) or on the dual-stack wildcard :: (~15 %, IPv4 raw peers then appear as ::ffff:127.x.y.z next to ::1 peers; a v4-mapped address and its IPv4 spelling are the same address for every comparison); in ~40 % of the IPv4/dual histories some raw peers bind to other addresses of 127.0.0.0/8, a few sharing a port number with another peer; ioReadChunk >= 65507 (a smaller configured chunk cuts by configuration)",
        "maxSessions is 0 or, in ~15 % of the mix histories, 2..6: at the cap the engine may refuse a peer that has no receiving session (an undelivered datagram of such a peer is excused only if the number of announced-and-not-closed sessions reached the cap while it was in flight; counted); peers with an open receiving session are judged as always",
        "EAGAIN from send/sendto is injected for iora's I/O thread by interposition (a legal kernel answer; real loopback sockets never fill their send buffer); payloads are never altered",
        "a datagram is 'delivered by the kernel' when sendto returned its full length and the drops column of /proc/net/udp{,6} for the destination socket stayed 0; raw sockets additionally report SO_RXQ_OVFL",
        "an undelivered datagram counts only when an isolated re-run of the same history reproduces it with zero kernel drops",
        "the receiving session is tracked per (address the peer sent to, peer address); iora keys its index by peer address only, which this rule tolerates",
        "idle expiry uses real time (1 s idle timeout, 1 s GC interval): a keep-alive delayed beyond 1 s on a loaded machine weakens a history, it cannot produce a false alarm",
    ]
    ctx.require_obs(
        "histories", "histories_mode_mix", "histories_mode_idle", "data_events", "datagrams_delivered_intact", "wire_datagrams",
        "wire_datagrams_intact", "accepts", "via_connects", "connects", "via_to_peer_with_open_receiving_session",
        "close_of_other_session_while_receiving_session_open", "probes_after_close_of_other_session",
        "idle_expiry_of_other_session_while_receiving_session_open", "closes_by_app", "closes_idle_expiry", "closes_on_error",
        "eagain_injected", "eagain_injected_on_listener_socket", "eagain_injected_on_connected_socket",
        "eagain_bursts_with_several_destinations_queued", "delivered_65507", "wire_65507", "delivered_lt_16", "wire_lt_16",
        "histories_two_listeners", "histories_ipv6", "histories_dual_stack_with_several_v4_mapped_peers",
        "histories_peers_on_other_127_addresses", "histories_session_cap",
        "datagrams_from_peer_with_receiving_session_sent_at_session_cap", "histories_batched_loop", "histories_level_triggered", "histories_small_sndbuf",
        "histories_small_write_queue", "kernel_drop_counters_read", "step_burst_both_ways",
        "step_send_on_closed_or_unknown_session", "foreign_datagram_to_connected_port_not_delivered")


def replay(ctx, path):
    """Re-run the single history named in a replay file written for a C06 violation."""
    with open(path) as fh:
        rep = json.load(fh)
    det = (rep.get("first") or {}).get("detail") or {}
    h = det.get("history") or {}
    mode, seed, idx = h.get("mode", "mix"), int(h.get("seed", rep.get("seed", 1))), int(h.get("index", 0))
    for fl in ("plain", "asan"):
        b = vf.build("c06_udp", fl)
        out = os.path.join(ctx.tmp, f"replay-{fl}.jsonl")
        rr = vf.run_harness(b, ["--mode", mode, "--seed", seed, "--from", idx, "--count", 1, "--isolated", 1,
                                "--out", out], timeout=1800, out_file=out)
        ctx.ingest(rr, where=f"(replay {mode}/{idx}, {fl})")
        ctx.case(sig=f"replay-{mode}-{idx}-{fl}", sample=dict(mode=mode, seed=seed, index=idx, flavor=fl))
    ctx.rule = f"replay of history {mode}/{idx} seed {seed}"
