# C18 — WebSocket framing round-trips and reassembles under any segmentation; nothing after
# close; no input makes an endpoint throw, over-allocate or buffer without bound.
#
# Oracle = lib/c18_wsgen.py (reference codec, receiver model, generator); harness/c18_ws.cpp only
# drives iora and reports what it observed (delivered messages, wire capture, exceptions,
# allocation counters).
import json, os, random
import vf
import c18_wsgen as g

LEVEL = "exploration"
BUILDS = [("c18_ws", "plain"), ("c18_ws", "asan"), ("c18_ws", "tsan")]
MIB = 1024 * 1024
KIB = 1024
STUCK_CLASSES = {"control-len126", "control-len127", "control-nofin", "reserved-opcode", "nonminimal-len",
                 "continuation-without-start", "start-inside-fragments", "close-len1", "close-bad-reason", "message-just-beyond-max"}


def setup():
    # optional thorough-tier libFuzzer targets (clang); a compile failure only skips that sub-run
    try:
        vf.build("c18_wsfuzz", "fuzz")
    except vf.HarnessFailure as e:
        print("[setup] optional c18_wsfuzz.fuzz not built: %s" % str(e)[:300])


# an I/O thread killed by the known length_error finding is never joined (the harness process stops
# serving and exits): not a leak of interest
TSAN_ENV = {"TSAN_OPTIONS": "report_thread_leaks=0"}
RACE_KINDS = ["server:peer-close", "server:app-sendClose", "client:peer-close", "client:app-sendClose", "client:app-disconnect"]


# ------------------------------------------------------------------------------------------------
# corpora (deterministic in seed + tier)

def corpora(seed, tier):
    thorough = tier == "thorough"
    rng = random.Random(seed * 1000003 + (11 if thorough else 5))
    c = {}
    c["sv"] = g.valid_corpus(rng, "s", 6000 if thorough else 300, "sv")
    c["sh"] = g.hostile_corpus(rng, "s", "sh", quick=not thorough)
    c["sm"] = g.mutated_corpus(rng, c["sv"], 3000 if thorough else 160, "s", "sm")
    c["cv"] = g.valid_corpus(rng, "c", 1500 if thorough else 150, "cv")
    c["ch"] = g.hostile_corpus(rng, "c", "ch", quick=not thorough)
    c["cm"] = g.mutated_corpus(rng, c["cv"], 600 if thorough else 40, "c", "cm")
    for st in c["sv"]:
        g.seg_inproc(st, rng, all_limit=1500 if thorough else 700, listed=200 if thorough else 90, multi=6 if thorough else 3)
    for st in c["cv"]:
        g.seg_socket(st, rng, client=True)
    for st in c["ch"] + c["cm"]:
        L = len(st.wire)
        st.segspec = "W;" + ("Z:1;" if L <= 1500 else "") + ("Z:%d;" % max(5, L // 100)) + "R:1"
    # endpoint-initiated close (kind 'a'): own generator state, so the corpora above stay what they were
    rng2 = random.Random(seed * 7919 + (17 if thorough else 13))
    c["sa"] = g.appclose_corpus(rng2, "s", 800 if thorough else 60, "sa")
    c["ca"] = g.appclose_corpus(rng2, "c", 400 if thorough else 40, "ca")
    for st in c["sa"]:
        g.seg_inproc(st, rng2, all_limit=1500 if thorough else 700, listed=200 if thorough else 90, multi=6 if thorough else 3)
    for st in c["ca"]:
        g.seg_socket(st, rng2, client=True)
    c["frame_specs"] = g.frame_cases(rng, 6000 if thorough else 700)
    c["frame_hostile"] = g.frame_hostile(rng)
    return c


# ------------------------------------------------------------------------------------------------
# shards with resume after a stop / crash / watchdog

class Shard:
    def __init__(self, flavor, mode, streams, tag, extra=(), timeout=900):
        self.flavor, self.mode, self.streams, self.tag, self.extra, self.timeout = flavor, mode, streams, tag, list(extra), timeout
        self.records = {}
        self.events = []      # dict(kind=crash|timeout|harness, id, detail)
        self.rrs = []

    def args(self):
        if self.mode == "server-inproc":
            return ["--mode", "server", "--exact", 1]
        if self.mode == "server-socket":
            return ["--mode", "server", "--exact", 0]
        return ["--mode", "client"]


def run_shard(ctx, binary, sh):
    path = os.path.join(ctx.tmp, "%s.cases" % sh.tag)
    with open(path, "w") as fh:
        for st in sh.streams:
            fh.write(st.line() + "\n")
    cur, rounds = 0, 0
    while cur < len(sh.streams) and rounds < 200:
        rounds += 1
        out = os.path.join(ctx.tmp, "%s.%d.jsonl" % (sh.tag, rounds))
        rr = vf.run_harness(binary, sh.args() + ["--cases", path, "--seed", ctx.seed, "--from", cur, "--out", out] + sh.extra,
                            timeout=sh.timeout, out_file=out, env_extra=TSAN_ENV)
        try:
            os.unlink(out)
        except OSError:
            pass
        sh.rrs.append(rr)
        if os.environ.get("C18_TIMING"):
            print("[c18-timing] %-40s %6.1fs rc=%s n=%d" % (sh.tag, rr.wall, rr.rc, len(sh.streams)), flush=True)
        begun, stopped, done = None, None, False
        for r in rr.records:
            t = r.get("t")
            if t == "c18":
                sh.records[r["id"]] = r
            elif t == "begin":
                begun = r
            elif t == "stopped":
                stopped = r
            elif t == "done":
                done = True
        if done and not rr.timed_out:
            break
        if stopped is not None:
            cur = stopped["at"] + 1
            continue
        if begun is None or (begun["id"] in sh.records and rr.rc == 0):
            sh.events.append(dict(kind="harness", id=None, detail="rc=%s timed_out=%s stderr=%s" % (rr.rc, rr.timed_out, rr.err[-600:])))
            break
        if rr.timed_out:
            sh.events.append(dict(kind="timeout", id=begun["id"], detail="process watchdog %ss" % sh.timeout))
        else:
            sh.events.append(dict(kind="crash", id=begun["id"], detail=dict(rc=rr.rc, stderr=rr.err[-1500:], san=[x["key"] for x in rr.san_reports])))
        cur = begun["idx"] + 1
    try:
        os.unlink(path)
    except OSError:
        pass
    return sh


def split_shards(flavor, mode, streams, tag, nshards, extra=(), timeout=900):
    if not streams:
        return []
    nshards = max(1, min(nshards, len(streams)))
    buckets = [[] for _ in range(nshards)]
    loads = [0] * nshards
    for st in sorted(streams, key=lambda s: -(s.nseg() * (len(s.wire) + 300))):
        i = loads.index(min(loads))
        buckets[i].append(st)
        loads[i] += st.nseg() * (len(st.wire) + 300) + (3000000 if st.kind == "h" else 0)
    res = []
    for i, b in enumerate(buckets):
        if b:
            b.sort(key=lambda s: (s.cfgmax, s.id))     # one server per configured maximum
            res.append(Shard(flavor, mode, b, "%s-%s-%s-%d" % (tag, mode, flavor, i), extra, timeout))
    return res


# ------------------------------------------------------------------------------------------------
# judges: every function returns a list of (key, what, extra_detail)

def _mrec(t, payload):
    return [t, len(payload), g.sha1(payload)]


def _cls_of(st, idx):
    """class of the idx-th expected message: text|binary, fragmented or not (for the key)."""
    n = -1
    cur = None
    for f in st.frames:
        if f.opcode in (g.OP_TEXT, g.OP_BIN):
            cur = ["text" if f.opcode == g.OP_TEXT else "binary", 1]
        elif f.opcode == g.OP_CONT and cur:
            cur[1] += 1
        else:
            continue
        if f.fin and cur:
            n += 1
            if n == idx:
                return "%s-%s" % (cur[0], "fragmented" if cur[1] > 1 else "single")
            cur = None
    return "message"


def endpoint_frames(st, ob, mode):
    """frames the endpoint wrote (reference decode); the in-process flush marker is stripped."""
    wire = bytes.fromhex(ob["wire"])
    frames, rest, err = g.decode_all(wire)
    if mode == "server-inproc" and frames and frames[-1].opcode == g.OP_CLOSE and g.parse_close(frames[-1].payload) == (g.MARK_CODE, b"vfmark"):
        frames = frames[:-1]
    return frames, rest, err


def judge_valid(st, ob, mode):
    side = "server" if st.side == "s" else "client"
    v = []
    e = st.expect
    if ob.get("exc"):
        v.append(("C18:%s:valid-stream:exception" % side, "exception escaped the data path on a stream of valid frames: %s" % ob["exc"], {}))
    # ---- messages
    exp = [(_mrec("t", p) if t in ("t", "T!") else _mrec("b", p)) for t, p in e.msgs]
    got = ob["msgs"]
    stop = len(exp)
    if e.first_bad is not None:
        stop = e.first_bad[0]
        if len(got) > stop and got[stop] == exp[stop]:
            v.append(("C18:%s:text:invalid-utf8-delivered" % side,
                      "a complete text message that is not valid UTF-8 was delivered to the text callback (%s)" % st.note, dict(index=stop)))
    cmp_got = got[:stop] if e.first_bad is not None else got
    cmp_exp = exp[:stop]
    if cmp_got != cmp_exp:
        i = 0
        while i < len(cmp_got) and i < len(cmp_exp) and cmp_got[i] == cmp_exp[i]:
            i += 1
        if i == len(cmp_got) and i < len(cmp_exp):
            sym, cls = "message-lost", _cls_of(st, i)
            what = "message %d of %d (%s, %d bytes) was never delivered" % (i, len(cmp_exp), cmp_exp[i][0], cmp_exp[i][1])
        elif i == len(cmp_exp):
            if st.kind == "t" or (e.close is not None):
                v.append(("C18:%s:message-delivered-after-close-frame" % side,
                          "%d message(s) whose frames follow the peer's close frame were delivered (RFC 6455 §1.4: data after a close frame is discarded); first: %s %d bytes"
                          % (len(cmp_got) - i, cmp_got[i][0], cmp_got[i][1]), dict(index=i)))
                sym = None
            else:
                sym, cls = "phantom-message", "stream"
                what = "a message that was never sent was delivered: %s %d bytes" % (cmp_got[i][0], cmp_got[i][1])
        else:
            cls = _cls_of(st, i)
            if cmp_got[i][0] == cmp_exp[i][0] and cmp_got[i][1] == cmp_exp[i][1]:
                sym = "payload-corrupted"
            elif cmp_got[i][0] != cmp_exp[i][0] and cmp_got[i][1:] == cmp_exp[i][1:]:
                sym = "type-mismatch"
            else:
                sym = "message-mismatch"
            what = "message %d: expected %s %d bytes sha1 %s, delivered %s %d bytes sha1 %s" % (
                i, cmp_exp[i][0], cmp_exp[i][1], cmp_exp[i][2][:12], cmp_got[i][0], cmp_got[i][1], cmp_got[i][2][:12])
        if sym:
            v.append(("C18:%s:%s:%s" % (side, cls, sym), what, dict(index=i, expected=cmp_exp[max(0, i - 1):i + 2], delivered=cmp_got[max(0, i - 1):i + 2])))
    # ---- what the endpoint wrote: pongs, close reply
    frames, rest, err = endpoint_frames(st, ob, mode)
    if err:
        v.append(("C18:%s:wire:malformed-frame-sent" % side, "the endpoint wrote bytes the reference codec rejects: %s" % err, dict(wire=ob["wire"][:200])))
    pongs = [f.payload for f in frames if f.opcode == g.OP_PONG]
    own_close_at = None      # number of pings received before the endpoint sent its OWN close frame (1007 / application close)
    if e.first_bad is None:
        exp_pongs = e.pongs
        if st.kind == "a":
            own_close_at = st.pings_before_trigger
    else:
        stop_i, owed = e.first_bad
        own_close_at = owed
        # The endpoint answers a non-UTF-8 text message with Close 1007. If it then FAILS the connection
        # (stops processing input, RFC 6455 7.1.7) nothing behind that message is judged. But an endpoint
        # that still delivers messages that FOLLOW the bad one is still processing the peer's frames, has
        # not received a Close, and owes a pong for every ping in front of the last message it delivered
        # (5.5.2: a Ping is answered unless a Close was RECEIVED; sending one only forbids data frames).
        later = [i for i, (t, p) in enumerate(e.msgs) if i > stop_i and t != "T!"]
        tail = got[stop_i:]
        if tail and tail[0] == exp[stop_i]:
            tail = tail[1:]
        m = 0
        while m < len(tail) and m < len(later) and tail[m] == exp[later[m]]:
            m += 1
        if m:
            owed = max(owed, e.pings_at_msg[later[m - 1]])
        exp_pongs = e.pongs[:owed]
    # pongs for pings that follow the peer's close frame are tolerated (control frames may still be sent)
    got_pongs = pongs if (e.first_bad is None and e.close is None) else pongs[:len(exp_pongs)]
    if got_pongs != exp_pongs:
        i = 0
        while i < len(got_pongs) and i < len(exp_pongs) and got_pongs[i] == exp_pongs[i]:
            i += 1
        after = own_close_at is not None and i >= own_close_at
        if i < len(got_pongs) and i < len(exp_pongs):
            v.append(("C18:%s:ping:pong-payload-mismatch" % side, "pong %d carries %d bytes %s, the ping carried %d bytes %s"
                      % (i, len(got_pongs[i]), got_pongs[i][:16].hex(), len(exp_pongs[i]), exp_pongs[i][:16].hex()), dict(index=i)))
        elif i == len(got_pongs):
            if after:
                v.append(("C18:%s:ping:pong-missing-after-own-close" % side,
                          "ping %d of %d (%d payload bytes) was received after the %s had sent its own close frame (%s) and before any close frame of the peer, and was not answered; "
                          "the %d ping(s) before the endpoint's close were answered (synced=%s eof=%s)"
                          % (i, len(exp_pongs), len(exp_pongs[i]), side, "application sendClose(1000,'bye')" if st.kind == "a" else "1007, session kept, later messages still delivered",
                             own_close_at, ob["synced"], ob["eof"]), dict(index=i, pings_before_own_close=own_close_at)))
            else:
                v.append(("C18:%s:ping:pong-missing" % side, "ping %d of %d (%d payload bytes) was not answered (synced=%s eof=%s)"
                          % (i, len(exp_pongs), len(exp_pongs[i]), ob["synced"], ob["eof"]), dict(index=i)))
        else:
            v.append(("C18:%s:ping:unsolicited-pong" % side, "%d pong(s) more than pings were sent" % (len(got_pongs) - i), dict(index=i)))
    closes = [f for f in frames if f.opcode == g.OP_CLOSE]
    if st.kind == "a" and (not closes or closes[0].payload != g.APP_CLOSE_PAYLOAD):
        v.append(("C18:%s:close:application-close-frame-not-first" % side, "the application's sendClose(1000,'bye') is not the first close frame on the wire (%s)"
                  % ([c.payload[:8].hex() for c in closes[:2]] or "no close frame at all"), {}))
    if e.close is not None and e.first_bad is None:
        if not closes:
            v.append(("C18:%s:close:no-close-reply" % side, "the peer's close frame was not answered with a close frame (synced=%s eof=%s)" % (ob["synced"], ob["eof"]), {}))
        rep = ob["closes"]
        want = [e.close[0], e.close[1].hex()]
        if not rep:
            v.append(("C18:%s:close:not-reported" % side, "the peer's close frame (code %d) was not reported to the close callback" % e.close[0], {}))
        elif rep[0] != want:
            v.append(("C18:%s:close:reported-code-or-reason-mismatch" % side, "close reported as %s, sent as %s" % (rep[0], want), {}))
        if closes:
            at = frames.index(closes[0])
            late = [f for f in frames[at + 1:] if f.opcode in (g.OP_TEXT, g.OP_BIN, g.OP_CONT)]
            if late:
                v.append(("C18:%s:data-after-close-frame:reassembly" % side, "a data frame follows the endpoint's close frame on the wire", {}))
    elif e.close is None and e.first_bad is None and closes:
        code, reason = g.parse_close(closes[0].payload)
        v.append(("C18:%s:close:valid-stream-rejected" % side, "the endpoint sent a close frame (code %d %r) although every frame of the stream is valid" % (code, reason[:40]), {}))
    return v


def _wrap_length_in(wire):
    """does the byte string contain a 64-bit length field in the wrap range [2^64-16, 2^64-1]?"""
    i = wire.find(b"\xff" * 7)
    while i >= 1:
        if i + 7 < len(wire) and wire[i + 7] >= 0xF0 and (wire[i - 1] & 0x7F) == 127:
            return True
        i = wire.find(b"\xff" * 7, i + 1)
    return False


def judge_hostile(st, ob, mode, rec):
    side = "server" if st.side == "s" else "client"
    cls = st.hclass
    if st.kind == "m" and _wrap_length_in(st.wire):
        cls = "len-2^64-k"      # the mutation produced a length in the wrap range: that is the failing input class
    v = []
    thrown = ob.get("thrown") or []
    if ob.get("exc"):
        v.append(("C18:%s:%s:exception" % (side, cls), "exception escaped the data path (caught at the harness frame that stands for the I/O thread): %s; input: %s" % (ob["exc"], st.note), {}))
    elif (ob.get("dead") or rec.get("dead")) and mode == "server-socket":
        v.append(("C18:%s:%s:exception" % (side, cls), "the server stopped answering on every connection after this input (fresh upgrade gets no 101); exceptions thrown meanwhile: %s; input: %s"
                  % (thrown, st.note), {}))
    elif thrown and not ob["synced"] and mode == "client-socket" and any("length_error" in t or "bad_alloc" in t for t in thrown):
        v.append(("C18:%s:%s:exception" % (side, cls), "%s thrown on the client's I/O thread and the client went deaf (no reply to the following ping, state %s); input: %s"
                  % (thrown, ob.get("state"), st.note), {}))
    limit = 2 * max(st.cfgmax if side == "server" else 0, ob["fed"]) + MIB
    if ob["max_alloc"] > limit:
        v.append(("C18:%s:%s:over-allocation" % (side, cls), "single allocation of %d bytes with %d bytes received and configured maximum %s (bound 2 x max + 1 MiB = %d); input: %s"
                  % (ob["max_alloc"], ob["fed"], st.cfgmax if side == "server" else "none", limit, st.note), {}))
    if st.kind == "m":
        return v
    if ob.get("harness"):
        return v
    # valid frames in front of the hostile bytes must have been delivered
    exp = [_mrec(t, p) for t, p in st.expect.msgs]
    if exp and ob["msgs"][:len(exp)] != exp and not v:
        v.append(("C18:%s:%s:valid-prefix-lost" % (side, cls), "the valid message in front of the hostile bytes was not delivered", dict(delivered=ob["msgs"][:2])))
    frames, rest, err = endpoint_frames(st, ob, mode)
    closed = any(f.opcode == g.OP_CLOSE for f in frames) or ob["eof"] or ob["errs"] > 0
    answered = any(f.opcode == g.OP_PONG and f.payload == b"vf-sentinel-h" for f in frames)
    if side == "server" and st.cfgmax == g.SMALL_MAX and cls in ("declared-length-beyond-max", "fragments-beyond-max", "len-2^64-1", "len-2^64-k") and (st.flood or cls == "fragments-beyond-max") and mode == "server-inproc":
        bound = 4 * st.cfgmax + 128 * KIB
        if ob["peak"] > bound and not ob.get("exc"):
            v.append(("C18:%s:%s:buffers-unbounded" % (side, cls),
                      "live heap grew by %d bytes (retained after the last call: %d) while %d bytes arrived in 4096-byte reads with the maximum configured to %d (bound 4 x max + 128 KiB = %d); rejected=%s; input: %s"
                      % (ob["peak"], ob["end_live"], ob["fed"], st.cfgmax, bound, closed, st.note), {}))
    elif cls == "rsv-bits" and not closed and not answered:
        pass    # counted by the caller: frames with RSV bits are swallowed together with the rest of the read (robustness only)
    elif cls in STUCK_CLASSES and not closed and not answered and not v and (not st.flood or ob["end_live"] >= 0.9 * st.flood):
        v.append(("C18:%s:%s:stuck-incomplete" % (side, cls),
                  "bytes that can never become a valid frame are neither rejected (no close frame, no error, connection open) nor skipped: the following ping is never answered and every later byte is only buffered; input: %s" % st.note,
                  dict(retained=ob["end_live"], fed=ob["fed"])))
    return v


class Judge:
    def __init__(self, ctx):
        self.ctx = ctx

    def case(self, st, rec, mode, flavor):
        """-> list of (key, what, detail) for this case record."""
        out = []
        obs_list = []
        if mode == "client-socket":
            obs_list = [(s["seg"], s["obs"]) for s in rec["segs"]]
        else:
            obs_list = [("ref", rec["ref"])] + [(d["seg"], d["obs"]) for d in rec["diffs"]]
        per_seg = []
        for seg, ob in obs_list:
            if ob.get("harness") and not ob.get("dead"):
                per_seg.append((seg, ob, [("__harness__", ob["harness"], {})]))
                continue
            vs = judge_valid(st, ob, mode) if st.kind in ("v", "u", "t", "a") else judge_hostile(st, ob, mode, rec)
            per_seg.append((seg, ob, vs))
        seen = set()
        for seg, ob, vs in per_seg:
            for key, what, det in vs:
                if key in seen:
                    continue
                seen.add(key)
                d = dict(stream=st.id, mode=mode, flavor=flavor, kind=st.kind, hclass=st.hclass, note=st.note, seg=seg, seed=self.ctx.seed, tier=self.ctx.tier,
                         wire_len=len(st.wire), wire_head=st.wire[:64].hex(), frames=[repr(f) for f in st.frames[:16]], synced=ob.get("synced"),
                         observed=dict(msgs=ob.get("msgs", [])[:6], closes=ob.get("closes"), errs=ob.get("errs"), err=ob.get("err"), wire=ob.get("wire", "")[:160],
                                       eof=ob.get("eof"), exc=ob.get("exc"), thrown=ob.get("thrown"), max_alloc=ob.get("max_alloc"), peak=ob.get("peak"), state=ob.get("state")))
                d.update(det)
                out.append((key, what, d))
        # segmentation dependence (valid streams): same stream, different observable behaviour
        if st.kind in ("v", "u", "t", "a"):
            side = "server" if st.side == "s" else "client"
            differs = False
            if mode == "client-socket":
                canon = set(json.dumps([ob["msgs"], ob["closes"]]) for seg, ob, vs in per_seg if not ob.get("harness"))
                differs = len(canon) > 1
            else:
                differs = rec["ndiff"] > 0
            if differs:
                self.ctx.obs("cases_with_segmentation_dependent_behaviour")
                if not [k for k in seen if k != "__harness__"]:
                    segs = [seg for seg, ob, vs in per_seg][1:3]
                    out.append(("C18:%s:cut-dependence" % side, "the same valid stream produced different deliveries / replies under different segmentations (%s of %s differ, e.g. %s)"
                                % (rec.get("ndiff", "?"), rec["nseg"], segs),
                                dict(stream=st.id, mode=mode, flavor=flavor, seed=self.ctx.seed, tier=self.ctx.tier, ref=per_seg[0][1].get("msgs", [])[:6],
                                     other=[(seg, ob.get("msgs", [])[:6], ob.get("wire", "")[:120]) for seg, ob, vs in per_seg[1:3]])))
        elif st.kind == "h" and mode != "client-socket" and rec["ndiff"] > 0:
            self.ctx.obs("hostile_cases_with_segmentation_dependent_handling")
        return out


# ------------------------------------------------------------------------------------------------
# frame level

def write_frame_cases(path, corp):
    with open(path, "w") as fh:
        for fid, f in corp["frame_specs"]:
            fh.write("\t".join(["S", fid, "1" if f.fin else "0", str(f.opcode), f.mask.hex() if f.mask is not None else "-", f.payload.hex()]) + "\n")
            fh.write("\t".join(["P", fid, g.encode(f).hex()]) + "\n")
        for fid, hclass, note, b in corp["frame_hostile"]:
            fh.write("\t".join(["H", fid, hclass, b.hex()]) + "\n")


def _lenform(n):
    return "7bit" if n <= 125 else "16bit" if n <= 0xFFFF else "64bit"


def judge_frames(ctx, rr, corp, flavor):
    specs = dict(corp["frame_specs"])
    hostile = {fid: (hclass, note, b) for fid, hclass, note, b in corp["frame_hostile"]}
    nfs = nfp = nfh = 0
    for r in rr.records:
        t = r.get("t")
        if t in ("fs", "fp"):
            f = specs.get(r["id"])
            if f is None:
                continue
            wire = g.encode(f)
            cls = "%s:len-%s:%s" % ("control" if f.is_control() else "data", _lenform(len(f.payload)), "masked" if f.mask is not None else "unmasked")
            det = dict(id=r["id"], frame=repr(f), flavor=flavor, seed=ctx.seed, record={k: v for k, v in r.items() if k != "t"}, reference_head=wire[:20].hex())
            if t == "fs":
                nfs += 1
                if r.get("status") == 2 and "serialize" in (r.get("exc") or ""):
                    ctx.violation("C18:frame:%s:serialize-exception" % cls, "serialize threw: %s" % r.get("exc"), det)
                    continue
                if r.get("wire_sha") != g.sha1(wire):
                    ctx.violation("C18:frame:%s:serialized-bytes-differ-from-reference" % cls,
                                  "serialize() produced %s bytes starting %s; the reference encoder produces %d bytes starting %s"
                                  % (r.get("wire_len"), r.get("head"), len(wire), wire[:20].hex()), det)
            else:
                nfp += 1
                if r.get("status") == 1 and r.get("reser_sha") != g.sha1(wire):
                    ctx.violation("C18:frame:%s:reserialized-bytes-differ" % cls, "serialize(parse(bytes)) != bytes for a frame produced by the reference encoder", det)
            if r.get("status") != 1:
                ctx.violation("C18:frame:%s:%s" % (cls, "roundtrip-exception" if r.get("status") == 2 else "complete-frame-reported-incomplete"),
                              "parse of a complete valid frame %s" % ("threw %s" % r.get("exc") if r.get("status") == 2 else "returned incomplete"), det)
                continue
            p = r["parsed"]
            diff = []
            if bool(p["fin"]) != f.fin: diff.append("fin")
            if p["op"] != f.opcode: diff.append("opcode")
            if bool(p["masked"]) != (f.mask is not None): diff.append("masked")
            if f.mask is not None and p["key"] != f.mask.hex(): diff.append("maskKey")
            if p["plen"] != len(f.payload): diff.append("payload-length(%d)" % p["plen"])
            elif p["psha"] != g.sha1(f.payload): diff.append("payload-bytes")
            if diff:
                ctx.violation("C18:frame:%s:roundtrip-mismatch" % cls, "parsed frame differs from the frame that was encoded: %s" % ", ".join(diff), det)
            if p["consumed"] != len(wire):
                ctx.violation("C18:frame:%s:consumed-mismatch" % cls, "parse consumed %d bytes of a %d-byte frame" % (p["consumed"], len(wire)), det)
        elif t == "fh":
            h = hostile.get(r["id"])
            if h is None:
                continue
            nfh += 1
            hclass, note, b = h
            det = dict(id=r["id"], hclass=hclass, note=note, bytes=b[:24].hex(), avail=len(b), flavor=flavor, seed=ctx.seed, record={k: v for k, v in r.items() if k != "t"})
            ctx.case(sig="frame-hostile|" + hclass)
            if r["status"] == 2:
                ctx.violation("C18:frame:%s:exception" % hclass, "WebSocketFrame::parse threw %s on %d input bytes (%s), prefix length %s" % (r["exc"], len(b), note, r.get("exc_at")), det)
            try:
                ref = g.decode_one(b, 0)
                ref_complete = ref is not None
            except g.WsError:
                ref_complete = None      # never valid
            if r["status"] == 1 and r["plen"] > len(b):
                ctx.violation("C18:frame:%s:complete-beyond-input" % hclass, "parse reported a complete frame with a %d-byte payload from %d input bytes" % (r["plen"], len(b)), det)
            if r["max_alloc"] > len(b) + 64 * KIB:
                ctx.violation("C18:frame:%s:over-allocation" % hclass, "parse allocated %d bytes in one piece with %d bytes of input (%s)" % (r["max_alloc"], len(b), note), det)
            if ref_complete is False and r["status"] == 1 and hclass not in ("rsv-bits",):
                ctx.violation("C18:frame:%s:incomplete-frame-reported-complete" % hclass, "the reference codec needs more bytes, parse reported a complete frame", det)
    ctx.obs("frame:reference_serialize_checks_judged", nfs)
    ctx.obs("frame:reference_parse_checks_judged", nfp)
    ctx.obs("frame:hostile_headers_judged", nfh)


# ------------------------------------------------------------------------------------------------
# close races: no data frame behind the endpoint's close frame

CLOSE_OWED = {"server:peer-close", "server:app-sendClose", "client:peer-close", "client:app-sendClose"}
# client:app-disconnect: disconnect() documents its close frame as best effort (enqueue, then close(sid)) -> observation only


def classify_no_close(r):
    """a capture without a close frame of the endpoint -> ("violation", symptom, text) | ("inconclusive", text)
       * the capture ended by EOF: the connection is finished, nothing more can arrive: the close frame
         was never put on the wire (logical, not timing)                                   -> violation
       * connection still open, the endpoint answered the liveness probe sent after the generous wait
         (its write queue is FIFO: everything queued before the pong has been written)     -> violation
       * connection still open and nothing came back, not even the probe's pong            -> inconclusive
         (starved machine or stuck endpoint: a wall-clock bound decides nothing)"""
    kind = r["kind"]
    if r.get("ended") == "eof" or r.get("probe") == "eof":
        return ("violation", "no-close-frame-before-eof",
                "the connection ended (EOF) and no close frame of the %s is on the wire (%d bytes captured): the close frame owed for '%s' was never written" % (kind.split(":")[0], len(r["wire"]) // 2, kind))
    if r.get("probe") == "pong":
        return ("violation", "close-frame-never-sent",
                "connection open, the %s answered a ping sent after every sender had returned (so its write queue was flushed up to the pong), but no close frame is on the wire" % kind.split(":")[0])
    return ("inconclusive", "no close frame captured; the capture ended by the watchdog (ended=%s probe=%s) with the connection still open and no reply to the liveness probe" % (r.get("ended"), r.get("probe")))


def judge_race(ctx, r, flavor, final=False):
    """-> None when the scenario is settled, else a pending verdict dict that run() resolves with ONE
    isolated re-run under generous bounds (final=True judges that re-run)."""
    kind = r["kind"]
    side, origin = kind.split(":")
    if not final:
        ctx.obs("race:%s:scenarios" % kind)
    if r.get("harness"):
        if final:
            ctx.inconcl("closerace %s scenario %s: %s (also when re-run in isolation)" % (kind, r["i"], r["harness"]))
            return None
        return dict(r=r, flavor=flavor, cls=("inconclusive", r["harness"]))
    wire = bytes.fromhex(r["wire"])
    frames, rest, err = g.decode_all(wire)
    ctx.case(sig="race|%s|%s|%s" % (kind, min(len(frames) // 100, 8), r["calls_after_trigger"] > 0))
    det = dict(scenario=r["i"], kind=kind, flavor=flavor, seed=ctx.seed, calls=r["calls"], calls_after_trigger=r["calls_after_trigger"], frames=len(frames), wire_len=len(wire),
               ended=r.get("ended"), probe=r.get("probe"), isolated_rerun=final)
    if err:
        ctx.violation("C18:%s:wire:malformed-frame-sent" % side, "close race %s: the endpoint wrote bytes the reference codec rejects (%s) after %d well-formed frames" % (kind, err, len(frames)),
                      dict(det, around=rest[:64].hex()))
        return None
    if r["calls_after_trigger"] > 0 and not final:
        ctx.obs("race:%s:scenarios_with_sends_attempted_after_the_close_was_initiated" % kind)
    if not final:
        ctx.obs("race:data_frames_on_wire", sum(1 for f in frames if f.opcode in (g.OP_TEXT, g.OP_BIN)))
    at = next((i for i, f in enumerate(frames) if f.opcode == g.OP_CLOSE), None)
    if at is None:
        if kind not in CLOSE_OWED:
            ctx.obs("race:%s:no_close_frame_on_wire" % kind)
            return None
        cls = classify_no_close(r)
        if not final:
            ctx.obs("race:%s:no_close_frame_in_first_capture" % kind)
            return dict(r=r, flavor=flavor, cls=cls)
        if cls[0] == "violation":
            ctx.violation("C18:%s:close:%s:%s" % (side, cls[1], origin), "close race %s scenario %s, reproduced by an isolated re-run with generous bounds: %s" % (kind, r["i"], cls[2]),
                          dict(det, wire_tail=wire[-48:].hex()))
        else:
            ctx.inconcl("closerace %s scenario %s: %s (also when re-run in isolation with generous bounds)" % (kind, r["i"], cls[1]))
        return None
    ctx.obs("race:%s:close_frame_seen" % kind)
    late = [f for f in frames[at + 1:] if f.opcode in (g.OP_TEXT, g.OP_BIN, g.OP_CONT)]
    if late:
        ctx.obs("race:%s:data_after_close" % kind)
        ctx.violation("C18:%s:data-after-close-frame:%s" % (side, origin),
                      "%d data frame(s) on the wire behind the %s's close frame (frame %d of %d); first late payload %r; close initiated by: %s"
                      % (len(late), side, at, len(frames), late[0].payload[:24], origin), dict(det, close_index=at, late=len(late)))
    return None


def resolve_races(ctx, B, pending):
    """every scenario whose first capture showed no (owed) close frame, or that hit a harness error, is
    re-run ONCE, alone, with generous bounds; only what the re-run shows is reported."""
    if not pending:
        return
    def one(p):
        i, fl = p["r"]["i"], p["flavor"]
        out = os.path.join(ctx.tmp, "race-iso-%s-%d.jsonl" % (fl, i))
        return vf.run_harness(B[fl], ["--mode", "closerace", "--seed", ctx.seed, "--from", i, "--count", 1, "--close-wait-ms", 30000, "--probe-wait-ms", 30000,
                                      "--quiet-ms", 300, "--out", out], timeout=600, out_file=out)
    rrs = vf.run_many(ctx, [lambda p=p: one(p) for p in pending], workers=4)   # few at a time: these are the cases that starved
    for p, rr in zip(pending, rrs):
        ctx.obs("race:scenarios_rerun_in_isolation")
        ctx.ingest(rr, where="(closerace isolated re-run, %s)" % p["flavor"])
        rec = next((x for x in rr.records if x.get("t") == "race"), None)
        if rec is None:
            ctx.inconcl("closerace %s scenario %s: %s; the isolated re-run produced no record (rc=%s timed_out=%s)"
                        % (p["r"]["kind"], p["r"]["i"], p["cls"][-1], rr.rc, rr.timed_out))
            continue
        before = len(ctx.violations), len(ctx.inconclusive)
        judge_race(ctx, rec, p["flavor"], final=True)
        if (len(ctx.violations), len(ctx.inconclusive)) == before:
            ctx.obs("race:first_capture_without_close_frame_not_reproduced")


# ------------------------------------------------------------------------------------------------
# optional libFuzzer runs (thorough)

def fuzz_run(ctx, binary, target, runs, corp):
    import re
    cdir = os.path.join(ctx.tmp, "fz-" + target)
    os.makedirs(cdir, exist_ok=True)
    seeds = []
    for fid, f in corp["frame_specs"][:150]:
        if len(f.payload) <= 300:
            seeds.append(g.encode(f))
    for fid, hclass, note, b in corp["frame_hostile"][:120]:
        seeds.append(b)
    if target == "server":
        seeds = [bytes([i % 251]) + s.wire for i, s in enumerate(corp["sv"][:150]) if len(s.wire) <= 2000] + \
                [bytes([7]) + s.wire[:3000] for s in corp["sh"]]
    for i, b in enumerate(seeds):
        with open(os.path.join(cdir, "seed%04d" % i), "wb") as fh:
            fh.write(b)
    rr = vf.run_harness(binary, ["-runs=%d" % runs, "-max_len=4096", "-seed=%d" % ctx.seed, "-rss_limit_mb=8000", "-timeout=60", "-detect_leaks=0",
                                 "-print_final_stats=1", "-artifact_prefix=" + cdir + "/art-", cdir],
                        timeout=3000, env_extra={"C18_FUZZ_TARGET": target}, parse_stdout=False)
    return rr


def fuzz_judge(ctx, rr, target):
    import re
    ctx.ingest(rr, where="(libFuzzer %s)" % target)
    m = re.search(r"stat::number_of_executed_units:\s*(\d+)", rr.err) or re.search(r"Done (\d+) runs", rr.err)
    n = int(m.group(1)) if m else 0
    ctx.obs("fuzz:%s:executions" % target, n)
    ctx.case(sig="fuzz|" + target, n=n)
    if "C18-FUZZ-KNOWN len-wrap" in rr.err:
        ctx.violation("C18:%s:len-2^64-k:exception" % target, "libFuzzer (%s target): std::length_error from a 64-bit length in the wrap range (counted, run continued)" % target,
                      dict(target=target, seed=ctx.seed))
    for line in rr.err.splitlines():
        if line.startswith("C18-FUZZ-VIOLATION"):
            what = line.split()[1]
            ctx.violation("C18:fuzz:" + what, "libFuzzer (%s target): %s" % (target, line[:300]), dict(target=target, seed=ctx.seed, stderr=rr.err[-2500:]))
    if rr.timed_out:
        ctx.inconcl("libFuzzer %s target: process watchdog fired after %d executions" % (target, n))
    elif rr.rc != 0 and "C18-FUZZ-VIOLATION" not in rr.err and not rr.san_reports:
        ctx.violation("C18:fuzz:%s:process-died" % target, "libFuzzer (%s target) ended with rc=%s: %s" % (target, rr.rc, rr.err[-400:]), dict(target=target, seed=ctx.seed))
    return rr


def _interleave(*lists):
    out = []
    for l in lists:
        out.extend(l)
    return out


def plan(ctx, bins, corp):
    thorough = ctx.tier == "thorough"
    shards = []
    hostile_extra = ["--wait-ms", 1500, "--short-wait-ms", 300]
    for fl in bins:
        scale = {"plain": 1.0, "asan": 0.34 if not thorough else 0.3, "tsan": 0.1}[fl]
        slow = 1 if fl == "plain" else 3
        valid_extra = ["--wait-ms", 6000 * slow, "--short-wait-ms", 1000]
        sv = corp["sv"][: max(40, int(len(corp["sv"]) * scale))] + [s for s in corp["sv"][int(len(corp["sv"]) * scale):] if "directed" in s.features]
        sm = corp["sm"][: max(30, int(len(corp["sm"]) * scale))]
        cv = corp["cv"][: max(30, int(len(corp["cv"]) * scale))] + [s for s in corp["cv"][int(len(corp["cv"]) * scale):] if "directed" in s.features][:8]
        cm = corp["cm"][: max(15, int(len(corp["cm"]) * scale))]
        # server, in process: exact segmentations (all single cuts for small streams)
        sa = corp["sa"][: max(30, int(len(corp["sa"]) * scale))]
        ca = corp["ca"][: max(20, int(len(corp["ca"]) * scale))]
        shards += split_shards(fl, "server-inproc", sv, "sv", 10 if fl == "plain" else 6, valid_extra)
        shards += split_shards(fl, "server-inproc", sa, "sa", 2, valid_extra)
        shards += split_shards(fl, "server-inproc", corp["sh"] + sm, "shm", 4, ["--wait-ms", 4000 * slow, "--short-wait-ms", 1000])
        # server over loopback
        rng = random.Random(ctx.seed * 77 + len(fl))
        nsock = max(24, int((600 if thorough else 60) * scale))
        sock = [g.copy_for(s, g.seg_socket, rng, False) for s in sv[:nsock] + sa[: max(12, nsock // 3)]]
        shards += split_shards(fl, "server-socket", sock, "ssv", 4 if fl == "plain" else 2, valid_extra)
        seen, sockh = set(), []
        for s in corp["sh"]:
            if thorough and fl == "plain" or s.hclass not in seen:
                seen.add(s.hclass)
                s2 = g.copy_for(s, lambda x: x)
                s2.segspec = "W;R:1"
                sockh.append(s2)
        shards += split_shards(fl, "server-socket", sockh, "ssh", 4 if fl == "plain" else 2, hostile_extra, timeout=600)
        # client over loopback
        shards += split_shards(fl, "client-socket", cv + ca, "cv", 8 if fl == "plain" else 4, valid_extra)
        ch = corp["ch"]
        if fl != "plain" and not thorough:
            seen_c, ch = set(), []
            for s in corp["ch"]:
                if s.hclass not in seen_c:
                    seen_c.add(s.hclass)
                    ch.append(s)
        shards += split_shards(fl, "client-socket", ch + cm, "chm", 10 if fl == "plain" else 6, hostile_extra, timeout=600)
    return shards


def _needs_retry(mode, rec, vs):
    if not vs:
        return False
    if any(k == "__harness__" for k, w, d in vs):
        return True
    if mode == "client-socket":
        return any(not s["obs"]["synced"] for s in rec["segs"])
    if mode == "server-socket":
        return rec["lost"] > 0 or rec.get("dead")
    return rec["lost"] > 0


def run(ctx):
    thorough = ctx.tier == "thorough"
    flavors = ["plain", "asan"] + (["tsan"] if thorough else [])
    race_flavors = ["plain", "tsan"]
    bins = vf.build_many([("c18_ws", f) for f in sorted(set(flavors + race_flavors))])
    B = {f: bins[("c18_ws", f)] for f in set(flavors + race_flavors)}
    corp = corpora(ctx.seed, ctx.tier)
    by_id = {}
    for k in ("sv", "sh", "sm", "cv", "ch", "cm", "sa", "ca"):
        for s in corp[k]:
            by_id[s.id] = s

    # ---- frame level
    fcases = os.path.join(ctx.tmp, "frames.cases")
    write_frame_cases(fcases, corp)
    frame_jobs = []
    n_rand = {"plain": 20000000 if thorough else 200000, "asan": 2000000 if thorough else 40000, "tsan": 0}
    for fl in flavors:
        if not n_rand[fl]:
            continue
        nsh = 16 if fl == "plain" else 8
        per = n_rand[fl] // nsh
        for i in range(nsh):
            frame_jobs.append(("rand", fl, lambda fl=fl, i=i, per=per: vf.run_harness(
                B[fl], ["--mode", "frame", "--seed", ctx.seed, "--from", i * per, "--count", per, "--out", os.path.join(ctx.tmp, "fr-%s-%d.jsonl" % (fl, i))],
                timeout=1800, out_file=os.path.join(ctx.tmp, "fr-%s-%d.jsonl" % (fl, i)))))
        frame_jobs.append(("cases", fl, lambda fl=fl: vf.run_harness(
            B[fl], ["--mode", "frame", "--seed", ctx.seed, "--cases", fcases, "--out", os.path.join(ctx.tmp, "fc-%s.jsonl" % fl)],
            timeout=1800, out_file=os.path.join(ctx.tmp, "fc-%s.jsonl" % fl))))

    # ---- endpoint level
    shards = plan(ctx, {f: B[f] for f in flavors}, corp)

    # ---- close races
    n_race = {"plain": 4000 if thorough else 200, "tsan": 600 if thorough else 60}
    race_jobs = []
    for fl in race_flavors:
        nsh = 8 if fl == "plain" else 4
        per = n_race[fl] // nsh
        for i in range(nsh):
            race_jobs.append((fl, lambda fl=fl, i=i, per=per: vf.run_resumable(
                ctx, B[fl], ["--mode", "closerace", "--seed", ctx.seed], i * per, per, timeout=900, tag="race%d" % i,
                crash_key=lambda rr, k: ("C18:closerace:%s:process-crash" % RACE_KINDS[k % 5], "close-race harness process died (rc=%s) in scenario %d (%s): %r" % (rr.rc, k, RACE_KINDS[k % 5], rr.err[-300:])))))

    fuzz_jobs = []
    if thorough:
        try:
            fz = vf.build("c18_wsfuzz", "fuzz")
            fuzz_jobs = [lambda: ("fuzz", "frame", "fuzz", fuzz_run(ctx, fz, "frame", 20000000, corp)),
                         lambda: ("fuzz", "server", "fuzz", fuzz_run(ctx, fz, "server", 1500000, corp))]
        except vf.HarnessFailure as e:
            ctx.extra.setdefault("skipped", []).append("libFuzzer targets: optional clang build failed: %s" % str(e)[-300:])

    # ---- peers that vanish in the middle of a frame (server keeps no bytes of dead sessions)
    ab_out = os.path.join(ctx.tmp, "abandon.jsonl")
    fuzz_jobs.append(lambda: ("abandon", None, "plain", vf.run_harness(
        B["plain"], ["--mode", "abandon", "--conns", 120 if thorough else 40, "--out", ab_out], timeout=600, out_file=ab_out)))

    jobs = [lambda j=j: ("frame", j[0], j[1], j[2]()) for j in frame_jobs]
    jobs += [lambda sh=sh: ("shard", None, sh.flavor, run_shard(ctx, B[sh.flavor], sh)) for sh in shards]
    jobs += [lambda j=j: ("race", None, j[0], j[1]()) for j in race_jobs]
    # long jobs first
    import time as _t
    _t0 = _t.time()
    results = vf.run_many(ctx, fuzz_jobs + jobs[len(frame_jobs):] + jobs[:len(frame_jobs)])
    if os.environ.get("C18_TIMING"):
        print("[c18-timing] phase1 %.1fs" % (_t.time() - _t0), flush=True)
        for kind, sub, fl, res in results:
            if kind == "frame":
                print("[c18-timing] frame-%s-%s %.1fs" % (sub, fl, res.wall), flush=True)
            elif kind == "race":
                print("[c18-timing] race-%s %.1fs" % (fl, sum(r.wall for r in res)), flush=True)
            elif kind in ("fuzz", "abandon"):
                print("[c18-timing] %s-%s %.1fs" % (kind, sub, res.wall), flush=True)

    judge = Judge(ctx)
    done_shards = []
    race_pending = []
    for kind, sub, fl, res in results:
        if kind == "fuzz":
            fuzz_judge(ctx, res, sub)
            continue
        if kind == "abandon":
            ctx.ingest(res, where="(abandon, plain)")
            rec = next((r for r in res.records if r.get("t") == "abandon"), None)
            if rec is None or res.rc != 0:
                ctx.inconcl("abandon mode: rc=%s timed_out=%s %s" % (res.rc, res.timed_out, res.err[-300:]))
                continue
            left = rec["conns"] * rec["partial"]
            bound = max(256 * KIB, left // 4)
            ctx.case(sig="abandon|%d" % rec["conns"], n=rec["conns"])
            ctx.obs_max("abandon:live_bytes_retained_after_all_peers_left", max(0, rec["live_delta"]))
            if rec["conns"] >= 10 and rec["live_delta"] > bound:
                ctx.violation("C18:server:abandoned-connection:buffer-retained",
                              "%d peers each sent the first %d bytes of a %d-byte frame and dropped the TCP connection; %.0f s after the last one left %d bytes are still allocated "
                              "(bound max(256 KiB, a quarter of the %d bytes they sent) = %d): the per-session receive buffers of dead sessions are never released"
                              % (rec["conns"], rec["partial"], rec["declared"], 4, rec["live_delta"], left, bound), dict(record=rec, seed=ctx.seed, flavor="plain"))
            continue
        if kind == "frame":
            ctx.ingest(res, where="(frame, %s)" % fl)
            if res.timed_out or res.rc not in (0,):
                if not res.san_reports:
                    ctx.inconcl("frame mode (%s, %s): rc=%s timed_out=%s %s" % (sub, fl, res.rc, res.timed_out, res.err[-300:]))
            if sub == "cases":
                judge_frames(ctx, res, corp, fl)
        elif kind == "race":
            for rr in res:
                ctx.ingest(rr, where="(closerace, %s)" % fl)
                if getattr(rr, "bad", None):
                    ctx.inconcl(rr.bad)
                for r in rr.records:
                    if r.get("t") == "race":
                        p = judge_race(ctx, r, fl)
                        if p is not None:
                            race_pending.append(p)
        else:
            done_shards.append(res)
    resolve_races(ctx, B, race_pending)

    # ---- judge endpoint cases; watchdog-dependent verdicts are re-run once in isolation
    retry = []
    verdicts = []      # (sh, st, rec, vs)
    for sh in done_shards:
        for rr in sh.rrs:
            ctx.ingest(rr, where="(%s, %s)" % (sh.mode, sh.flavor))
        for ev in sh.events:
            if ev["kind"] == "harness":
                ctx.inconcl("%s %s: harness process ended abnormally: %s" % (sh.mode, sh.flavor, ev["detail"]))
            else:
                st = next(s for s in sh.streams if s.id == ev["id"])
                retry.append((sh, st, ev, None))
        for st in sh.streams:
            rec = sh.records.get(st.id)
            if rec is None:
                if not any(ev["id"] == st.id for ev in sh.events):
                    ctx.inconcl("%s %s: no result for case %s" % (sh.mode, sh.flavor, st.id))
                continue
            vs = judge.case(st, rec, sh.mode, sh.flavor)
            if _needs_retry(sh.mode, rec, vs):
                retry.append((sh, st, None, vs))
            else:
                verdicts.append((sh, st, rec, vs))

    def isolated(sh, st):
        iso = Shard(sh.flavor, sh.mode, [st], "iso-%s-%s-%s" % (sh.mode, sh.flavor, st.id), ["--wait-ms", 5000, "--short-wait-ms", 1500], 600)
        return run_shard(ctx, B[sh.flavor], iso)

    # one representative per (mode, flavor, key set) is re-run; the other members of the group show the
    # same keys and are accepted / dropped with it. Crash / watchdog events are always re-run.
    groups = {}
    for item in retry:
        sh, st, ev, vs = item
        gk = (sh.mode, sh.flavor, st.id) if ev is not None else (sh.mode, sh.flavor, frozenset(k for k, w, d in vs))
        groups.setdefault(gk, []).append(item)
    reps = [items[0] for items in groups.values()]
    _t1 = _t.time()
    isos = vf.run_many(ctx, [lambda a=a, b=b: isolated(a, b) for a, b, ev, vs in reps], workers=vf.NCPU)
    if os.environ.get("C18_TIMING"):
        print("[c18-timing] phase2 (%d isolated re-runs) %.1fs" % (len(reps), _t.time() - _t1), flush=True)
    for (gk, items), iso in zip(groups.items(), isos):
        sh, st, ev, vs = items[0]
        ctx.obs("watchdog_dependent_verdict_groups_rerun_in_isolation")
        side = "server" if st.side == "s" else "client"
        cls = st.hclass or "valid-stream"
        rec2 = iso.records.get(st.id)
        if ev is not None:
            again = [e for e in iso.events if e["kind"] == ev["kind"]]
            if again:
                what = ("the process died while handling the stream (rc=%s): %s" % (again[0]["detail"].get("rc"), again[0]["detail"].get("stderr", "")[-300:])
                        if ev["kind"] == "crash" else "the process watchdog fired twice on this case")
                ctx.violation("C18:%s:%s:%s" % (side, cls, "process-crash" if ev["kind"] == "crash" else "call-never-returns"), "%s: %s" % (sh.mode, what),
                              dict(stream=st.id, mode=sh.mode, flavor=sh.flavor, seed=ctx.seed, tier=ctx.tier, note=st.note, first=ev["detail"], again=again[0]["detail"]))
                continue
            ctx.obs("crash_or_watchdog_events_not_reproduced")
            if rec2 is None:
                ctx.inconcl("%s %s case %s: %s once, no result in isolation either" % (sh.mode, sh.flavor, st.id, ev["kind"]))
                continue
            verdicts.append((sh, st, rec2, judge.case(st, rec2, sh.mode, sh.flavor)))
            continue
        if rec2 is None:
            ctx.inconcl("%s %s case %s: no result when re-run in isolation (%s)" % (sh.mode, sh.flavor, st.id, [e["kind"] for e in iso.events]))
            continue
        vs2 = judge.case(st, rec2, sh.mode, sh.flavor)
        keys2 = set(k for k, w, d in vs2)
        if "__harness__" in keys2:
            ctx.inconcl("%s %s case %s: %s" % (sh.mode, sh.flavor, st.id, [w for k, w, d in vs2 if k == "__harness__"][0]))
        for sh_i, st_i, ev_i, vs_i in items:
            keep = [(k, w, dict(d, reproduced_in_isolation=st.id)) for k, w, d in vs_i if k in keys2 and k != "__harness__"]
            dropped = set(k for k, w, d in vs_i) - keys2 - {"__harness__"}
            if dropped:
                ctx.obs("watchdog_dependent_verdicts_not_reproduced", len(dropped))
            verdicts.append((sh_i, st_i, sh_i.records[st_i.id], keep))

    nsample = 0
    for sh, st, rec, vs in verdicts:
        smp = None
        if nsample < 5 and ((nsample % 2 == 0) == (st.kind != "h")):
            smp = dict(st.sample(), mode=sh.mode, flavor=sh.flavor, observed=dict(nseg=rec["nseg"], ndiff=rec.get("ndiff"), lost=rec["lost"]))
            nsample += 1
        ctx.case(sig="%s|%s" % (sh.mode, st.sig()), sample=smp, n=rec["nseg"])
        ctx.obs("%s:segmentations_judged" % sh.mode, rec["nseg"])
        ctx.obs("%s:%s_cases_judged" % (sh.mode, {"v": "valid", "u": "invalid_utf8", "t": "trailing_after_close", "h": "hostile", "m": "mutated", "a": "app_close"}[st.kind]))
        if "A" in st.segspec.split(";") and sh.mode == "server-inproc":
            ctx.obs("streams_with_every_single_cut_point")
        if rec.get("capped"):
            ctx.obs("cases_with_segmentation_sweep_cut_short")
        for f in ("ping-in-frag", "pong-in-frag", "utf8-seq-split-across-fragments", "close-inside-fragmented-message", "empty-fragment"):
            if f in st.features:
                ctx.obs("streams_with_" + f.replace("-", "_"))
        for f in st.features:
            if isinstance(f, str) and f.startswith("len=") and st.kind != "h":
                ctx.obs("frames_len_" + f[4:].replace(">=", "ge").replace("<", "lt").replace("=", ""))
        if st.expect is not None and st.expect.pongs and st.kind != "h":
            ctx.obs("pings_expected_to_be_answered", len(st.expect.pongs))
        if st.kind == "a":
            ctx.obs("pings_received_after_own_close_expected_to_be_answered", len(st.expect.pongs) - st.pings_before_trigger)
            if "data-received-after-own-close" in st.features:
                ctx.obs("streams_with_data_received_after_own_close")
        for key, what, det in vs:
            if key == "__harness__":
                ctx.inconcl("%s %s case %s: %s" % (sh.mode, sh.flavor, st.id, what))
            else:
                ctx.violation(key, what, det)

    ctx.rule = ("frame level: seeded random frames (6 opcodes x FIN x masked/unmasked x payload 0..70000 incl. 125/126/127/65535/65536) serialized, parsed back, "
                "every truncation parsed; reference-codec cross check of serialize()/parse() bytes; hostile header dictionary (2^64-1, 2^64-k, >=2^63, control "
                "frames with 126/127 length codes or FIN=0, RSV, reserved opcodes, non-minimal lengths, random headers). endpoint level: stream = generated "
                "message list (text/binary, 1-6 fragments incl. empty ones, pings/pongs between fragments and messages, masked/unmasked/mixed, close with/without "
                "code/reason at any position, non-UTF-8 text, data behind the close) or hostile dictionary entry or mutated valid stream; judged per mode "
                "(server-inproc: primed session fed through onUpgradedData; server-socket; client-socket) and per segmentation (whole, every single cut or "
                "structural cuts, seeded multi-cuts, fixed blocks, recv capped at n bytes, seeded random short reads, paced cuts, 101 joined with the stream). "
                "close races: 2-4 threads sendText/sendBinary while peer / sendClose / disconnect initiates the close. "
                "distinct = hash of (mode, side, kind, hostile class, feature set: message type x size bucket, fragment count, frame length buckets, control "
                "frames in/between fragments, mask mode, close form)")
    ctx.assumptions = [
        "the generator's frame list run through the reference receiver model (lib/c18_wsgen.py) is the ground truth; sha1 of payloads stands for equality",
        "frames are only sent after the 101 has been read (server) / after connect() returned (client), except the client 'J' segmentation where the 101 and the stream share one send",
        "in-process server mode: the harness thread stands where the engine's I/O thread stands; a harness-originated sendClose(4999,'vfmark') flushes the capture and is stripped before judging",
        "socket modes: segment boundaries are forced by capping / shortening the endpoint's recv calls (kernel-legal short reads) or paced, not byte-exact; exact cuts are the in-process mode",
        "over-allocation bound: single allocation <= 2 x max(configured maximum, bytes received) + 1 MiB (factor 2 = geometric growth of std::vector)",
        "buffering bound (server, maximum configured to 4096, input delivered in 4096-byte reads): live heap growth <= 4 x maximum + 128 KiB while 512 KiB arrive",
        "WebSocketClient has no configurable maximum: declared lengths that are merely huge are only judged there for exceptions and over-allocation",
        "messages after the first non-UTF-8 text message of a stream, and what follows hostile bytes, are not judged (the endpoint may fail the connection there); but an endpoint that still "
        "delivers messages behind its own 1007 close is still processing input and owes a pong for every ping in front of the last message it delivered",
        "RFC 6455 5.5.2: every ping received before the PEER's close frame is answered with an equal-payload pong, also after the endpoint's own close frame (5.5.1 only forbids data frames)",
        "a verdict that depends on a wall-clock wait (lost sync) is only reported when the same key is reproduced by an isolated re-run with longer waits",
        "close races: a capture without the owed close frame is re-run once alone with 30 s bounds; EOF without a close frame, or a pong for the liveness probe without a close frame, is a violation; "
        "an open connection that returns nothing at all stays inconclusive",
        "RSV bits / extensions: only robustness is judged",
    ]
    ctx.require_obs("frame:roundtrips", "frame:truncations_checked", "frame:len_form_7bit", "frame:len_form_16bit", "frame:len_form_64bit",
                    "frame:reference_serialize_checks_judged", "frame:reference_parse_checks_judged", "frame:hostile_headers_judged",
                    "server-inproc:segmentations_judged", "server-socket:segmentations_judged", "client-socket:segmentations_judged",
                    "server-inproc:valid_cases_judged", "server-inproc:hostile_cases_judged", "server-inproc:mutated_cases_judged",
                    "client-socket:valid_cases_judged", "client-socket:hostile_cases_judged", "streams_with_every_single_cut_point",
                    "streams_with_ping_in_frag", "streams_with_utf8_seq_split_across_fragments", "pings_expected_to_be_answered",
                    "client-socket:recv_calls_shortened_by_shim", "client-socket:stream_joined_with_101",
                    *["race:%s:scenarios_with_sends_attempted_after_the_close_was_initiated" % k for k in RACE_KINDS],
                    "race:server:peer-close:close_frame_seen", "race:server:app-sendClose:close_frame_seen", "race:client:peer-close:close_frame_seen",
                    "abandon:connections_dropped_mid_frame", "server-inproc:app_close_cases_judged", "server-socket:app_close_cases_judged",
                    "client-socket:app_close_cases_judged", "pings_received_after_own_close_expected_to_be_answered")
    ctx.extra["corpora"] = {k: len(v) for k, v in corp.items()}
    ctx.extra["shards"] = len(shards)


def replay(ctx, path):
    """re-run the stream / race scenario named in a replay file (corpora are deterministic in seed + tier)."""
    with open(path) as fh:
        rp = json.load(fh)
    d = rp["first"]["detail"] or {}
    ctx.seed, ctx.tier = d.get("seed", rp.get("seed", ctx.seed)), d.get("tier", rp.get("tier", ctx.tier))
    flavor = d.get("flavor", "plain")
    binary = vf.build("c18_ws", flavor)
    if "scenario" in d:
        for rr in vf.run_resumable(ctx, binary, ["--mode", "closerace", "--seed", ctx.seed], d["scenario"], 1, timeout=300, tag="replay"):
            ctx.ingest(rr, where="(replay closerace)")
            for r in rr.records:
                if r.get("t") == "race":
                    p = judge_race(ctx, r, flavor)
                    resolve_races(ctx, {flavor: binary}, [p] if p else [])
                    print(json.dumps({k: (v if k != "wire" else v[:200]) for k, v in r.items()}, indent=1))
        return
    corp = corpora(ctx.seed, ctx.tier)
    if "stream" not in d:
        fcases = os.path.join(ctx.tmp, "frames.cases")
        write_frame_cases(fcases, corp)
        out = os.path.join(ctx.tmp, "fc.jsonl")
        rr = vf.run_harness(binary, ["--mode", "frame", "--seed", ctx.seed, "--cases", fcases, "--count", 20000, "--out", out], timeout=600, out_file=out)
        ctx.ingest(rr, where="(replay frame)")
        judge_frames(ctx, rr, corp, flavor)
        return
    st = None
    for k in ("sv", "sh", "sm", "cv", "ch", "cm", "sa", "ca"):
        for s in corp[k]:
            if s.id == d["stream"]:
                st = s
    if st is None:
        raise vf.HarnessFailure("stream %s not found in the regenerated corpora" % d["stream"])
    mode = d["mode"]
    if mode == "server-socket":
        st = g.copy_for(st, g.seg_socket, random.Random(ctx.seed), False) if st.kind != "h" else st
        if st.kind == "h":
            st = g.copy_for(st, lambda x: x)
            st.segspec = "W;R:1"
    sh = Shard(flavor, mode, [st], "replay", ["--wait-ms", 8000, "--short-wait-ms", 2500], 600)
    run_shard(ctx, binary, sh)
    judge = Judge(ctx)
    for rr in sh.rrs:
        ctx.ingest(rr, where="(replay %s %s)" % (mode, flavor))
    rec = sh.records.get(st.id)
    for ev in sh.events:
        ctx.violation("C18:%s:%s:process-crash" % ("server" if st.side == "s" else "client", st.hclass or "valid-stream"), "replay: %s" % (ev["detail"],), dict(stream=st.id))
    if rec:
        ctx.case(sig=st.sig(), sample=st.sample(), n=rec["nseg"])
        for key, what, det in judge.case(st, rec, mode, flavor):
            if key != "__harness__":
                ctx.violation(key, what, det)
        print(json.dumps(dict(stream=st.sample(), record=rec), indent=1, default=str)[:6000])
