# C01 — TCP/TLS byte stream: exactly once, in order, no interleave
# Matrix driver for harness/c01_stream.cpp: {plain, TLS} x {edge, level} x {batching} x {1,4,16 senders}
# stream cells (+ rotating secondary coordinates), early-close cells (prefix rule), single-cut sweep.
import json, os
import vf

LEVEL = "exploration"
H = "c01_stream"

CUT_TOTAL = {("tx", 0): 32760, ("rx", 0): 12285, ("tx", 1): 22400, ("rx", 1): 22400}  # must match the harness ("cutspace")


def stream_cells(seed, thorough):
    cells = []
    ci = 0
    for tls in (0, 1):
        for et in (1, 0):
            for batch in (0, 1):
                for threads in (1, 4, 16):
                    r = ci + seed
                    iocap = 0
                    if ci % 8 == 5:
                        iocap = (1, 7, 512)[(r // 8) % 3]
                    big = 20 * 1024 * 1024 if thorough else 200 * 1024
                    if iocap == 1:
                        big = 400 * 1024 if thorough else 40 * 1024
                    elif iocap == 7:
                        big = 2 * 1024 * 1024 if thorough else 100 * 1024
                    c = dict(tls=tls, tlsmax=(13, 12)[(ci // 2 + seed) % 2], et=et, batch=batch, threads=threads,
                             role=("server", "client")[r % 2],
                             sessions=1 if threads == 16 else (1, 2)[(ci // 3 + seed) % 2],
                             dist=r % 3, permille=(300, 0, 1000, 0, 300, 600)[r % 6], iocap=iocap,
                             peerrcvbuf=(8192, 16384, 32768)[(ci // 3 + seed) % 3], sndbuf=4096, rcvbuf=(4096, 8192, 65536)[ci % 3],
                             iochunk=(65536, 16, 1024, 4096, 65536, 16384)[r % 6] if not thorough or r % 6 != 1 else 256,
                             fin=("half", "app", "stop", "half")[r % 4], window=(1 << 20, 65536, 262144)[ci % 3],
                             hssends=(2, 1, 3, 0)[(ci + seed // 2) % 4], bytes=big, rbytes=big // 4,
                             pauses=400 if thorough else 100, mwq=1024, fault="none", cell=ci,
                             cbsend=(1, 0, 1, 1, 0, 1)[r % 6])
                    cells.append(c)
                    ci += 1
    # cells that make send() hit EAGAIN with an empty write queue (tiny payloads, pure kernel back-pressure)
    for j, (tls, et) in enumerate(((0, 1), (0, 0), (1, 1))):
        cells.append(dict(tls=tls, tlsmax=13, et=et, batch=j % 2, threads=4, role=("server", "client")[(j + seed) % 2], sessions=1, dist=1,
                          permille=0, iocap=0, peerrcvbuf=8192, sndbuf=4096, rcvbuf=4096, iochunk=65536, fin="half", window=1 << 20,
                          hssends=2, bytes=(4 * 1024 * 1024 if thorough else 200 * 1024), rbytes=50000, pauses=400 if thorough else 100,
                          mwq=1024, fault="none", cell=ci, cbsend=0))
        ci += 1
    # TLS with a read chunk far below the record size: one SSL_read pulls a whole record off the socket, the rest of the record
    # lives in OpenSSL's buffer with the kernel socket empty (level- and edge-triggered, batching on/off, TLS 1.2/1.3)
    for j, (et, batch, chunk) in enumerate(((0, 0, 1024), (0, 1, 256), (1, 0, 2048), (0, 0, 2048))):
        cells.append(dict(tls=1, tlsmax=(13, 12)[(j + seed) % 2], et=et, batch=batch, threads=(1, 4)[j % 2], role=("server", "client")[(j + seed) % 2],
                          sessions=1, dist=0, permille=(0, 300)[j % 2], iocap=0, peerrcvbuf=16384, sndbuf=4096, rcvbuf=65536, iochunk=chunk,
                          fin=("half", "app")[j % 2], window=262144, hssends=1, bytes=(2 * 1024 * 1024 if thorough else 100 * 1024),
                          rbytes=(2 * 1024 * 1024 if thorough else 200 * 1024), pauses=100, mwq=1024, fault="none", cell=ci, cbsend=0, rwmin=8192))
        ci += 1
    # early-close cells: prefix rule + close reported exactly once
    faults = ("peer-rst", "peer-fin", "app-close", "overflow")
    combos = [(et, batch) for et in (1, 0) for batch in (0, 1)] if thorough else [None]
    for tls in (0, 1):
        for fi, fault in enumerate(faults):
            for k, eb in enumerate(combos):
                r = ci + seed
                et, batch = eb if eb else ((r // 2) % 2, r % 2)
                cells.append(dict(tls=tls, tlsmax=(13, 12)[r % 2], et=et, batch=batch, threads=(2, 4, 1, 8)[r % 4],
                                  role=("server", "client")[(r // 2) % 2], sessions=1, dist=(0, 1, 0, 2)[r % 4], permille=(300, 0, 1000)[r % 3],
                                  iocap=0, peerrcvbuf=(8192, 16384)[r % 2], sndbuf=4096, rcvbuf=4096, iochunk=65536, fin="half",
                                  window=(65536, 262144)[r % 2], hssends=(2, 0)[r % 2],
                                  bytes=(4 * 1024 * 1024 if thorough else 300 * 1024), rbytes=(200000 if thorough else 20000),
                                  pauses=200 if thorough else 60, mwq=8 if fault == "overflow" else 1024, fault=fault, cell=ci,
                                  cbsend=(r // 2) % 2))
                ci += 1
    # overflow with a peer that KEEPS DRAINING: small write-queue limits x peer read pacing (slow-but-steady, bursty, fast) x
    # 1/4/16 flooding senders x epoll mode / batching x plain/TLS; senders flood until the session closes. What the peer got
    # before EOF must be a strict prefix of the accepted concatenation (torn only at the very end), closed once, reason WriteBackpressure
    k = 0
    for mwq in (4, 16, 64, 128):
        for drain in (1, 2, 3):
            for rep_ in range(3 if not thorough else 6):
                r = k + seed
                et, batch = ((1, 0), (0, 0), (1, 1), (0, 1))[r % 4]
                cells.append(dict(tls=(r // 4) % 2, tlsmax=(13, 12)[(r // 8) % 2], et=et, batch=batch, threads=(1, 4, 16)[r % 3],
                                  role=("server", "client")[(r // 3) % 2], sessions=1, dist=(3, 3, 1, 0)[r % 4], permille=(0, 300, 0, 1000)[(r // 2) % 4],
                                  iocap=0, peerrcvbuf=(8192, 16384, 32768)[r % 3], sndbuf=(4096, 8192)[(r // 5) % 2], rcvbuf=4096, iochunk=65536,
                                  fin="stop", window=1 << 20, hssends=(0, 1)[r % 2], bytes=64 << 20, rbytes=(0, 20000)[r % 2], pauses=0, mwq=mwq,
                                  fault="overflow-drain", cell=ci, cbsend=0, drain=drain))
                ci += 1
                k += 1
    return cells


def cell_args(c, seed, tmp, stallms, watchdogms):
    a = ["--mode", "stream", "--seed", seed, "--tmp", tmp, "--stallms", stallms, "--watchdogms", watchdogms]
    if c.get("cbsend"):
        c = dict(c, window=min(c["window"], 65536), iochunk=min(c["iochunk"], 2048))  # workers paced by the peer, so they are still sending while onData fires; small read chunks give many callbacks
    for k in ("tls", "tlsmax", "et", "batch", "threads", "role", "sessions", "dist", "permille", "iocap", "peerrcvbuf", "sndbuf", "rcvbuf",
              "iochunk", "fin", "window", "hssends", "bytes", "rbytes", "pauses", "mwq", "fault", "cell", "cbsend", "rwmin", "drain"):
        a += ["--" + k, c.get(k, 0) if k in ("cbsend", "rwmin", "drain") else c[k]]
    return a


def cut_jobs(thorough, flavor):
    """(args-dict) list for the single-cut sweep."""
    jobs = []
    for d in ("tx", "rx"):
        for tls in (0, 1):
            total = CUT_TOTAL[(d, tls)]
            for (et, batch) in ((1, 0), (0, 0), (1, 1), (0, 1)):
                if thorough:
                    stride = 1 if flavor == "plain" else (2 if flavor == "asan" else 4)
                    n = (total + stride - 1) // stride
                    per = 2800
                    for off in range(0, n, per):
                        jobs.append(dict(dir=d, tls=tls, et=et, batch=batch, frm=off * stride, count=min(per, n - off), stride=stride, tlsmax=13 if (et + batch) % 2 else 12))
                else:
                    want = 300
                    stride = max(1, total // want) | 1  # odd stride walks over all (variant, call) blocks
                    jobs.append(dict(dir=d, tls=tls, et=et, batch=batch, frm=(et * 2 + batch) * 3, count=want + 2, stride=stride, tlsmax=13 if (et + batch) % 2 else 12))
    return jobs


def cut_args(j, seed, tmp, stallms):
    return ["--mode", "cut", "--seed", seed, "--tmp", tmp, "--stallms", stallms, "--dir", j["dir"], "--tls", j["tls"], "--tlsmax", j["tlsmax"],
            "--et", j["et"], "--batch", j["batch"], "--from", j["frm"], "--count", j["count"], "--stride", j["stride"]]


class Runner:
    def __init__(self, ctx):
        self.ctx = ctx
        self.n = 0

    def run(self, binary, args, timeout, tag):
        self.n += 1
        out = os.path.join(self.ctx.tmp, f"{tag}-{vf.flavor_of(binary)}-{self.n}-{os.getpid()}.jsonl")
        rr = vf.run_harness(binary, list(args) + ["--out", out], timeout=timeout, out_file=out)
        rr.tag = tag
        rr.args = list(args)
        rr.binary = binary
        rr.stalls = [r for r in rr.records if r.get("t") == "stall"]
        rr.bad = None
        if os.environ.get("VF_C01_DEBUG"):
            print(f"[c01] {tag:40s} {rr.flavor:5s} wall={rr.wall:6.1f}s rc={rr.rc}", flush=True)
        if rr.timed_out:
            rr.bad = f"{tag} ({rr.flavor}) hit the process watchdog after {timeout}s"
        elif rr.rc not in (0, 86, 87) or not any(r.get("t") == "sigs" for r in rr.records):
            if not rr.san_reports:
                rr.bad = f"{tag} ({rr.flavor}) ended abnormally rc={rr.rc} stderr={rr.err[-300:]!r}"
        try:
            os.unlink(out)
        except OSError:
            pass
        return rr


MAX_RERUNS = 6


def _settle(ctx, runner, first, timeout, state):
    """Verdict discipline for one finished process: stall suspicions and abnormal ends are re-run
    once in isolation; only a reproduced, logically characterised stall becomes a violation.
    A key that was already reproduced once is not re-run again for every further cell (the
    further suspicions are recorded as observations), and the number of re-runs is capped."""
    ctx.ingest(first, where=f"({first.tag}, {first.flavor})")
    if not first.stalls and not first.bad:
        return
    new_keys = [s["key"] for s in first.stalls if s["key"] not in state["confirmed"]]
    if first.stalls and not new_keys and not first.bad:
        ctx.obs("stall_suspicions_with_already_reproduced_key", len(first.stalls))
        return
    if state["reruns"] >= MAX_RERUNS:
        what = first.bad or f"stall suspicion {new_keys[0]} ({first.tag}, {first.flavor})"
        ctx.inconcl(what + f" — not re-run (cap of {MAX_RERUNS} isolated re-runs reached)")
        return
    state["reruns"] += 1
    again = runner.run(first.binary, first.args, timeout, first.tag + "-isolated")
    ctx.ingest(again, where=f"({again.tag}, {again.flavor})")
    ctx.obs("isolated_reruns")
    if first.stalls:
        keys2 = {s["key"]: s for s in again.stalls}
        for s in first.stalls:
            if ":kernel-not-delivering:" in s["key"]:
                # the kernel, not the engine, sat on the bytes: never a verdict about iora
                if s["key"] in keys2:
                    ctx.inconcl(f"{first.tag} ({first.flavor}): {s.get('what')} — twice")
                else:
                    ctx.obs("kernel_delivery_pauses_not_reproduced")
                continue
            if s["key"] in keys2:
                d = dict(s.get("detail") or {})
                d["reproduced_in_isolation"] = keys2[s["key"]].get("detail")
                d["flavor"] = first.flavor
                ctx.violation(s["key"], s.get("what", "") + " [reproduced in an isolated re-run]", d)
                state["confirmed"].add(s["key"])
            elif s["key"] not in state["confirmed"]:
                ctx.inconcl(f"stall suspicion {s['key']} ({first.tag}, {first.flavor}) did not reproduce in isolation")
    if first.bad:
        if again.bad:
            ctx.inconcl(first.bad + " — twice")
        elif again.stalls and not first.stalls:
            ctx.inconcl(f"{first.tag}: abnormal end, then a stall suspicion in the isolated re-run: {again.stalls[0]['key']}")


def run(ctx):
    thorough = ctx.tier == "thorough"
    flavors = ["plain", "asan"] + (["tsan"] if thorough else [])
    bins = vf.build_many([(H, f) for f in flavors])
    runner = Runner(ctx)
    stallms = 8000
    cell_timeout = 1500 if thorough else 420
    watchdogms = (cell_timeout - 120) * 1000
    # the secondary coordinates rotate with the seed: several sub-seeds widen the part of the matrix product that is visited
    subseeds = [ctx.seed + 1000 * i for i in range(3 if thorough else 2)]
    cells = []
    jobs = []
    for fl in flavors:
        b = bins[(H, fl)]
        for sub in subseeds:
            sc = stream_cells(sub, thorough)
            if fl == flavors[0]:
                cells += sc
            for c in sc:
                cc = dict(c)
                if thorough and fl == "tsan":
                    cc["bytes"] = max(200 * 1024, cc["bytes"] // 2)
                    cc["rbytes"] = max(50000, cc["rbytes"] // 2)
                tag = f"s{sub}-cell{cc['cell']}-{'tls' if cc['tls'] else 'tcp'}-{cc['fault']}"
                jobs.append(lambda b=b, cc=cc, tag=tag, sub=sub: runner.run(b, cell_args(cc, sub, ctx.tmp, stallms, watchdogms), cell_timeout, tag))
        for j in cut_jobs(thorough, fl):
            tag = f"cut-{j['dir']}-{'tls' if j['tls'] else 'tcp'}-et{j['et']}b{j['batch']}-{j['frm']}"
            jobs.append(lambda b=b, j=j, tag=tag: runner.run(b, cut_args(j, ctx.seed, ctx.tmp, stallms), cell_timeout, tag))
    # big cells first so the pool drains evenly
    results = vf.run_many(ctx, jobs)
    state = dict(confirmed=set(), reruns=0)
    for rr in results:
        _settle(ctx, runner, rr, cell_timeout, state)   # isolated re-runs happen here, after the pool is idle

    ctx.rule = ("stream cell = (transport, TLS version, role, epoll mode, batching, sender threads, callback sender on the I/O thread?, sessions, payload-size distribution, "
                "shim short-count rate / I/O cap, socket buffer sizes, ioReadChunk, early-send count, end-of-session variant, fault kind) with "
                "self-describing payloads parsed at an independent raw/OpenSSL peer; cut case = (direction, transport, epoll mode, batching, "
                "variant, call index, cut length) on a 3-payload 4096-byte script. distinct = hash of the cell coordinates plus "
                "(short writes seen?, EAGAIN seen?, short reads seen?, TLS WANT_WRITE seen?, outcome) resp. the cut coordinates of cases in "
                "which the cut actually happened")
    ctx.assumptions = [
        "acceptance order is observed as real-time order: send(X) returned before send(Y) was called implies X precedes Y",
        "a stall is only reported when bytes are outstanding (accepted > received by the peer, or written by the peer > handed to onData), "
        "all counters and engine bytesOut/bytesIn stand still for >= 8 s + 1.5 s, the session is not closed, the kernel queues on both ends "
        "locate the bytes inside the engine (tx: engine socket send queue empty, peer blocked in read; rx: unread bytes in the engine's socket, "
        "or peer send queue and engine receive queue both empty = withheld), and the same shape reproduces in an isolated re-run",
        "in fault-free cells (peer never closes, queue limit never reached) an engine-initiated close is a violation; in fault cells only the "
        "prefix rule and exactly-one close report are required",
        "the independent OpenSSL peer (libssl used directly) is the judge of whether the TLS byte stream is legal",
    ]
    ctx.extra["stream_cells_per_flavor"] = len(cells)
    ctx.require_obs("cells", "short_writes", "eagain_on_send", "short_reads", "tls_cells_executed", "multi_threaded_sender_cells",
                    "tls_want_read", "tls_want_write", "sends_accepted_before_tls_handshake", "payloads_verified_at_peer",
                    "reverse_bytes_on_data", "callback_sender_cells", "callback_sends_on_io_thread", "tls_level_triggered_cells_with_read_chunk_below_record_size", "overflow_closes_with_draining_peer", "sessions_closed_early_prefix_checked", "engine_backpressure_closes",
                    "cut_cases_with_cut", "cut_cases_in_drain_loop", "cut_cases_with_cut_tx_tls", "cut_cases_with_cut_rx_tls",
                    "cut_cases_with_cut_rx_tcp")
    if thorough:
        ctx.extra["single_cut_sweep"] = "plain flavor: every (variant, call, cut) of the 4096-byte script; asan every 2nd, tsan every 4th"


def replay(ctx, path):
    with open(path) as fh:
        rep = json.load(fh)
    detail = (rep.get("first") or {}).get("detail") or {}
    cell = detail.get("cell")
    if not cell:
        ctx.inconcl("replay file carries no cell description")
        return
    flavors = ["plain", "asan"]
    if detail.get("flavor") in ("tsan",) or ":san:tsan" in rep.get("key", ""):
        flavors.append("tsan")
    bins = vf.build_many([(H, f) for f in flavors])
    runner = Runner(ctx)
    for fl in flavors:
        if cell.get("fault") == "cut":
            j = dict(dir=cell.get("fin", "tx"), tls=cell["tls"], tlsmax=cell["tlsmax"], et=cell["et"], batch=cell["batch"],
                     frm=detail.get("case", 0), count=1, stride=1)
            args = cut_args(j, cell.get("seed", ctx.seed), ctx.tmp, 8000)
        else:
            c = dict(cell)
            c["tlsmax"] = cell["tlsmax"]
            args = cell_args(c, cell.get("seed", ctx.seed), ctx.tmp, 8000, 600000)
        rr = runner.run(bins[(H, fl)], args, 900, "replay")
        _settle(ctx, runner, rr, 900, dict(confirmed=set(), reruns=0))
    ctx.rule = "replay of one recorded case"
