# C20 — static asset and template lookup never escapes its root
#
# lookups : names from lib/c20_names.py (traversal-aware generator/mutator) through getStatic/getTemplate of three
#           Assets flavours (filesystem cached, filesystem per-request, embedded with EXTERNAL_DIR) over a hostile tree;
#           the oracle (Tree.judge) identifies the returned bytes by content and asks the OS where that file lives.
# sweep   : enumerated TOCTOU windows — the path is replaced by a symlink to the secret immediately before the k-th
#           intercepted library call of one lookup, for every k (harness/c20_assets.cpp --mode sweep).
# race    : unscripted timing — a swapper thread flips the path while lookups run.
import json, os, random, shutil
import vf
import c20_names as cn

LEVEL = "exploration"
BUILDS = [("c20_assets", "asan")]

FLAVOURS = ("fs-cached", "fs-perreq", "embedded")


class Acc:
    """picklable stand-in for the parts of vf.Ctx the judges use; one per worker job, merged in run()"""

    def __init__(self, tmp):
        self.tmp = tmp
        self.evaluations, self.sigs, self.observed, self.maxes = 0, set(), {}, {}
        self.violations, self.inconclusive, self.samples, self.san_reports = [], [], [], 0
        self.summary = dict(leaves=[], unfired=0)

    def obs(self, k, n=1): self.observed[k] = self.observed.get(k, 0) + n
    def obs_max(self, k, v): self.maxes[k] = max(self.maxes.get(k, v), v)
    def inconcl(self, w): self.inconclusive.append(w)
    def violation(self, key, what, detail=None):
        seen = sum(1 for v in self.violations if v[0] == key)
        self.violations.append((key, what, detail if seen < 3 else None))


def _rootkind(flavour, api):
    if flavour == "embedded":
        return "ext" if api == "s" else None          # embedded templates never touch the filesystem
    return "static" if api == "s" else "templates"


def _mk_tree(ctx, tag, seed):
    d = os.path.join(ctx.tmp, tag)
    shutil.rmtree(d, ignore_errors=True)
    os.makedirs(d)
    return cn.Tree(d, random.Random(seed))


def _judge_found(ctx, tree, flavour, api, name, res, origin, extra_detail=None):
    """res: {"st":"F","b":{...},"gz":{...}?}; returns list of (key, what, detail)"""
    out = []
    kind = _rootkind(flavour, api)
    if kind is None:
        # embedded template: must be one of the compiled-in templates
        head = bytes.fromhex(res["b"]["head"])
        if not head.startswith(b"VF20|embedded|"):
            out.append(("C20:embedded-template:non-registry-bytes", "embedded getTemplate returned bytes that are not a registry template", dict(name=name.hex())))
        return out
    for which in ("b", "gz"):
        if which not in res:
            continue
        blob = res[which]
        head = bytes.fromhex(blob["head"])
        if flavour == "embedded" and head.startswith(b"VF20|embedded|"):
            continue
        v = tree.judge(kind, name, blob)
        if v:
            what, route, why = v
            if which == "gz":
                route = "gzip-sibling"
            key = "%s:%s:%s" % (origin, route, what) if origin.startswith("C20:escape") else "%s:%s" % (origin, what)
            d = dict(name=name.hex(), name_repr=repr(name[:200]), flavour=flavour, api=("getStatic" if api == "s" else "getTemplate"),
                     returned=why, head=head[:80].decode("latin1"))
            if extra_detail:
                d.update(extra_detail)
            out.append((key, "%s %s(%r) returned %s" % (flavour, d["api"], name[:80], why), d))
    return out


def lookup_job(ctx, binary, tree, flavour, names, tag):
    nf = os.path.join(ctx.tmp, tag + ".names")
    ff = os.path.join(ctx.tmp, tag + ".fifos")
    outp = os.path.join(ctx.tmp, tag + ".jsonl")
    with open(nf, "w") as fh:
        for n in names:
            fh.write((n.hex() or "-") + "\n")
    tree.write_fifo_list(ff)
    if os.environ.get("VF_C20_NOFEED"):          # validation switch: no pipe feeder, so a lookup that opens a pipe blocks (watchdog path)
        open(ff, "w").close()
    base = ["--mode", "lookup", "--assets", flavour, "--root", tree.root, "--ext", tree.ext, "--names", nf, "--reload", 500,
            "--fifos", ff, "--fifotoken", tree.fifo_token.decode(), "--out", outp]
    start, records, hangs, rr = 0, [], [], None
    while True:
        rr = vf.run_harness(binary, base + ["--from", start], timeout=900, out_file=outp)
        records += rr.records
        hang = [r for r in rr.records if r.get("t") == "hang"]
        if not hang:
            break
        if len(hangs) >= 3:                       # enough witnesses; the rest of this batch is not run
            rr.abandoned = True
            break
        # a lookup sat in open()/read() with no progress: confirm it alone, then go on after it
        h = hang[0]
        solo = vf.run_harness(binary, ["--mode", "lookup", "--assets", flavour, "--root", tree.root, "--ext", tree.ext, "--names", nf, "--from", h["i"],
                                       "--fifos", ff, "--fifotoken", tree.fifo_token.decode(), "--stallms", 12000, "--out", outp + ".solo"],
                              timeout=300, out_file=outp + ".solo")
        h["reproduced"] = any(r.get("t") == "hang" and r.get("i") == h["i"] for r in solo.records)
        hangs.append(h)
        start = h["i"] + 1
    rr.records = records
    rr.hangs = hangs
    rr.names = names
    rr.flavour = flavour
    for p in (nf, ff, outp, outp + ".solo"):
        try:
            os.unlink(p)
        except OSError:
            pass
    return rr


def judge_lookups(ctx, tree, rr):
    flavour, names = rr.flavour, rr.names
    if (rr.timed_out or rr.rc != 0 or not any(r.get("t") == "done" for r in rr.records)) and not getattr(rr, "abandoned", False):
        ctx.inconcl("lookup batch (%s) did not complete: rc=%s timed_out=%s stderr=%s" % (flavour, rr.rc, rr.timed_out, rr.err[-300:]))
    if getattr(rr, "abandoned", False):
        ctx.obs("lookup_batches_abandoned_after_three_blocked_lookups")
    for h in getattr(rr, "hangs", []):
        name = names[h["i"]]
        kind = _rootkind(flavour, h["api"])
        nk = tree.named_kind(kind, name)[0] if kind else "?"
        if h.get("reproduced"):
            ctx.violation("C20:non-regular:%s:lookup-blocked" % nk,
                          "%s %s(%r) neither answered nor refused: the lookup sat in %s() on an object the OS reports as %s (twice: in the batch and alone)" %
                          (flavour, "getStatic" if h["api"] == "s" else "getTemplate", name[:80], h.get("syscall"), nk),
                          dict(name=name.hex(), name_repr=repr(name[:200]), flavour=flavour, api=h["api"], syscall=h.get("syscall"), resolves_to=nk))
        else:
            ctx.inconcl("lookup of %r (%s) stalled once in %s() but not when re-run alone" % (name[:80], flavour, h.get("syscall")))
    for r in rr.records:
        if r.get("t") == "done":
            ctx.obs("fifo_feeder_writes", r.get("fifo_feeds", 0))
        if "i" not in r or "s" not in r:
            continue
        name = names[r["i"]]
        ncls = cn.name_class(name)
        for api in ("s", "t"):
            res = r[api]
            st = res["st"]
            kind = _rootkind(flavour, api)
            ctx.evaluations += 1
            ctx.sigs.add(vf.h64("%s:%s:%s:%s" % (flavour, api, ncls, st)))
            ctx.obs("lookups")
            if st == "X":
                ctx.obs("lookup_threw")
                continue
            named = tree.named_file(kind, name) if kind else None
            nkind, npath = tree.named_kind(kind, name) if kind else ("n/a", None)
            if nkind in ("fifo", "socket", "chardev", "blockdev", "other"):
                ctx.obs("asked_for_" + nkind)
                if st != "F":
                    ctx.obs("refused_non_regular_" + nkind)
                else:
                    rbase = os.path.realpath(tree.roots[kind])
                    where = "inside" if npath.startswith(rbase + os.sep) else "outside"
                    ctx.violation("C20:non-regular:%s:served" % nkind,
                                  "%s %s(%r) reported Found for a name the OS resolves to a %s (%s the root), not a regular file" %
                                  (flavour, "getStatic" if api == "s" else "getTemplate", name[:80], nkind, where),
                                  dict(name=name.hex(), name_repr=repr(name[:200]), flavour=flavour, api=api, resolves_to=os.path.relpath(npath, tree.case) if where == "inside" else npath,
                                       head=bytes.fromhex(res["b"]["head"])[:80].decode("latin1")))
            inside = False
            if named:
                rbase = os.path.realpath(tree.roots[kind])
                inside = named.startswith(rbase + os.sep)
            if st != "F":
                ctx.obs("refused")
                if named and not inside:
                    ctx.obs("refused_name_that_the_os_resolves_outside_the_root")
                    nk = tree.near_kind(named)
                    if nk:
                        ctx.obs("refused_near_root_" + nk.replace("-", "_"))
                    if named == tree.secret:
                        ctx.obs("refused_name_that_resolves_to_the_secret")
                if b".." in name.split(b"/"):
                    ctx.obs("refused_dotdot_segment")
                if named and inside:
                    ctx.obs("refused_although_inside")        # allowed by the property (e.g. '..' that stays inside, leaf symlink races)
                continue
            ctx.obs("found")
            vs = _judge_found(ctx, tree, flavour, api, name, res, "C20:escape")
            for key, what, detail in vs:
                ctx.violation(key, what, detail)
            if vs or kind is None:
                continue
            ident = (res["b"]["len"], res["b"]["fnv"])
            path = tree.by_id.get(ident)
            route = tree.route(tree.roots[kind], name)
            ctx.obs("found_inside_" + route.replace("-", "_"))
            if "gz" in res:
                ctx.obs("found_with_gzip_variant")
            if named and path and os.path.realpath(path) != named and not (flavour == "embedded" and path is None):
                ctx.violation("C20:found:other-file-returned", "%s returned the content of %s for a name the OS resolves to %s" %
                              (flavour, os.path.relpath(path, tree.case), os.path.relpath(named, tree.case)),
                              dict(name=name.hex(), name_repr=repr(name[:200]), flavour=flavour, api=api))
            if len(ctx.samples) < 3 and route != "plain":
                ctx.samples.append(dict(kind="lookup", flavour=flavour, api=api, name=repr(name[:120]), outcome="found " + os.path.relpath(path, tree.case) + " (inside, via " + route + ")"))
        if len(ctx.samples) < 6 and r["s"]["st"] == "R" and b"link" in name and r["i"] % 7 == 0:
            ctx.samples.append(dict(kind="lookup", flavour=flavour, api="s", name=repr(name[:120]), outcome="rejected"))


def sweep_specs(tree, flavour, thorough, rng):
    """(api, name, absolute path that gets replaced, what) for one flavour"""
    specs = []
    if flavour == "embedded":
        kinds = [("s", "ext", ".txt")]
    else:
        kinds = [("s", "static", ".txt"), ("t", "templates", ".html")]
    for api, kind, ext in kinds:
        base = tree.roots[kind]
        J = lambda *p: os.path.join(base, *p)
        core = [("a" + ext, J("a" + ext), "leaf-swap"),
                ("css/deep/er/x.css", J("css", "deep", "er", "x.css"), "leaf-swap"),
                ("link_in" + ext, J("link_in" + ext), "leaf-swap"),                     # requested leaf is an inside symlink: retarget it
                ("link_in" + ext, J("a" + ext), "resolved-target-swap"),                # ... or replace the file it resolves to
                ("linkdir_in/site.css", J("css", "site.css"), "resolved-target-swap"),
                ("not-there" + ext, J("not-there" + ext), "absent-leaf-created"),
                ("dangling", J("dangling"), "leaf-swap")]
        if api == "s":
            core += [("b" + ext, J("b" + ext + ".gz"), "gzip-sibling-swap"), ("big.bin", J("big.bin"), "leaf-swap"),
                     ("a" + ext, J("a" + ext + ".gz"), "gzip-sibling-created")]
        if thorough:
            seen = {(n, t) for n, t, _ in core}
            for f in tree.files[kind]:
                if len(f) < 200 and (f, J(f)) not in seen and "\\" not in f:
                    core.append((f, J(f), "leaf-swap"))
            for l in tree.links[kind]:
                if (l, J(l)) not in seen:
                    core.append((l, J(l), "leaf-swap"))
        for n, t, what in core:
            specs.append((api, n, t, what))
    return specs


def sweep_job(ctx, binary, flavour, thorough, seed, mode, iters=0):
    tree = _mk_tree(ctx, "%s-%s" % (mode, flavour), seed)
    specs = sweep_specs(tree, flavour, thorough, random.Random(seed))
    if mode == "race":
        specs = [s for s in specs if s[3] in ("leaf-swap", "gzip-sibling-swap", "resolved-target-swap")][:(12 if thorough else 6)]
    sf = os.path.join(ctx.tmp, "%s-%s.specs" % (mode, flavour))
    outp = os.path.join(ctx.tmp, "%s-%s.jsonl" % (mode, flavour))
    with open(sf, "w") as fh:
        for api, n, t, what in specs:
            fh.write("%s %s %s %s\n" % (flavour, api, os.fsencode(n).hex(), os.fsencode(t).hex()))
    ff = os.path.join(ctx.tmp, "%s-%s.fifos" % (mode, flavour))
    tree.write_fifo_list(ff)
    args = ["--mode", mode, "--root", tree.root, "--ext", tree.ext, "--secret", tree.secret, "--prefix", tree.case, "--specs", sf, "--out", outp,
            "--fifos", ff, "--fifotoken", tree.fifo_token.decode()]
    if mode == "race":
        args += ["--iters", iters, "--seed", seed]
    rr = vf.run_harness(binary, args, timeout=1800, out_file=outp)
    rr.tree, rr.specs, rr.flavour, rr.mode = tree, specs, flavour, mode
    return rr


def judge_sweep(ctx, rr, summary):
    tree, specs, flavour = rr.tree, rr.specs, rr.flavour
    if rr.timed_out or rr.rc != 0 or not any(r.get("t") in ("done", "hang") for r in rr.records):
        ctx.inconcl("%s (%s) did not complete: rc=%s timed_out=%s stderr=%s" % (rr.mode, flavour, rr.rc, rr.timed_out, rr.err[-300:]))
    for r in rr.records:
        t = r.get("t")
        if t == "hang":
            api, n, tgt, what = specs[r["i"]]
            ctx.violation("C20:non-regular:lookup-blocked:%s" % rr.mode, "%s lookup of %r sat in %s() without progress during the %s" % (flavour, n, r.get("syscall"), rr.mode),
                          dict(name=n, flavour=flavour, api=api, replaced=os.path.relpath(tgt, tree.case)))
        elif t == "skip":
            ctx.inconcl("%s: spec %s could not be prepared" % (rr.mode, specs[r["spec"]]))
        elif t == "count":
            api, n, tgt, what = specs[r["spec"]]
            ent = dict(flavour=flavour, api=api, name=n, replaced=os.path.relpath(tgt, tree.case), what=what, variant=r["variant"], calls=r["calls"],
                       windows=r["N"] + 1, base=r["base"]["st"])
            summary["leaves"].append(ent)
            ctx.obs("sweep_leaf_variants")
            ctx.obs_max("sweep_max_calls_per_lookup", r["N"])
            for c in r["calls"]:
                ctx.obs("sweep_call_" + c)
        elif t == "sw":
            api, n, tgt, what = specs[r["spec"]]
            name = os.fsencode(n)
            res = r["r"]
            ctx.evaluations += 1
            ctx.obs("sweep_windows")
            if r["fired"]:
                ctx.obs("sweep_swaps_fired")
            elif r["k"] < r["N"] and not r["variant"].endswith("-after"):
                summary["unfired"] += 1
            ctx.sigs.add(vf.h64("sweep:%s:%s:%s:%s:%s:%s" % (flavour, api, what, r["variant"], min(r["k"], 16), res["st"])))
            ctx.obs("sweep_result_" + {"F": "found", "N": "notfound", "R": "rejected", "X": "threw"}[res["st"]])
            if res["st"] == "F":
                origin = "C20:toctou:%s:syscall-window-k" % what
                for key, w, detail in _judge_found(ctx, tree, flavour, api, name, res, origin,
                                                   dict(k=r["k"], calls=r["N"], variant=r["variant"], replaced=os.path.relpath(tgt, tree.case))):
                    ctx.violation(key, w + " when %s was replaced by a symlink to the secret before intercepted call %d of %d (%s)" %
                                  (os.path.relpath(tgt, tree.case), r["k"], r["N"], r["variant"]), detail)
        elif t == "race":
            api, n, tgt, what = specs[r["spec"]]
            name = os.fsencode(n)
            ctx.evaluations += r["iters"]
            ctx.obs("race_lookups", r["iters"]); ctx.obs("race_flips", r["flips"]); ctx.obs("race_found", r["found"])
            ctx.obs("race_notfound", r["notfound"]); ctx.obs("race_rejected", r["rejected"])
            ctx.sigs.add(vf.h64("race:%s:%s:%s:%s:%s:%s" % (flavour, api, what, r["found"] > 0, r["notfound"] > 0, r["rejected"] > 0)))
            for kd in r["kinds"]:
                for key, w, detail in _judge_found(ctx, tree, flavour, api, name, kd["r"], "C20:toctou:%s:racing" % what,
                                                   dict(times=kd["n"], iters=r["iters"], flips=r["flips"], replaced=os.path.relpath(tgt, tree.case))):
                    ctx.violation(key, w + " while %s was being flipped to a symlink to the secret (%d of %d lookups)" % (os.path.relpath(tgt, tree.case), kd["n"], r["iters"]), detail)
            if sum(1 for x in ctx.samples if x.get("kind") == "race") < 1:
                ctx.samples.append(dict(kind="race", flavour=flavour, name=n, replaced=os.path.relpath(tgt, tree.case), lookups=r["iters"], flips=r["flips"],
                                        found=r["found"], notfound=r["notfound"], rejected=r["rejected"]))


def _lookup_worker(job):
    tmp, binary, tree, flavour, seed, idx, count = job
    acc = Acc(tmp)
    rng = random.Random((seed * 1000003 + idx) * 7 + FLAVOURS.index(flavour))
    if flavour == "embedded":
        names = cn.gen_names(tree, "ext", rng, count)
    else:
        names = cn.gen_names(tree, "static", rng, count * 2 // 3) + cn.gen_names(tree, "templates", rng, count // 3)
    rng.shuffle(names)
    rr = lookup_job(acc, binary, tree, flavour, names, "lk-%s-%d" % (flavour, idx))
    for rep in rr.san_reports:
        acc.san_reports += 1
        acc.violation("C20:san:" + rep["key"], "sanitizer report %s (lookup, %s)" % (rep["key"], flavour), dict(text=rep["text"][:4000]))
    judge_lookups(acc, tree, rr)
    return acc


def _sweep_worker(job):
    tmp, binary, flavour, thorough, seed, mode, iters = job
    acc = Acc(tmp)
    rr = sweep_job(acc, binary, flavour, thorough, seed, mode, iters)
    for rep in rr.san_reports:
        acc.san_reports += 1
        acc.violation("C20:san:" + rep["key"], "sanitizer report %s (%s, %s)" % (rep["key"], mode, flavour), dict(text=rep["text"][:4000]))
    judge_sweep(acc, rr, acc.summary)
    shutil.rmtree(rr.tree.case, ignore_errors=True)
    return acc


def _merge_acc(ctx, acc, summary):
    ctx.evaluations += acc.evaluations
    ctx.add_sigs(acc.sigs)
    ctx.san_reports += acc.san_reports
    for k, v in acc.observed.items():
        ctx.obs(k, v)
    for k, v in acc.maxes.items():
        ctx.obs_max(k, v)
    for key, what, detail in acc.violations:
        ctx.violation(key, what, detail)
    for w in acc.inconclusive:
        ctx.inconcl(w)
    for smp in acc.samples:
        if len(ctx.samples) < 6 and (smp.get("kind") != "lookup" or sum(1 for x in ctx.samples if x.get("kind") == "lookup") < 3):
            ctx.samples.append(smp)
    summary["leaves"] += acc.summary["leaves"]
    summary["unfired"] += acc.summary["unfired"]


def run(ctx):
    import multiprocessing
    thorough = ctx.tier == "thorough"
    binary = vf.build("c20_assets", "asan")
    ctx.flavors.add("asan")
    tree = _mk_tree(ctx, "tree", ctx.seed)
    # names per flavour (each goes through getStatic and getTemplate): quick 3 x 64 000, thorough 3 x 1 680 000
    chunks, chunk = (84, 20000) if thorough else (16, 4000)
    ljobs = [(ctx.tmp, binary, tree, fl, ctx.seed, i, chunk) for fl in FLAVOURS for i in range(chunks)]
    sjobs = []
    for fl in FLAVOURS:
        sjobs.append((ctx.tmp, binary, fl, thorough, ctx.seed, "sweep", 0))
        sjobs.append((ctx.tmp, binary, fl, thorough, ctx.seed + 17, "race", 60000 if thorough else 20000))
    mp = multiprocessing.get_context("fork")
    with mp.Pool(min(vf.NCPU, 16)) as pool:
        rs = pool.map_async(_sweep_worker, sjobs, chunksize=1)
        rl = pool.map_async(_lookup_worker, ljobs, chunksize=1)
        accs = rs.get() + rl.get()
    summary = dict(leaves=[], unfired=0)
    for acc in accs:
        _merge_acc(ctx, acc, summary)
    if summary["unfired"]:
        ctx.inconcl("%d sweep runs never reached their swap index (lookup issued fewer calls than in the counting run)" % summary["unfired"])
    leaves = summary["leaves"]
    ctx.extra["toctou_sweep"] = dict(
        exhaustive=True,
        what="every gap between two intercepted library calls of one lookup (stat, lstat, readlink, realpath, open, read, close), "
             "plus before the first and after the last, for each listed (flavour, api, name, replaced path, cache state)",
        leaf_variants=len(leaves), windows=sum(l["windows"] for l in leaves),
        distinct_names=len({(l["flavour"], l["api"], l["name"], l["replaced"]) for l in leaves}),
        leaves=leaves if len(leaves) <= 80 else leaves[:80] + [dict(truncated=len(leaves) - 80)])
    ctx.extra["non_regular_objects"] = dict(static=tree.specials["static"], templates=tree.specials["templates"], ext=tree.specials["ext"],
                                            note="plus symlinks to them and to /dev/null, /dev/zero, /dev; .gz siblings that are pipes, sockets, directories, device links")
    ctx.extra["near_root_directories"] = sorted((os.path.relpath(d, tree.case), k) for d, k in tree.near.items())
    ctx.extra["tree"] = dict(static_files=len(tree.files["static"]), static_symlinks=len(tree.links["static"]), template_files=len(tree.files["templates"]),
                             ext_files=len(tree.files["ext"]), symlinks=tree.links["static"])
    ctx.rule = ("a lookup that reports Found must return the exact bytes of a file that os.lstat says is regular and whose os.path.realpath lies under the "
                "static root (getStatic), templates root (getTemplate) or EXTERNAL_DIR (embedded getStatic); the same for the gzip variant; the secret's "
                "bytes must never appear; refusal is always acceptable. Additionally the file returned must be the one the OS resolves the name to. "
                "distinct = hashes of (flavour, api, name class, outcome), (sweep: flavour, api, replaced-path kind, cache state, call index, outcome), "
                "(race: flavour, api, kind, outcomes seen)")
    ctx.assumptions = [
        "realpath() is counted as one call: libc walks the path with internal lstat/readlink calls that cannot be interposed; a swap of the final component "
        "during realpath is equivalent to a swap immediately before or immediately after it, both of which are enumerated",
        "only the path named in each sweep entry is swapped (final component, the file it resolves to, or its .gz sibling); intermediate directories are not",
        "the harness runs as the only writer of the tree; each sweep/race process works on its own copy of the tree",
        "the embedded registry lists every requested name as external, so every name reaches the EXTERNAL_DIR code path",
        "file contents are unique per tree, so (length, FNV-64, first 160 bytes) identifies the file a result came from",
    ]
    ctx.require_obs("found_inside_plain", "found_inside_symlink_file", "found_inside_symlink_dir", "found_with_gzip_variant",
                    "refused_name_that_resolves_to_the_secret", "refused_name_that_the_os_resolves_outside_the_root", "refused_dotdot_segment",
                    "sweep_windows", "sweep_swaps_fired", "sweep_call_realpath", "sweep_call_stat", "sweep_call_io",
                    "race_flips", "race_found", "sweep_result_found", "sweep_result_notfound", "sweep_result_rejected",
                    "refused_non_regular_fifo", "refused_non_regular_socket", "refused_non_regular_chardev",
                    "refused_near_root_case_variant", "refused_near_root_case_variant_ancestor", "refused_near_root_suffix_sibling",
                    "refused_near_root_trailing_dot", "refused_near_root_trailing_space", "refused_near_root_lookalike")
    shutil.rmtree(tree.case, ignore_errors=True)


def replay(ctx, path):
    with open(path) as fh:
        rp = json.load(fh)
    d = (rp.get("first") or {}).get("detail") or {}
    binary = vf.build("c20_assets", "asan")
    tree = _mk_tree(ctx, "tree", rp.get("seed", 1))
    if ":toctou:" in rp.get("key", ""):
        # re-run the enumerated sweep (or the racing lookups) of that flavour on a fresh tree
        mode = "race" if ":racing:" in rp["key"] else "sweep"
        acc = _sweep_worker((ctx.tmp, binary, d.get("flavour", "fs-cached"), False, rp.get("seed", 1) + (17 if mode == "race" else 0), mode, 20000))
        _merge_acc(ctx, acc, dict(leaves=[], unfired=0))
        return
    if "name" not in d:
        ctx.inconcl("replay file carries no name")
        return
    name = bytes.fromhex(d["name"])
    rr = lookup_job(ctx, binary, tree, d.get("flavour", "fs-cached"), [name], "replay")
    for r in rr.records:
        print(json.dumps(r)[:2000])
    judge_lookups(ctx, tree, rr)
