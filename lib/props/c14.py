# C14 — XML parser: faithful reporting of well-formed documents by pull/SAX/DOM, balance + limits +
# containment on arbitrary bytes.
# Oracle 1 = the generating tree (lib/c14_xmlgen.py), oracle 2 = xml.parsers.expat on documents both accept,
# plus an independent tag-balance scanner / limit recomputation over the tokens iora emitted (lib/c14_ref.py).
# The C++ driver (harness/c14_xml.cpp, asan+ubsan) reports event streams and does the pointer-range checks.
import json, os, random, re
import vf
import c14_xmlgen as G
import c14_ref as R
import c13_shards as SH

LEVEL = "exploration"
FUZZ_FLAGS = ("-DVF_FUZZ=1",)
# -O0 (overrides the flavor's -O1): the optimiser deletes dead out-of-bounds loads before ASan can see them (a cursor
# reading one byte past the input whose value is not used), without optimisation every source-level read is checked
ASAN_FLAGS = ("-O0",)
BUILDS = [("c14_xml", "asan", ASAN_FLAGS), ("c14_xml", "fuzz", FUZZ_FLAGS)]
PROP = "C14"
BOM = b"\xef\xbb\xbf"

CPU_C0_NS = 40_000_000          # pull + SAX + DOM of one document, asan build
CPU_PER_BYTE_NS = 20000
KINDNAME = {"D": "doctype", "S": "start", "E": "end", "M": "empty", "T": "text", "C": "cdata", "K": "comment", "P": "pi", "X": "xmldecl",
            "I": "invalid", "F": "eof"}
TIGHT = dict(G.DEFAULT_OPTS, depth=3, attrs=2, name=4, text=8, tokens=12)
OPTSETS = [G.DEFAULT_OPTS, TIGHT, dict(G.DEFAULT_OPTS, permissive=1, ns=0), dict(G.DEFAULT_OPTS, depth=1, attrs=0, name=1, text=0, tokens=1)]


def slug(msg):
    msg = re.sub(r"</?[^>]*>", "", msg or "")
    return re.sub(r"[^a-z0-9]+", "-", msg.lower()).strip("-")[:48] or "none"


def x_line(full, opts, data):
    return "X %s %s %s" % ("f" if full else "c", G.opts_str(opts), data.hex())


def H(x):
    return bytes.fromhex(x) if x else b""


def full_tokens(rec):
    out = []
    for t in rec["tok"]:
        attrs = [(H(a[0]), H(a[1]), None if a[2] is None else H(a[2])) for a in t[3]]
        out.append((G.KIND.get(t[0], "?"), H(t[1]), H(t[2]), attrs, t[4], None if t[8] is None else H(t[8]), H(t[9]), H(t[10]), t[11]))
    return out      # (kind, name, text, attrs, depth, textdec, prefix, local, selfClosing)


def compact_tokens(ctok):
    out = []
    if not ctok:
        return out
    for part in ctok.split(";"):
        f = part.split(",")
        out.append((G.KIND.get(int(f[0]), "?"), int(f[1]), H(f[2]), int(f[3]), int(f[4]), int(f[5]), int(f[6])))
    return out


def compact_of_full(toks):
    return [(k, dp, nm, len(tx), len(at), max([len(a[0]) for a in at] or [0]), max([len(a[1]) for a in at] or [0]))
            for k, nm, tx, at, dp, _d, _p, _l, _s in toks]


def dom_events(rec):
    if rec.get("dom") is None:
        return None
    out = []
    for e in rec["dom"]:
        if e[0] == "E":
            out.append(("E", H(e[1]), [(H(a[0]), H(a[1])) for a in e[2]]))
        elif e[0] == "/":
            out.append(("/",))
        elif e[0] == "P":
            out.append(("P", H(e[1]), H(e[2])))
        else:
            out.append((e[0], H(e[1])))
    return out


def dom_diff_class(a, b):
    """first difference between two DOM-shaped event lists -> (index, class) or None"""
    for i, (x, y) in enumerate(zip(a, b)):
        if x == y:
            continue
        if x[0] != y[0]:
            return i, "structure-differs"
        if x[0] == "E":
            if x[1] != y[1]:
                return i, "element-name-differs"
            if [n for n, _ in x[2]] != [n for n, _ in y[2]]:
                return i, "attribute-name-differs"
            return i, "attribute-value-differs"
        return i, {"T": "text-differs", "C": "cdata-differs", "M": "comment-differs", "P": "pi-differs"}.get(x[0], "structure-differs")
    if len(a) != len(b):
        return min(len(a), len(b)), "structure-differs"
    return None


def shape_from_tokens(toks):
    """DOM-shaped events from pull tokens using iora's own decodeEntities results; None when a slice did not decode"""
    ev = []
    for k, nm, tx, at, dp, dec, _p, _l, _s in toks:
        if k in ("S", "M"):
            if any(a[2] is None for a in at):
                return None
            ev.append(("E", nm, [(a[0], a[2]) for a in at]))
            if k == "M":
                ev.append(("/",))
        elif k == "E":
            ev.append(("/",))
        elif k == "T":
            if dec is None:
                return None
            if dec:
                ev.append(("T", dec))
        elif k == "C":
            ev.append(("C", tx))
        elif k == "K":
            ev.append(("M", tx))
        elif k == "P":
            ev.append(("P", nm, tx))
    return ev


def nstream_from_tokens(toks, use_expected_dec=False):
    """normalised stream comparable with expat's; None when some slice has no XML meaning (python decoder)"""
    ev = []
    first = True
    for t in toks:
        k, nm, tx, at = t[0], t[1], t[2], t[3]
        if k in ("S", "M"):
            attrs = []
            for a in at:
                d = R.decode_refs(a[1])
                if d[0] != "ok":
                    return None
                attrs.append((a[0], d[1]))
            ev.append(("S", nm, attrs))
            if k == "M":
                ev.append(("E", nm))
        elif k == "E":
            ev.append(("E", nm))
        elif k == "T":
            d = R.decode_refs(tx)
            if d[0] != "ok":
                return None
            v = d[1].lstrip(R.XML_WS)
            if v:
                ev.append(("T", v))
        elif k == "C":
            ev.append(("C", tx))
        elif k == "K":
            ev.append(("M", tx))
        elif k == "P":
            if nm == b"xml" and first:
                pass
            else:
                ev.append(("P", nm, tx.lstrip(R.XML_WS)))
        first = False
    return ev


def nstream_diff_class(a, b):
    for i, (x, y) in enumerate(zip(a, b)):
        if x == y:
            continue
        if x[0] != y[0]:
            return i, "event-kind-differs"
        if x[0] == "S":
            if x[1] != y[1]:
                return i, "element-name-differs"
            if [n for n, _ in x[2]] != [n for n, _ in y[2]]:
                return i, "attribute-name-differs"
            return i, "attribute-value-differs"
        return i, {"E": "end-name-differs", "T": "text-differs", "C": "cdata-differs", "M": "comment-differs", "P": "pi-differs"}[x[0]]
    if len(a) != len(b):
        return min(len(a), len(b)), "event-count-differs"
    return None


def check_decoding(s, toks, rec, det, cls):
    """iora's decodeEntities result for every text / attribute slice against the independent decoder"""
    undefined_seen = False
    for k, nm, tx, at, dp, dec, _p, _l, _s in toks:
        slices = [("attribute", a[1], a[2]) for a in at] if k in ("S", "M") else ([("text", tx, dec)] if k == "T" else [])
        for what, raw, idec in slices:
            if b"&" not in raw:
                if idec != raw:
                    s.viol(f"C14:decode:{what}:plain-slice-altered", f"decodeEntities changed a {what} slice without references ({cls})", det(raw=raw[:200].hex()))
                continue
            s.obs("slices_with_references")
            py = R.decode_refs(raw)
            if py[0] == "ok":
                if idec is None:
                    s.viol(f"C14:decode:{what}:valid-reference-rejected", f"decodeEntities fails on a valid {what} slice {raw[:80]!r} ({cls})", det(raw=raw[:200].hex()))
                elif idec != py[1]:
                    sym = "charref:wrong-utf8" if b"&#" in raw else "entity:wrong-character"
                    s.viol(f"C14:decode:{what}:{sym}", f"decodeEntities({raw[:80]!r}) = {idec[:80]!r}, XML says {py[1][:80]!r} ({cls})", det(raw=raw[:200].hex()))
                else:
                    s.obs("references_decoded_correctly")
            elif py[0] == "undefined":
                undefined_seen = True
                s.obs("undefined_entity_slices")
                if idec is not None:
                    s.viol("C14:undefined-entity-expanded", f"decodeEntities accepted a {what} slice referencing the undefined/external entity &{py[1].decode('latin-1')}; -> {idec[:80]!r} ({cls})",
                           det(raw=raw[:200].hex()))
                else:
                    s.obs("undefined_entity_refused")
            else:
                if idec is not None:
                    s.obs("malformed_or_non_char_reference_accepted(not judged)")
    if undefined_seen and rec["acc"][2]:
        s.viol("C14:undefined-entity-expanded", f"DomBuilder accepted a document that references an undefined/external entity ({cls})", det())
    return undefined_seen


def check_common(s, rec, n, opts, cls, det, slow, line):
    """checks that apply to every record (generated or mutant, full or compact)"""
    acc = rec["acc"]
    s.obs("documents_parsed")
    s.obs("string_views_range_checked", rec["views"])
    if rec["err"] is not None and rec["err"][0] > n:
        s.viol("C14:cursor-past-end", f"error offset {rec['err'][0]} lies beyond the {n}-byte input ({cls}): {rec['err'][1]}", det())
    if rec["err"] is None and not rec["eof"]:
        s.viol("C14:pull:stopped-without-eof-or-error", f"next() returned false with neither an error nor an Eof token ({cls})", det())
    if acc[0] != acc[1]:
        s.viol("C14:pull-vs-sax:acceptance-differs", f"pull accepted={acc[0]} but runSax returned {acc[1]} ({cls})", det())
    elif not rec["saxsame"]:
        s.viol("C14:pull-vs-sax:events-differ", f"SAX callbacks (callback identity, token contents) differ from the pull token stream ({cls})", det())
    else:
        s.obs("sax_equals_pull")
    if rec["cpu"] > CPU_C0_NS + CPU_PER_BYTE_NS * n and slow is not None:
        slow.append((line, cls, n, rec["cpu"]))
    s.obs("accepted_by_pull" if acc[0] else "rejected_by_pull")


def check_emitted(s, ctoks, rec, opts, cls, det):
    """independent balance scanner + limit recomputation over the tokens iora emitted"""
    bl = R.balance_and_limits(ctoks)
    if rec["acc"][0]:
        s.obs("accepted_documents_scanned_for_balance")
        if not bl["balanced"]:
            s.viol("C14:accepted-unbalanced", f"accepted a document whose emitted tags do not balance: {bl['why']} ({cls})", det(why=bl["why"]))
        if not bl["depth_faithful"]:
            s.viol("C14:pull:depth-differs-from-nesting", f"token.depth differs from the nesting recomputed from the emitted start/end tags ({cls})", det())
        for f in G.LIMIT_FIELDS:
            lim = opts[f]
            if f == "tokens" and lim == 0:
                continue
            if bl[f] > lim:
                s.viol(f"C14:limit:{G.OPT_NAME[f]}:accepted-beyond-limit",
                       f"accepted a document needing {f}={bl[f]} with {G.OPT_NAME[f]}={lim} ({cls})", det(observed=bl[f], limit=lim))
            elif bl[f] == lim:
                s.obs(f"accepted_exactly_at_{f}_limit")
    return bl


def check_dom_vs_pull(s, rec, toks, cls, det):
    if rec["domsame"]:
        s.obs("dom_consistent_with_pull")
        return
    acc = rec["acc"]
    expect_acc = bool(acc[0]) and not rec["decfail"]
    if bool(acc[2]) != expect_acc:
        s.viol("C14:pull-vs-dom:acceptance-differs",
               f"DomBuilder accepted={acc[2]} but pull accepted={acc[0]} with all slices decodable={not rec['decfail']} ({cls}); dom error {rec.get('derr')!r}", det())
        return
    cls2 = "tree-differs"
    if toks is not None:
        shape, dom = shape_from_tokens(toks), dom_events(rec)
        if shape is not None and dom is not None:
            d = dom_diff_class(shape, dom)
            if d:
                cls2 = d[1]
    s.viol(f"C14:pull-vs-dom:{cls2}", f"DOM tree differs from the pull tokens decoded with decodeEntities ({cls})", det())


def first_pull_diff(exp, got):
    """exp: generator events (kind,name,text,attrs[(n,raw,dec)],depth,dec); got: full tokens. -> (i, key-suffix, what) or None"""
    for i, (e, g) in enumerate(zip(exp, got)):
        ek, en, et, ea, ed, edec = e
        gk, gn, gt, ga, gd, gdec, gp, gl, gs = g
        kn = KINDNAME.get(ek, ek)
        if ek != gk:
            return i, "pull:kind-differs", f"token {i}: expected {kn} got {KINDNAME.get(gk, gk)}"
        if en != gn:
            return i, f"pull:{kn}:name-differs", f"token {i} ({kn}): name expected {en!r} got {gn!r}"
        if et != gt:
            return i, f"pull:{kn}:slice-differs", f"token {i} ({kn}): text slice expected {et[:80]!r} got {gt[:80]!r}"
        if len(ea) != len(ga):
            return i, "pull:attribute:count-differs", f"token {i} ({kn}): {len(ea)} attributes expected, {len(ga)} reported"
        for (an, ar, ad), (bn, br, bd) in zip(ea, ga):
            if an != bn:
                return i, "pull:attribute:name-differs", f"token {i}: attribute name expected {an!r} got {bn!r}"
            if ar != br:
                return i, "pull:attribute:value-slice-differs", f"token {i}: attribute {an!r} value slice expected {ar[:80]!r} got {br[:80]!r}"
            if bd is None:
                return i, "decode:attribute:valid-reference-rejected", f"token {i}: decodeEntities fails on attribute value {ar[:80]!r}"
            if ad != bd:
                return i, "decode:attribute:" + ("charref:wrong-utf8" if b"&#" in ar else "entity:wrong-character"), \
                    f"token {i}: attribute {an!r} decodes to {bd[:80]!r}, built from {ad[:80]!r}"
        if ed != gd:
            return i, "pull:depth-differs", f"token {i} ({kn}): depth expected {ed} got {gd}"
        if ek == "T":
            if gdec is None:
                return i, "decode:text:valid-reference-rejected", f"token {i}: decodeEntities fails on text {et[:80]!r}"
            if edec != gdec:
                return i, "decode:text:" + ("charref:wrong-utf8" if b"&#" in et else "entity:wrong-character"), \
                    f"token {i}: text decodes to {gdec[:80]!r}, built from {edec[:80]!r}"
        if ek in ("S", "E", "M", "P"):
            c = gn.find(b":")
            want = (b"", gn) if c < 0 else (gn[:c], gn[c + 1:])
            if (gp, gl) != want:
                return i, "pull:splitQName-differs", f"token {i}: splitQName({gn!r}) = ({gp!r}, {gl!r})"
        if bool(gs) != (ek == "M"):
            return i, "pull:selfClosing-flag-wrong", f"token {i} ({kn}): selfClosing={gs}"
    if len(exp) != len(got):
        i = min(len(exp), len(got))
        more = exp[i] if len(exp) > len(got) else got[i]
        return i, "pull:token-count-differs", f"{len(exp)} tokens expected, {len(got)} reported; first surplus/missing: {KINDNAME.get(more[0], more[0])} {more[1][:40]!r} {more[2][:40]!r}"
    return None


def expected_dom(doc):
    return [tuple(e) for e in doc.dom]


def judge_generated(s, doc, rec, line, slow):
    det = lambda **kw: dict(case=line[:20000], document=doc.data[:600].decode("utf-8", "replace"), features=doc.feat, **kw)
    cls = "generated"
    n = len(doc.data)
    check_common(s, rec, n, G.DEFAULT_OPTS, cls, det, slow, line)
    acc = rec["acc"]
    toks = full_tokens(rec)
    if "bom" in doc.feat:
        s.obs("documents_with_bom")
        if toks and toks[0][0] == "T" and toks[0][2].startswith(BOM):
            s.viol("C14:bom:reported-as-text", f"the UTF-8 byte order mark is reported as character data: first token is Text {toks[0][2][:20]!r} (pull, SAX and DOM alike)", det())
            # judge the rest of the document without the spurious token / node
            toks = toks[1:]
            rec = dict(rec, dom=(rec["dom"][1:] if rec.get("dom") and rec["dom"][0][0] == "T" else rec.get("dom")))
    if "doctype:delimiters-in-literals" in doc.feat:
        s.obs("doctype_with_delimiters_in_literals")
        want = [e[2] for e in doc.pull if e[0] == "D"]
        got = [t[2] for t in toks if t[0] == "D"]
        if want and got[:1] != want[:1]:
            s.viol("C14:pull:doctype:slice-differs",
                   f"DOCTYPE declaration mis-delimited: reported slice ({len(got[0]) if got else 0} bytes) ...{got[0][-60:] if got else None!r}, the declaration is "
                   f"({len(want[0])} bytes) ...{want[0][-60:]!r}; parse outcome: accepted={acc} error={rec['err']}", det())
            return
    if not acc[0]:
        s.viol("C14:pull:wellformed-rejected:" + slug(rec["err"][1] if rec["err"] else "no-error"),
               f"well-formed document rejected by the pull parser at offset {rec['err'][0] if rec['err'] else '?'}: {rec['err'][1] if rec['err'] else ''}", det())
    d = first_pull_diff(doc.pull, toks) if acc[0] else None
    if d:
        s.viol("C14:" + d[1], "pull tokens differ from the generating tree: " + d[2], det(token_index=d[0]))
    elif acc[0]:
        s.obs("pull_equals_generating_tree")
    check_decoding(s, toks, rec, det, cls)
    check_emitted(s, compact_of_full(toks), rec, G.DEFAULT_OPTS, cls, det)
    # DOM against the generating tree and against the pull tokens
    if acc[0] and not acc[2]:
        s.viol("C14:dom:wellformed-rejected:" + slug(rec.get("derr")), f"well-formed document rejected by DomBuilder: {rec.get('derr')}", det())
    elif acc[2]:
        dd = dom_diff_class(expected_dom(doc), dom_events(rec))
        if dd:
            s.viol("C14:dom:" + dd[1], f"DOM differs from the generating tree at event {dd[0]}", det(event_index=dd[0]))
        else:
            s.obs("dom_equals_generating_tree")
    check_dom_vs_pull(s, rec, toks, cls, det)
    # oracle 2: expat
    try:
        ex, _dt_at = R.expat_stream(doc.data)
    except R.ExpatReject as e:
        s.inconcl(f"generator produced a document expat rejects ({e}): {doc.data[:200]!r}")
        return
    gen_stream = nstream_from_tokens([(k, nm, tx, at, dp, dec, b"", b"", 0) for k, nm, tx, at, dp, dec in doc.pull])
    if gen_stream is None or nstream_diff_class(gen_stream, ex):
        s.inconcl(f"generating tree and expat disagree ({nstream_diff_class(gen_stream, ex) if gen_stream else 'undecodable'}): {doc.data[:200]!r}")
        return
    s.obs("expat_agrees_with_generating_tree")
    if acc[0]:
        ns = nstream_from_tokens(toks)
        if ns is not None:
            dd = nstream_diff_class(ns, ex)
            if dd:
                s.viol("C14:vs-expat:" + dd[1], f"pull tokens differ from expat's events at event {dd[0]}", det(event_index=dd[0]))
            else:
                s.obs("iora_equals_expat")


def judge_arbitrary(s, data, rec, opts, cls, full, line, slow):
    det = lambda **kw: dict(case=line[:20000], input_class=cls, options=G.opts_str(opts), **kw)
    n = len(data)
    check_common(s, rec, n, opts, cls, det, slow, line)
    toks = full_tokens(rec) if full else None
    if full or rec["acc"][0]:
        ctoks = compact_of_full(toks) if full else compact_tokens(rec.get("ctok", ""))
        if len(ctoks) != rec["ntok"]:
            s.inconcl(f"token stream of case truncated? {len(ctoks)} vs {rec['ntok']}")
        check_emitted(s, ctoks, rec, opts, cls, det)
    check_dom_vs_pull(s, rec, toks, cls, det)
    if not full:
        return
    undefined = check_decoding(s, toks, rec, det, cls)
    # oracle 2 on documents both accept
    if not rec["acc"][0]:
        return
    try:
        ex, dt_at = R.expat_stream(data)
    except R.ExpatReject:
        s.obs("iora_accepts_expat_rejects(not judged)")
        return
    if data.startswith(BOM) and toks and toks[0][0] == "T" and toks[0][2].startswith(BOM):
        s.viol("C14:bom:reported-as-text", f"the UTF-8 byte order mark is reported as character data: first token is Text {toks[0][2][:20]!r} ({cls})", det())
        return
    if R.has_non_ascii_names(ex):
        s.obs("expat_comparison_skipped_non_ascii_names")      # outside the supported subset (ASCII names)
        return
    if doctype_misread(s, data, dt_at, toks, cls, det):
        return
    raws = [tx for t in toks for tx in [t[2]]] + [a[1] for t in toks for a in t[3]]
    if any(b"\r" in r for r in raws) or any(b"\t" in a[1] or b"\n" in a[1] for t in toks for a in t[3]):
        s.obs("expat_comparison_skipped_normalisation")
        return
    if b"<!ENTITY" in data or b"<!ATTLIST" in data:
        # expat applies internal-subset declarations (entity expansion, attribute types/defaults): outside the subset
        if undefined or b"<!ATTLIST" in data:
            s.obs("expat_comparison_skipped_dtd")
            return
    ns = nstream_from_tokens(toks)
    if ns is None:
        s.obs("expat_comparison_skipped_undecodable")
        return
    dd = nstream_diff_class(ns, ex)
    if dd:
        s.viol("C14:vs-expat:" + dd[1], f"both accept, but pull tokens differ from expat's events at event {dd[0]} ({cls})", det(event_index=dd[0]))
    else:
        s.obs("mutants_both_accept_and_agree")


def doctype_misread(s, data, dt_at, toks, cls, det):
    """iora's Doctype token against a literal-aware scan of the declaration (document known to be well-formed)"""
    want = R.doctype_slice(data, dt_at)
    if want is None:
        return False
    got = [t[2] for t in toks if t[0] == "D"]
    if got and got[0] == want:
        s.obs("doctype_extent_correct")
        return False
    s.viol("C14:pull:doctype:slice-differs",
           f"DOCTYPE declaration mis-delimited ({cls}): reported slice ({len(got[0]) if got else 0} bytes) ...{got[0][-60:] if got else None!r}, the declaration is ({len(want)} bytes) ...{want[-60:]!r}", det())
    return True


def rerun_slow(s, binary, tmp, slow, tag):
    for line, cls, n, cpu in slow[:20]:
        best = cpu
        for k in range(3):
            recs, evs = SH.run_cases(binary, [line], tmp, f"{tag}-slow{k}", timeout=300)
            if 0 in recs:
                best = min(best, recs[0]["cpu"])
        if best > CPU_C0_NS + CPU_PER_BYTE_NS * n:
            s.viol(f"C14:steps:superlinear:{cls}", f"parsing a {n}-byte {cls} input took {best} ns CPU (guard {CPU_C0_NS}+{CPU_PER_BYTE_NS}*n), reproduced 3x in isolation",
                   dict(case=line[:20000], n=n, cpu_ns=best))
        else:
            s.obs("cpu_guard_not_reproduced")


def finish_shard(s, binary, tmp, tag, lines, events, slow, describe):
    def rerun(k):
        return SH.run_cases(binary, [lines[k]], tmp, f"{tag}-iso", timeout=300, extra_args=["--stuck-cpu-s", 30])
    SH.handle_events(s, PROP, events, lines, describe, rerun)
    rerun_slow(s, binary, tmp, slow, tag)
    s.d["flavors"].add(vf.flavor_of(binary))


# ------------------------------------------------------------------------------- shards
def shard_generated(binary, seed, idx, count, tmp, sweep_every=5):
    rng = random.Random((seed << 20) ^ (idx * 7919 + 11))
    s = SH.S()
    docs = [G.gen_doc(rng) for _ in range(count)]
    lines = [x_line(True, G.DEFAULT_OPTS, d.data) for d in docs]
    # limit sweeps: every sweep_every-th document under each limit at 0 / 1 / exact / exact+1 (compact mode) + a compact baseline
    sweeps = []     # (line index, doc index, field, value)
    flags = []      # (line index, doc index)
    base_idx = {}
    for di in range(0, count, sweep_every):
        d = docs[di]
        if "doctype:delimiters-in-literals" in d.feat or "bom" in d.feat:
            continue        # judged on their own (doctype extent); a mis-delimited DOCTYPE makes every other expectation moot
        base_idx[di] = len(lines)
        lines.append(x_line(False, G.DEFAULT_OPTS, d.data))
        for f in G.LIMIT_FIELDS:
            for v in sorted(set([0, 1, d.needs[f], d.needs[f] + 1, max(0, d.needs[f] - 1)])):
                sweeps.append((len(lines), di, f, v))
                lines.append(x_line(False, dict(G.DEFAULT_OPTS, **{f: v}), d.data))
        # the two boolean options (permissive, namespaceProcessing) must not change what is reported for a well-formed document
        flags.append((len(lines), di))
        lines.append(x_line(False, dict(G.DEFAULT_OPTS, permissive=1, ns=0), d.data))
    # undefined / external entity documents
    und = []
    for _ in range(max(20, count // 50)):
        data, meta = G.gen_undefined_entity_doc(rng)
        und.append((len(lines), data, meta))
        lines.append(x_line(True, G.DEFAULT_OPTS, data))
    recs, events = SH.run_cases(binary, lines, tmp, f"gen{idx}")
    slow = []
    for i, d in enumerate(docs):
        rec = recs.get(i)
        if rec is None:
            continue
        judge_generated(s, d, rec, lines[i], slow)
        for f in d.feat:
            s.obs("feature:" + f.split(":")[0])
        s.case(sig=["gen", d.feat], sample=dict(kind="generated", document=d.data[:300].decode("utf-8", "replace"), tokens=len(d.pull)))
    for li, di, f, v in sweeps:
        rec, base = recs.get(li), recs.get(base_idx[di])
        if rec is None or base is None:
            continue
        d = docs[di]
        need = d.needs[f]
        opts = dict(G.DEFAULT_OPTS, **{f: v})
        det = lambda **kw: dict(case=lines[li][:20000], document=d.data[:600].decode("utf-8", "replace"), needs=d.needs, field=f, value=v, **kw)
        unbounded = f == "tokens" and v == 0
        within = unbounded or v >= need
        rel = "unbounded" if unbounded else "exact" if v == need else "exact+1" if v == need + 1 else ("below" if v < need else "above")
        s.obs(f"sweep_{f}_{rel}")
        acc = rec["acc"]
        check_common(s, rec, len(d.data), opts, "sweep", det, slow, lines[li])
        if acc[0]:
            check_emitted(s, compact_tokens(rec.get("ctok", "")), rec, opts, "sweep", det)
        if within:
            if not (acc[0] and acc[1] and acc[2]):
                msg = rec["err"][1] if rec["err"] else (rec.get("derr") or "")
                if f == "tokens" and v == need and rec["ntok"] == need and "token limit" in msg:
                    s.viol("C14:limit:maxTotalTokens:exact-count-rejected-at-eof",
                           f"a well-formed document of exactly maxTotalTokens={v} tokens is reported completely and then rejected with '{msg}' instead of Eof", det())
                else:
                    s.viol(f"C14:limit:{G.OPT_NAME[f]}:within-limit-rejected",
                           f"well-formed document needing {f}={need} rejected with {G.OPT_NAME[f]}={v}: {msg} (accepted pull/sax/dom={acc})", det(message=msg))
            elif rec.get("ctok") != base.get("ctok"):
                s.viol(f"C14:limit:{G.OPT_NAME[f]}:events-change-with-limit", f"token stream under {G.OPT_NAME[f]}={v} differs from the stream under default options", det())
            else:
                s.obs("sweep_within_limit_accepted_identically")
        else:
            if acc[0] or acc[1] or acc[2]:
                s.viol(f"C14:limit:{G.OPT_NAME[f]}:accepted-beyond-limit",
                       f"document needing {f}={need} accepted (pull/sax/dom={acc}) with {G.OPT_NAME[f]}={v}", det())
            else:
                s.obs("sweep_beyond_limit_rejected")
        s.case(sig=["sweep", f, rel, acc])
    for li, di in flags:
        rec, base = recs.get(li), recs.get(base_idx[di])
        if rec is None or base is None:
            continue
        d = docs[di]
        s.obs("option_flag_runs")
        if rec["acc"] != base["acc"] or rec.get("ctok") != base.get("ctok"):
            s.viol("C14:options:flags-change-events", "permissive=true/namespaceProcessing=false changes the tokens reported for a well-formed document",
                   dict(case=lines[li][:20000], document=d.data[:600].decode("utf-8", "replace")))
    for li, data, meta in und:
        rec = recs.get(li)
        if rec is None:
            continue
        det = lambda **kw: dict(case=lines[li][:20000], document=data.decode(), **kw)
        toks = full_tokens(rec)
        s.obs("undefined_entity_documents")
        check_common(s, rec, len(data), G.DEFAULT_OPTS, "undefined-entity", det, slow, lines[li])
        if not check_decoding(s, toks, rec, det, "undefined-entity:" + meta["declared"]):
            s.inconcl("undefined-entity document without an undefined entity slice?")
        # no reported string may contain the replacement text or file contents
        blob = json.dumps([t for t in rec["tok"] if G.KIND.get(t[0]) != "D"]) + json.dumps(rec.get("dom"))
        if b"EXPANDED-".hex() in blob:
            s.viol("C14:undefined-entity-expanded", "replacement text of a DTD-declared entity appears in the reported events", det())
        check_dom_vs_pull(s, rec, toks, "undefined-entity", det)
        s.case(sig=["undefined-entity", meta["declared"], meta["where"], rec["acc"]])
    finish_shard(s, binary, tmp, f"gen{idx}", lines, events, slow, lambda k: "generated" if k < count else "sweep/undefined-entity")
    return s.d


def shard_mutants(binary, seed, idx, count, tmp, full_fraction=0.2):
    rng = random.Random((seed << 20) ^ (idx * 15485863 + 13))
    s = SH.S()
    docs = [G.gen_doc(rng) for _ in range(150)]
    cases = []
    for i in range(count):
        data, mut = G.mutate(rng, docs)
        if rng.random() < full_fraction:
            cases.append((data, mut, G.DEFAULT_OPTS, True))
        else:
            for o in OPTSETS:
                cases.append((data, mut, o, False))
    lines = [x_line(full, o, data) for data, mut, o, full in cases]
    recs, events = SH.run_cases(binary, lines, tmp, f"mut{idx}")
    slow = []
    for i, (data, mut, o, full) in enumerate(cases):
        rec = recs.get(i)
        if rec is None:
            continue
        judge_arbitrary(s, data, rec, o, "mutant:" + mut, full, lines[i], slow)
        s.obs("mutator:" + mut)
        s.obs("mutant_parses_full" if full else "mutant_parses_compact")
        s.case(sig=["mutant", mut, rec["acc"], slug(rec["err"][1]) if rec["err"] else "", o is not G.DEFAULT_OPTS],
               sample=dict(kind="mutant", mutator=mut, input=data[:160].decode("utf-8", "replace"), accepted=rec["acc"]))
    finish_shard(s, binary, tmp, f"mut{idx}", lines, events, slow, lambda k: "mutant:" + cases[k][1] if k < len(cases) else "?")
    return s.d


def shard_big(binary, seed, idx, sizes, tmp):
    s = SH.S()
    fam = G.big_inputs(sizes)
    opts = dict(G.DEFAULT_OPTS, depth=5000, attrs=10 ** 9, name=10 ** 9, text=10 ** 9)
    cases = [(data, "big:" + name, opts if name not in ("open-tags",) else G.DEFAULT_OPTS) for name, n, data in fam]
    lines = [x_line(False, o, data) for data, cls, o in cases]
    recs, events = SH.run_cases(binary, lines, tmp, f"big{idx}", timeout=1200)
    slow = []
    for i, (data, cls, o) in enumerate(cases):
        rec = recs.get(i)
        if rec is None:
            continue
        judge_arbitrary(s, data, rec, o, cls, False, lines[i], slow)
        s.obs("big_inputs")
        s.obs_max("big_input_max_bytes", len(data))
        s.obs_max("big_input_ns_per_byte_x1000", int(rec["cpu"] * 1000 / max(1, len(data))))
        s.case(sig=["big", cls, len(data), rec["acc"]])
    finish_shard(s, binary, tmp, f"big{idx}", lines, events, slow, lambda k: cases[k][1] if k < len(cases) else "?")
    return s.d


# libFuzzer (thorough) ---------------------------------------------------------------------------
def run_fuzz(ctx, runs_per_job, jobs):
    fb = vf.build("c14_xml", "fuzz", FUZZ_FLAGS)
    d = os.path.join(ctx.tmp, "fuzz")
    corpus = os.path.join(d, "corpus")
    os.makedirs(corpus, exist_ok=True)
    rng = random.Random(ctx.seed ^ 0xF14)
    docs = [G.gen_doc(rng) for _ in range(200)]
    for i, doc in enumerate(docs):
        with open(os.path.join(corpus, "s%04d" % i), "wb") as fh:
            fh.write(doc.data[:4096])
    for i in range(100):
        with open(os.path.join(corpus, "m%04d" % i), "wb") as fh:
            fh.write(G.mutate(rng, docs)[0][:4096])
    with open(os.path.join(d, "xml.dict"), "w") as fh:
        for t in G.DICT:
            if all(0x20 <= c < 0x7f and c not in b'"\\' for c in t):
                fh.write('"%s"\n' % t.decode())
    env = {"VF_FUZZ_VIOL": os.path.join(d, "viol")}
    workers = min(jobs, vf.NCPU)
    args = [f"-runs={runs_per_job}", f"-jobs={jobs}", f"-workers={workers}", "-max_len=1024", f"-seed={ctx.seed}",
            f"-artifact_prefix={d}/artifact-", "-print_final_stats=1", "-timeout=25", "-rss_limit_mb=2048", f"-dict={d}/xml.dict", corpus]
    rr = vf.run_harness(fb, args, timeout=3000, env_extra=env, cwd=d, parse_stdout=False)
    ctx.flavors.add("fuzz")
    execs = 0
    logs = ""
    for f in sorted(os.listdir(d)):
        if f.startswith("fuzz-") and f.endswith(".log"):
            with open(os.path.join(d, f), "r", errors="replace") as fh:
                t = fh.read()
            logs += t
            for m in re.finditer(r"stat::number_of_executed_units:\s*(\d+)", t):
                execs += int(m.group(1))
    ctx.obs("fuzz_executions", execs)
    ctx.evaluations += execs
    for rep in vf.parse_sanitizer(logs + "\n" + rr.err):
        ctx.san_reports += 1
        ctx.violation(f"C14:san:{rep['key']}", f"sanitizer report {rep['key']} under libFuzzer",
                      dict(text=rep["text"][:4000], artifacts=[a for a in os.listdir(d) if a.startswith("artifact-")][:5]))
    if "ERROR: libFuzzer: timeout" in logs:
        ctx.violation("C14:nontermination:libfuzzer-timeout", "libFuzzer reported a unit exceeding its 25 s timeout", dict(log=logs[-2000:]))
    for f in os.listdir(d):
        if f.startswith("viol."):
            with open(os.path.join(d, f)) as fh:
                for ln in fh:
                    try:
                        r = json.loads(ln)
                    except ValueError:
                        continue
                    ctx.violation(r["key"], "libFuzzer in-process assertion: " + r["what"], r.get("detail"))
    if rr.timed_out:
        ctx.inconcl("libFuzzer run hit the outer watchdog")
    if execs == 0:
        ctx.inconcl("libFuzzer executed nothing: " + (rr.err[-300:] or logs[-300:]))


# ------------------------------------------------------------------------------- entry points
def run(ctx):
    thorough = ctx.tier == "thorough"
    binary = vf.build("c14_xml", "asan", ASAN_FLAGS)
    if thorough:
        vf.build("c14_xml", "fuzz", FUZZ_FLAGS)
    scale = int(os.environ.get("VF_THOROUGH_SCALE", "20")) if thorough else 1      # thorough = quick counts x20 by default (x100 measured at 60-70 min on the shared machine; VF_THOROUGH_SCALE overrides) + libFuzzer
    n_docs, n_mut = 10000 * scale, 100000 * scale
    jobs = []
    k = 0
    per = 1250 if not thorough else 10000
    for off in range(0, n_docs, per):
        jobs.append((shard_generated, dict(binary=binary, seed=ctx.seed, idx=k, count=min(per, n_docs - off), tmp=ctx.tmp,
                                           sweep_every=5 if not thorough else 20))); k += 1
    mper = 12500 if not thorough else 50000
    for off in range(0, n_mut, mper):
        jobs.append((shard_mutants, dict(binary=binary, seed=ctx.seed, idx=k, count=min(mper, n_mut - off), tmp=ctx.tmp,
                                         full_fraction=0.2 if not thorough else 0.05))); k += 1
    sizes = [1 << 14, 1 << 16, 1 << 18] + ([1 << 20, 1 << 22] if thorough else [])
    jobs.insert(0, (shard_big, dict(binary=binary, seed=ctx.seed, idx=k, sizes=sizes, tmp=ctx.tmp))); k += 1
    summaries = SH.run_pool(jobs)
    SH.merge(ctx, summaries)
    if thorough:
        run_fuzz(ctx, 150000, 16)        # bounded by executions (-runs), not by time
    ctx.rule = ("documents = random trees (ASCII QNames with prefixes/xmlns, attributes in both quote styles with whitespace around '=', text with "
                "entity and decimal/hex character references incl. astral code points and referenced whitespace, CDATA, comments, PIs, XML declaration, "
                "DOCTYPE with SYSTEM/PUBLIC ids and internal subset, misc outside the root, formatting whitespace) checked against the generating tree and expat; "
                "limit sweeps = every 5th document under each of the five limits at 0/1/need-1/need/need+1; undefined/external entity documents; "
                "mutants = 20 byte-level and tag-aware mutators, each parsed under 4 option sets (compact) or under the defaults with full streams + expat; "
                "distinct = hash of (surface features used) / (limit, relation, acceptance) / (mutator, acceptance per API, iora's error message, option set)")
    ctx.assumptions = [
        "supported subset as documented in xml.hpp: UTF-8, ASCII names, predefined entities + numeric character references, no DTD processing",
        "normalisation fixed in DESIGN §3 C14: iora skips XML whitespace before each token, so text is compared after stripping leading literal whitespace and "
        "whitespace-only text is absent; <?xml ...?> is reported as a PI; (added) the whitespace between a PI target and its data is part of iora's raw PI slice and is "
        "ignored when comparing with expat; DOM has no doctype node",
        "generated documents avoid surface forms whose meaning depends on XML's own normalisation (literal CR in content, literal TAB/LF in attribute values, adjacent text nodes); "
        "mutants containing them are not compared with expat",
        "acceptance = pull loop ended with an Eof token and no error / runSax returned true / DomBuilder returned a document; multiple roots, text outside the root and other "
        "over-acceptance are not judged (the property only demands balance, limits, containment)",
        "references that are malformed or denote non-Char code points (&#0;, &#x110000;, &#4294967361; wraps to 'A') are counted when iora decodes them, not judged",
        "cost guard is thread CPU time (no hardware instruction counter in this VM): >40 ms + 20 us/byte for pull+SAX+DOM, reproduced as best-of-3 in isolation",
    ]
    ctx.require_obs("documents_parsed", "pull_equals_generating_tree", "dom_equals_generating_tree", "sax_equals_pull", "iora_equals_expat",
                    "expat_agrees_with_generating_tree", "references_decoded_correctly", "undefined_entity_refused", "undefined_entity_documents",
                    "accepted_documents_scanned_for_balance", "string_views_range_checked", "sweep_depth_exact", "sweep_depth_below", "sweep_attrs_exact",
                    "sweep_name_exact", "sweep_name_below", "sweep_text_exact", "sweep_tokens_exact", "sweep_tokens_below", "sweep_tokens_exact+1",
                    "sweep_beyond_limit_rejected", "sweep_within_limit_accepted_identically", "mutator:rename-end-tag-same-length", "mutator:delete-end-tag",
                    "mutator:truncate+unterminated-construct", "mutator:nesting-bomb", "mutants_both_accept_and_agree", "big_inputs", "feature:ref", "feature:cdata",
                    "feature:doctype", "feature:xmldecl", "option_flag_runs", "documents_with_bom", "doctype_with_delimiters_in_literals")
    if thorough:
        ctx.require_obs("fuzz_executions")


def replay(ctx, path):
    with open(path) as fh:
        rep = json.load(fh)
    det = (rep.get("first") or {}).get("detail") or {}
    line = det.get("case")
    if not line:
        hx = det.get("input_hex")
        if hx:
            line = "X f " + (det.get("options") or G.opts_str(G.DEFAULT_OPTS)) + " " + hx
    if not line:
        ctx.inconcl("replay file carries no case line")
        return
    binary = vf.build("c14_xml", "asan", ASAN_FLAGS)
    s = SH.S()
    recs, events = SH.run_cases(binary, [line], ctx.tmp, "replay")
    parts = line.split(" ")
    o = dict(zip(("permissive", "ns", "depth", "attrs", "name", "text", "tokens"), (int(x) for x in parts[2].split(","))))
    if 0 in recs:
        judge_arbitrary(s, bytes.fromhex(parts[3]) if len(parts) > 3 else b"", recs[0], o, det.get("input_class", "replay"), parts[1] == "f", line, [])
        print(json.dumps(recs[0])[:3000])
    SH.handle_events(s, PROP, events, [line], lambda k: "replay")
    s.case(sig="replay")
    SH.merge(ctx, [s.d])
