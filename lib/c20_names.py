# /verif/lib/c20_names.py — directory tree builder, traversal-aware name generator/mutator and the OS-based
# oracle for C20 (stdlib only). Nothing here knows how iora normalises a path: the oracle identifies the file a
# result came from by its (unique) content and asks the OS (os.lstat / os.path.realpath) where that file lives.
import os, random

FNV_OFF, FNV_PRIME, MASK = 1469598103934665603, 1099511628211, (1 << 64) - 1


def fnv64(b):
    h = FNV_OFF
    for c in b:
        h = ((h ^ c) * FNV_PRIME) & MASK
    return "%016x" % h


class Tree:
    """
    case/
      secret/secret.txt, secret/dir/inner.txt, secret/a.txt      outside every root
      root/                   asset root handed to Assets::fromDirectory
        static/ ...           static root          static-evil/, staticX/      sibling-prefix directories
        templates/ ...        template root        templates_old/
      (root/ and ext/ live under case/site/, so a case-variant ANCESTOR case/SITE/... can exist next to them)
      ext/ ...                EXTERNAL_DIR of the embedded registry            ext-evil/
      next to every root: directories whose path is "nearly" the root's (Tree.near): case variants of the last
      component (STATIC, Static), of an ancestor (SITE/root/static, site/ROOT/static), suffix siblings (xstatic,
      my-static), trailing dot / space (static., "static "), a Unicode lookalike; each holds token files and is
      reachable through file and directory symlinks placed inside the root
    """

    def __init__(self, case_dir, rng):
        self.case = case_dir
        self.rng = rng
        self.root = os.path.join(case_dir, "site", "root")
        self.ext = os.path.join(case_dir, "site", "ext")
        self.near = {}          # absolute path of an outside directory whose path is "nearly" a root -> kind
        self.secret = os.path.join(case_dir, "secret", "secret.txt")
        self.by_id = {}         # (len, fnv) -> absolute path of the file whose content that is
        self.content = {}       # absolute path -> bytes
        self.files = {}         # lookup root -> [relative names of regular files below it]
        self.links = {}         # lookup root -> [relative names of symlinks below it]
        self.dirs = {}          # lookup root -> [relative names of directories]
        self.nonce = "%016x" % rng.getrandbits(64)
        self.secret_token = ("SECRET-TOKEN-" + self.nonce).encode()
        self.fifo_token = ("VF20|FIFO-TOKEN-" + self.nonce + "|").encode()   # what the harness feeder writes into any pipe somebody reads
        self.fifos = []         # absolute paths of every named pipe in the tree
        self.specials = {}      # lookup root -> [relative names of FIFOs / sockets]
        self.build()

    # ---- construction
    def _file(self, path, extra=b"", size=0):
        os.makedirs(os.path.dirname(path), exist_ok=True)
        rel = os.path.relpath(path, self.case)
        body = b"VF20|" + os.fsencode(rel) + b"|" + self.nonce.encode() + b"|" + extra + b"\n"
        if size > len(body):
            body += bytes((i * 31 + len(rel)) & 0xFF for i in range(size - len(body)))
        with open(path, "wb") as fh:
            fh.write(body)
        self.content[path] = body
        self.by_id[(len(body), fnv64(body))] = path
        return body

    def _link(self, path, target):
        os.makedirs(os.path.dirname(path), exist_ok=True)
        os.symlink(target, path)

    def _fifo(self, path):
        os.makedirs(os.path.dirname(path), exist_ok=True)
        os.mkfifo(path)
        self.fifos.append(path)

    def _sock(self, path):
        import socket
        os.makedirs(os.path.dirname(path), exist_ok=True)
        s = socket.socket(socket.AF_UNIX, socket.SOCK_STREAM)
        cwd = os.getcwd()
        try:
            os.chdir(os.path.dirname(path))          # sun_path is limited to 108 bytes
            s.bind(os.path.basename(path))
        finally:
            os.chdir(cwd)
            s.close()                                # the socket file stays

    def _populate(self, base, kind, sibling):
        """one lookup root (static / templates / ext) with the same hostile furniture"""
        rng = self.rng
        F, L = self._file, self._link
        j = lambda *p: os.path.join(base, *p)
        ext = ".html" if kind == "templates" else ".txt"
        F(j("a" + ext)); F(j("index.html")); F(j("app.js")); F(j("css", "site.css")); F(j("css", "deep", "er", "x.css"))
        F(j("name with space" + ext)); F(j(".hidden")); F(j("dir" + ext, "inner" + ext)); F(j("UPPER.TXT")); F(j("café" + ext))
        F(j("%2e%2e", "pct" + ext)); F(j("%2e%2e%2fsecret" + ext)); F(j("...", "dots" + ext)); F(j("..a", "x" + ext)); F(j("a..", "y" + ext))
        F(j("back\\slash" + ext)); F(j("big.bin"), size=70000 + rng.randrange(5000)); F(j("empty-ish")); F(j("x" * 255))
        F(j("b" + ext)); F(j("b" + ext + ".gz"), extra=b"gzip-variant")
        F(j("c" + ext))
        # symlinks that stay inside
        L(j("link_in" + ext), "a" + ext)
        L(j("link_in_abs" + ext), j("css", "site.css"))
        L(j("linkdir_in"), "css")
        L(j("css", "up"), "..")
        L(j("link_chain_in"), "link_in" + ext)
        # symlinks that lead outside this root
        L(j("link_out" + ext), os.path.relpath(self.secret, base))
        L(j("link_out_abs" + ext), self.secret)
        L(j("linkdir_out"), os.path.relpath(os.path.dirname(self.secret), base))
        L(j("linkdir_out_abs"), os.path.dirname(self.secret))
        L(j("link_chain_out"), "link_out" + ext)
        L(j("css", "link_out.css"), os.path.relpath(self.secret, j("css")))
        L(j("link_sibling"), os.path.join("..", sibling))
        L(j("link_parent"), "..")
        L(j("link_case"), self.case)
        L(j("link_fsroot"), "/")
        L(j("link_etc"), "/etc/hostname")
        L(j("c" + ext + ".gz"), self.secret)                 # gzip sibling that is a symlink to the secret
        L(j("dangling"), "no-such-target")
        L(j("dangling_out"), os.path.join(os.path.dirname(self.secret), "not-yet"))
        L(j("loop"), "loop")
        # objects that are neither regular files nor directories, their aliases and their .gz siblings
        P, S = self._fifo, self._sock
        P(j("pipe" + ext)); P(j("css", "pipe.css")); S(j("sock" + ext))
        L(j("link_fifo" + ext), "pipe" + ext); L(j("link_fifo_abs" + ext), j("css", "pipe.css")); L(j("link_sock" + ext), "sock" + ext)
        L(j("link_devnull" + ext), "/dev/null"); L(j("link_devzero" + ext), "/dev/zero"); L(j("link_devdir"), "/dev")
        F(j("pipe" + ext + ".gz"), extra=b"regular gz sibling of a pipe")      # pipe.txt + pipe.txt.gz (regular)
        F(j("d" + ext)); P(j("d" + ext + ".gz"))                                # regular file whose .gz sibling is a pipe
        F(j("e" + ext)); L(j("e" + ext + ".gz"), "pipe" + ext)                 # ... is a symlink to a pipe
        F(j("f" + ext)); os.makedirs(j("f" + ext + ".gz"))                      # ... is a directory
        F(j("g" + ext)); S(j("g" + ext + ".gz"))                                # ... is a socket
        F(j("h" + ext)); L(j("h" + ext + ".gz"), "/dev/zero")                  # ... is a symlink to a device
        F(j("x.css", "inside-a-directory-named-like-a-file" + ext)); F(j("x.css.gz"), extra=b"gz sibling of a directory")
        if kind == "static":
            L(j("link_templates"), os.path.join("..", "templates"))
        if kind == "templates":
            L(j("link_static"), os.path.join("..", "static"))

    def _near_dirs(self, kind, base):
        """outside directories whose path is 'nearly' the root's path, each with token files, and symlinks inside the root that lead into them"""
        parent, name = os.path.dirname(base), os.path.basename(base)
        ext = ".html" if kind == "templates" else ".txt"
        site = os.path.join(self.case, "site")
        rel_from_site = os.path.relpath(base, site)
        look = name.replace("a", "\u0430", 1) if "a" in name else name.replace("e", "\u0435", 1)     # Cyrillic lookalike letter
        near = [("case-variant", os.path.join(parent, name.upper())),
                ("case-variant", os.path.join(parent, name.capitalize())),
                ("case-variant-ancestor", os.path.join(self.case, "SITE", rel_from_site)),
                ("suffix-sibling", os.path.join(parent, "x" + name)),
                ("suffix-sibling", os.path.join(parent, "my-" + name)),
                ("trailing-dot", os.path.join(parent, name + ".")),
                ("trailing-space", os.path.join(parent, name + " ")),
                ("lookalike", os.path.join(parent, look))]
        if kind != "ext":
            near.append(("case-variant-ancestor", os.path.join(site, "ROOT", name)))
        for i, (nk, d) in enumerate(near):
            self.near[d] = nk
            for f in ("a" + ext, "a.txt", "x.txt", "index.html", os.path.join("css", "site.css")):
                if not os.path.exists(os.path.join(d, f)):
                    self._file(os.path.join(d, f), extra=b"near-root:" + nk.encode())
            tag = "near_%s_%d" % (nk.replace("-", "_"), i)
            self._link(os.path.join(base, tag), os.path.relpath(d, base))                              # directory symlink, relative
            self._link(os.path.join(base, tag + "_abs"), d)                                            # directory symlink, absolute
            self._link(os.path.join(base, tag + "_file" + ext), os.path.join(os.path.relpath(d, base), "a" + ext))   # file symlink
            self._link(os.path.join(base, "css", tag + ".css"), os.path.join(os.path.relpath(d, os.path.join(base, "css")), "css", "site.css"))

    def near_kind(self, real):
        """kind of 'nearly the root' directory that a real path lies in, or None"""
        for d, nk in self.near.items():
            if real == d or real.startswith(d + os.sep):
                return nk
        return None

    def build(self):
        os.makedirs(os.path.dirname(self.secret))
        with open(self.secret, "wb") as fh:
            fh.write(b"VF20|" + self.secret_token + b"|this file is outside every root\n")
        self.secret_body = open(self.secret, "rb").read()
        self.secret_id = (len(self.secret_body), fnv64(self.secret_body))
        sd = os.path.dirname(self.secret)
        self._file(os.path.join(sd, "dir", "inner.txt")); self._file(os.path.join(sd, "a.txt")); self._file(os.path.join(sd, "a.html"))
        self._file(os.path.join(sd, "css", "site.css"))
        st, tp = os.path.join(self.root, "static"), os.path.join(self.root, "templates")
        self._populate(st, "static", "static-evil")
        self._populate(tp, "templates", "templates_old")
        self._populate(self.ext, "ext", "ext-evil")
        for sib in ("static-evil", "staticX", "templates_old"):
            self._file(os.path.join(self.root, sib, "x.txt")); self._file(os.path.join(self.root, sib, "a.txt")); self._file(os.path.join(self.root, sib, "a.html"))
        self._file(os.path.join(os.path.dirname(self.ext), "ext-evil", "x.txt")); self._file(os.path.join(os.path.dirname(self.ext), "ext-evil", "a.txt"))
        for kind, base in (("static", st), ("templates", tp), ("ext", self.ext)):
            self._near_dirs(kind, base)
        self._file(os.path.join(self.root, "top.txt"))
        self.roots = {"static": st, "templates": tp, "ext": self.ext}
        for k, base in self.roots.items():
            fs, ls, ds, sp = [], [], [], []
            for d, dirs, files in os.walk(base):
                for n in dirs + files:
                    p = os.path.join(d, n)
                    rel = os.path.relpath(p, base)
                    if os.path.islink(p):
                        ls.append(rel)
                    elif os.path.isdir(p):
                        ds.append(rel)
                    elif os.path.isfile(p):
                        fs.append(rel)
                    else:
                        sp.append(rel)
            self.files[k], self.links[k], self.dirs[k], self.specials[k] = sorted(fs), sorted(ls), sorted(ds), sorted(sp)

    # ---- oracle
    def judge(self, rootkind, name, blob):
        """blob: dict(len, fnv, head) of returned bytes. Returns None if acceptable, else (what, route, detail)."""
        base = self.roots[rootkind]
        ident = (blob["len"], blob["fnv"])
        head = bytes.fromhex(blob["head"])
        route = self.route(base, name)
        if ident == self.secret_id or self.secret_token in head:
            return "secret-returned", route, "the secret file's bytes"
        if self.fifo_token in head:
            return "pipe-bytes-returned", "non-regular", "bytes read from a named pipe (the harness feeder's token): not the content of any regular file"
        path = self.by_id.get(ident)
        if path is None:
            nk = self.named_kind(rootkind, name)[0]
            if nk in ("fifo", "socket", "chardev", "blockdev", "other"):
                return ("pipe-bytes-returned" if nk == "fifo" else "non-regular-bytes-returned"), "non-regular", \
                    "%d bytes read from a %s (head %r): not the content of any regular file" % (blob["len"], nk, head[:40])
            return "outside-root-returned", route, "bytes that are not the content of any file below the root (head %r)" % head[:60]
        try:
            st = os.lstat(path)
            real = os.path.realpath(path)
        except OSError as e:
            return "outside-root-returned", route, "identified file %s cannot be examined: %s" % (path, e)
        import stat as _s
        rbase = os.path.realpath(base)
        if not _s.S_ISREG(st.st_mode):
            return "non-regular-returned", route, "identified path %s is not a regular file" % path
        if not (real == rbase or real.startswith(rbase + os.sep)):
            nk = self.near_kind(real)
            if nk:
                return "near-root-%s-returned" % nk, route, "content of %s, which lies in a directory that only resembles %s (%s)" % (
                    os.path.relpath(real, self.case), os.path.relpath(rbase, self.case), nk)
            return "outside-root-returned", route, "content of %s, which lies outside %s" % (os.path.relpath(real, self.case), os.path.relpath(rbase, self.case))
        return None

    def named_file(self, rootkind, name):
        """the file the OS resolves root/name to (lenient), or None"""
        if b"\0" in name:
            return None
        base = self.roots[rootkind]
        try:
            p = os.path.realpath(os.path.join(os.fsencode(base), name))
            if os.path.isfile(p):
                return os.fsdecode(p)
        except (OSError, ValueError):
            pass
        return None

    def named_kind(self, rootkind, name):
        """what the OS says root/name resolves to: (kind, realpath) with kind in regular/dir/fifo/socket/chardev/blockdev/missing"""
        import stat as _s
        if b"\0" in name:
            return "nul", None
        base = self.roots[rootkind]
        try:
            p = os.path.realpath(os.path.join(os.fsencode(base), name))
            st = os.stat(p)
        except (OSError, ValueError):
            return "missing", None
        m = st.st_mode
        kind = ("regular" if _s.S_ISREG(m) else "dir" if _s.S_ISDIR(m) else "fifo" if _s.S_ISFIFO(m) else "socket" if _s.S_ISSOCK(m)
                else "chardev" if _s.S_ISCHR(m) else "blockdev" if _s.S_ISBLK(m) else "other")
        return kind, os.fsdecode(p)

    def write_fifo_list(self, path):
        with open(path, "w") as fh:
            for p in self.fifos:
                fh.write(os.fsencode(p).hex() + "\n")

    def route(self, base, name):
        if b"\0" in name:
            return "nul"
        parts = [p for p in name.split(b"/") if p not in (b"", b".")]
        cur = os.fsencode(base)
        saw_link_dir = False
        for i, p in enumerate(parts):
            cur = os.path.join(cur, p)
            try:
                if os.path.islink(cur):
                    if i < len(parts) - 1:
                        saw_link_dir = True
                    else:
                        return "symlink-dir" if saw_link_dir else "symlink-file"
            except (OSError, ValueError):
                break
        if saw_link_dir:
            return "symlink-dir"
        if name.startswith(b"/"):
            return "absolute"
        if b".." in name or b"%" in name or b"\\" in name:
            return "dot-dot"
        return "plain"


# ------------------------------------------------------------------------------------- names
def gen_names(tree, rootkind, rng, n):
    """traversal-aware names for one lookup root: real entries, entries reached through every symlink, then mutated"""
    files, links, dirs = tree.files[rootkind], tree.links[rootkind], tree.dirs[rootkind]
    base = tree.roots[rootkind]
    sec_rel = os.path.relpath(tree.secret, base)
    case_abs = tree.case
    seeds = []
    seeds += files + links + dirs + tree.specials[rootkind]
    seeds += [x + ".gz" for x in tree.specials[rootkind]] + ["x.css", "x.css/", "f.txt.gz", "f.html.gz", "link_devdir/null", "link_devdir/zero", "link_devdir/urandom"]
    # entries below symlinked directories (inside and outside ones)
    below = ["secret.txt", "a.txt", "a.html", "dir/inner.txt", "css/site.css", "site.css", "x.txt", "deep/er/x.css", "static/a.txt", "templates/a.html",
             "root/top.txt", "secret/secret.txt", "etc/hostname", "up/a.txt", "up/css/site.css", "up/link_out.txt", "top.txt", "static-evil/x.txt"]
    for l in links:
        for b in below:
            seeds.append(l + "/" + b)
    seeds += ["css/up/css/up/a.txt", "css/up/linkdir_out/secret.txt", "linkdir_in/up/link_out.txt", "linkdir_in/link_out.css",
              "link_parent/static-evil/x.txt", "link_parent/templates/a.html", "link_parent/static/a.txt", "link_parent/top.txt",
              "link_case/secret/secret.txt", "link_fsroot" + tree.secret, "link_fsroot/etc/hostname"]
    seeds = [os.fsencode(s) for s in seeds]
    dd = [b"..", b"../..", b"../../..", b"../../../.."]
    out = []

    def mutate(s):
        r = rng.random()
        parts = s.split(b"/")
        if r < 0.08:
            return s
        if r < 0.20:            # harmless respellings of the same path: repeated separators, '.' segments, leading './'
            o = b"./" * rng.choice((0, 0, 1, 2))
            for i, p in enumerate(parts):
                o += p
                if i < len(parts) - 1:
                    o += rng.choice((b"/", b"/", b"//", b"/./", b"///", b"/.//"))
            return o
        r = (r - 0.20) / 0.80
        if r < 0.02:
            return s
        if r < 0.16:
            return s + rng.choice((b"/", b"//", b"/.", b"/./", b"/..", b"/../" + parts[-1], b".", b" ", b"\0", b"\0.txt", b"%00", b"/" + parts[-1]))
        if r < 0.22:
            i = rng.randrange(len(parts))
            parts[i:i] = [rng.choice((b".", b"", b"", b".", b"...", b". ", b" ."))]
            return b"/".join(parts)
        if r < 0.34:            # climb out with dot-dot in many spellings, then down to the secret / a sibling
            up = rng.choice(dd)
            tgt = rng.choice((os.fsencode(sec_rel).lstrip(b"./"), b"secret/secret.txt", b"static-evil/x.txt", b"templates/a.html", b"static/a.txt", b"top.txt", b"etc/hostname"))
            spelled = rng.choice((up, up.replace(b"..", b"%2e%2e"), up.replace(b"..", b"%2E%2E"), up.replace(b"/", b"%2f"), up.replace(b"/", b"\\"),
                                  up.replace(b"..", b".%2e"), up.replace(b"..", b"..."), up.replace(b"..", b".. "), up.replace(b"..", b"..\0"),
                                  up.replace(b"..", b"\xe2\x80\xa4\xe2\x80\xa4"), up.replace(b"..", b"\xef\xbc\x8e\xef\xbc\x8e"), up.replace(b"/", b"//"),
                                  up.replace(b"..", b"..;"), b"./" + up, up + b"/."))
            pre = rng.choice((b"", b"", b"css/", b"css/deep/er/", b"linkdir_in/", b"nonexistent/", b"a.txt/", b"./", b"//"))
            return pre + spelled + b"/" + tgt
        if r < 0.40:            # absolute
            return rng.choice((os.fsencode(tree.secret), b"/etc/hostname", b"/etc/passwd", os.fsencode(os.path.join(base, "a.txt")), b"//" + os.fsencode(tree.secret).lstrip(b"/"),
                               b"/" + s, os.fsencode(case_abs) + b"/secret/secret.txt", b"/proc/self/environ"))
        if r < 0.46:            # backslashes
            return rng.choice((s.replace(b"/", b"\\"), b"..\\..\\secret\\secret.txt", b"..\\" + s, s + b"\\", b"\\" + s, b"css\\..\\..\\..\\secret\\secret.txt"))
        if r < 0.52:            # percent-encoded forms of the whole name (never decoded by getStatic)
            return rng.choice((s.replace(b"/", b"%2f"), s.replace(b".", b"%2e"), b"%2e%2e/" + s, b"%2e%2e%2f" + s, s.replace(b"a", b"%61", 1), b"%2e%2e/%2e%2e/secret/secret.txt",
                               b"%252e%252e/" + s))
        if r < 0.57:            # NUL bytes
            i = rng.randrange(len(s) + 1)
            return s[:i] + b"\0" + rng.choice((b"", b"/../../secret/secret.txt", b".txt", s[i:]))
        if r < 0.62:            # very long components
            l = rng.choice((254, 255, 256, 1024, 4095, 4096, 4097, 8192))
            c = rng.choice((b"A", b".", b"x")) * l
            return rng.choice((c, c + b"/" + s, s + b"/" + c, b"css/" + c + b"/../../a.txt", b"/".join([b"d" * 200] * rng.randint(2, 30)), (b"./" * (l // 2)) + s,
                               (b"css/up/" * min(l // 7, 600)) + b"a.txt"))
        if r < 0.70:            # case / unicode / whitespace variants
            return rng.choice((s.upper(), s.lower(), s.swapcase(), s + b" ", b" " + s, s.replace(b"a", b"\xc3\xa0"), s + b"\r\n", s + b"\t", s.replace(b".", b"\xe3\x80\x82")))
        if r < 0.78:            # .gz siblings and double extensions
            return s + rng.choice((b".gz", b".gz.gz", b".GZ", b".bak", b"~"))
        if r < 0.88:            # splice two seeds
            t = rng.choice(seeds)
            return rng.choice((s + b"/" + t, os.path.dirname(s) + b"/" + t, t + b"/../" + s, s + b"/./" + t))
        # random byte edits
        b = bytearray(s)
        for _ in range(rng.randint(1, 3)):
            k = rng.choice(("ins", "del", "set"))
            i = rng.randrange(len(b) + 1) if b else 0
            if k == "ins":
                b[i:i] = bytes((rng.choice((0x2E, 0x2F, 0x5C, 0x00, 0x25, 0x20, rng.randrange(256))),))
            elif k == "del" and b:
                del b[min(i, len(b) - 1)]
            elif b:
                b[min(i, len(b) - 1)] = rng.choice((0x2E, 0x2F, 0x5C, 0x00, rng.randrange(256)))
        return bytes(b)

    fixed = [b"", b".", b"..", b"/", b"./", b"../", b"...", b"a.txt/..", b"a.txt/../a.txt", b"css/..", b"css/../a.txt", b"css/../../static-evil/x.txt",
             b"css/../../templates/a.html", b"\0", b"..\0", b"emb/app.js", b"emb/site.css", b"emb/base.html", b"emb/page.html", b"emb/../a.txt"]
    out += fixed
    out += seeds            # every real entry and every path through every symlink, unmodified
    while len(out) < n:
        out.append(mutate(rng.choice(seeds)))
    return out[:max(n, len(fixed) + len(seeds))]


def name_class(name):
    c = []
    if b"\0" in name: c.append("nul")
    if name.startswith(b"/"): c.append("abs")
    if b".." in name: c.append("dotdot")
    if b"\\" in name: c.append("bslash")
    if b"%" in name: c.append("pct")
    if b"//" in name or name.endswith(b"/"): c.append("sep")
    if len(name) > 255: c.append("long")
    if b"link" in name or b"dangling" in name or b"loop" in name or b"/up" in name: c.append("symlink")
    if any(x > 0x7F for x in name): c.append("hi")
    return "+".join(c) or "plain"
