#!/usr/bin/python3
# /verif/lib/c11_oracle.py — admissible-state oracle for C11 (crash recovery of KVStore / JsonFileStore).
#
# Input: the call log + per-file-operation summary written by `c11_crash --mode record` and the
# observation lines written by `c11_crash --mode judge` (one per crash image: where the trace was
# cut, what a fresh store showed after recovery, what the continuation did, what the store showed
# after a clean close + second reopen). Output: JSON-lines records in the /verif record protocol.
#
# Shares no code with iora: the reference is a dict per key driven only by the *calls issued*.
#   set/batch -> (value, no expiry)      set with TTL -> (value, [t0+ttl, t1+ttl])  (shimmed clock around the call)
#   remove/removeWithPrefix -> absent     expireAt -> expiry := when (if present)   persist -> expiry := none (if present)
#   clear -> everything absent            compact/flush/open/close -> nothing
# Admissible set of an image cut at (operation k, byte b):
#   * every call all of whose file operations are in the image counts as returned: its effect is required;
#   * the one call that has put something into the image but not everything is "in flight": each key it
#     touches may show its state before or after that call (per key, as the property states);
#   * nothing else is admissible: torn / foreign / resurrected / stale values are violations.
# Time: every process of a case runs at one exactly frozen instant (the harness defines system_clock::now()):
# the recorded history at T0, a recovery child at its "time of recovery" R >= T0 (obs line field "R"): T0 itself,
# or 1 ms before / exactly at / 1 ms after a deadline that the history attached to some key (also deadlines that
# were later superseded by expireAt/persist/set), or a day after the last one. Deadlines are >= 20000 s after
# the instant they are set at and >= 50 s apart, so an observed ttl() identifies the call that set it.
# A key whose acknowledged deadline D satisfies R >= D must be absent after recovery at R (iora's own rule:
# expired iff expiry <= now), every other key must show its acknowledged value and deadline.
import json, sys, hashlib, re

T0_MS = 2000000000000  # the instant every recorded history runs at (harness constant)
SLACK_MS = 5          # ms rounding (epoch-ms truncation in the log, clock reads around a call)
MAX_VIOL_PER_KEY = 12  # full violation records per (history, key); the rest is counted


def h64(s):
    return hashlib.blake2b(s.encode(), digest_size=8).hexdigest()


# ------------------------------------------------------------------------------------ KV model
class Kv:
    """state: dict keyhex -> (n, h, exp) ; exp = None | (lo_ms, hi_ms)"""

    @staticmethod
    def val(v):
        return (v["n"], v["h"])

    @staticmethod
    def apply(state, c):
        kind = c["kind"]
        if c.get("threw"):
            return state
        if kind in ("set", "batch", "set-oversize"):   # set-oversize: refused (threw) -> handled above; accepted -> a set
            for k, v in zip(c["keys"], c["vals"]):
                state[k] = (v["n"], v["h"], None)
        elif kind in ("setttl", "batchttl"):
            exp = (c["t0"] + c["ttl"] * 1000, c["t1"] + c["ttl"] * 1000)
            for k, v in zip(c["keys"], c["vals"]):
                state[k] = (v["n"], v["h"], exp)
        elif kind == "remove":
            state.pop(c["keys"][0], None)
        elif kind == "rmprefix":
            p = c["keys"][0]
            for k in [k for k in state if k.startswith(p)]:
                del state[k]
        elif kind == "expireat":
            k = c["keys"][0]
            if k in state:
                n, h, _ = state[k]
                state[k] = (n, h, (c["when"], c["when"]))
        elif kind == "persist":
            k = c["keys"][0]
            if k in state:
                n, h, _ = state[k]
                state[k] = (n, h, None)
        elif kind == "clear":
            state.clear()
        return state

    @staticmethod
    def touched(state, c):
        kind = c["kind"]
        if kind in ("set", "setttl", "batch", "batchttl", "remove", "expireat", "persist", "set-oversize"):
            return set(c["keys"])
        if kind == "rmprefix":
            return {k for k in state if k.startswith(c["keys"][0])}
        if kind == "clear":
            return set(state.keys())
        return set()

    @staticmethod
    def from_dump(d):
        st = {}
        for e in d["keys"]:
            exp = None
            if e["ttl"] is not None:
                exp = (d["now0"] + e["ttl"] * 1000, d["now1"] + e["ttl"] * 1000 + 1000)
            st[e["k"]] = (e["v"]["n"], e["v"]["h"], exp)
        return st

    @staticmethod
    def exp_match(a, b):
        if a is None or b is None:
            return a is None and b is None
        return a[0] - SLACK_MS <= b[1] and b[0] - SLACK_MS <= a[1]

    @staticmethod
    def match(a, b):
        if a is None or b is None:
            return a is None and b is None
        return a[0] == b[0] and a[1] == b[1] and Kv.exp_match(a[2], b[2])


def views_at(e, R):
    """what a reader at instant R may see of reference entry e"""
    if e is None or e[2] is None or R is None:
        return [e]
    lo, hi = e[2]
    if R >= hi:
        return [None]
    if R >= lo:
        return [e, None]      # only for deadlines known as an interval (derived from a dump's ttl seconds)
    return [e]


def fmt_entry(e):
    if e is None:
        return "absent"
    return f"value(n={e[0]},h={e[1]})" + ("" if e[2] is None else f"+expiry~{e[2][0]}")


def keylen(kenc):
    """keys are hex, or <hex of first 8 bytes>~<len>~<fnv64> for keys longer than 256 bytes"""
    if "~" in kenc:
        return int(kenc.split("~")[1])
    return len(kenc) // 2


def keyname(khex):
    if "~" in khex:
        head, n, h = khex.split("~")
        return repr(bytes.fromhex(head).decode("latin1")) + f"...({n} bytes)"
    b = bytes.fromhex(khex)
    s = b.decode("latin1")
    if len(s) > 24:
        s = s[:10] + "..." + s[-6:]
    return repr(s)


# ------------------------------------------------------------------------------------ positions
class Timeline:
    """One recorded run: base state + calls (with op ranges) + op summaries."""

    def __init__(self, store, base, calls, ops, hist_vals=None, all_vals=None):
        self.store = store
        self.calls = calls
        self.ops = ops
        self.n = len(ops)
        # state after each call prefix
        self.states = [dict(base)]
        cur = dict(base)
        if store == "kv":
            for c in calls:
                cur = Kv.apply(dict(cur), c)
                self.states.append(cur)
        else:
            # json: state = (memory, persisted)
            self.states = [(dict(base), dict(base))]
            mem, per = dict(base), dict(base)
            for c in calls:
                mem, per = Js.apply(dict(mem), dict(per), c)
                self.states.append((mem, per))
        # value histories for symptom classification (kv)
        self.hist_vals = {k: set(v) for k, v in (hist_vals or {}).items()}
        self.all_vals = {k: set(v) for k, v in (all_vals or {}).items()}
        if store == "kv":
            for k, e in base.items():
                self.hist_vals.setdefault(k, set()).add((e[0], e[1]))
                self.all_vals.setdefault((e[0], e[1]), set()).add(k)
            for c in calls:
                for k, v in zip(c["keys"], c.get("vals", [])):
                    if isinstance(v, dict):
                        self.hist_vals.setdefault(k, set()).add(Kv.val(v))
                        self.all_vals.setdefault(Kv.val(v), set()).add(k)

    def position(self, k, b, torn=False):
        """-> (n_complete_calls, inflight_call_or_None, cut_class)"""
        ops, calls = self.ops, self.calls
        keff = k
        if b == 0:
            while keff < self.n and not ops[keff]["mod"]:
                keff += 1
        ncomplete = 0
        for c in calls:
            if c["ops"][1] <= keff:
                ncomplete += 1
            else:
                break
        infl = None
        if ncomplete < len(calls):
            c = calls[ncomplete]
            s, e = c["ops"]
            started = (b > 0 and s <= k < e) or any(ops[i]["mod"] for i in range(s, min(k, e)))
            if started:
                infl = c
        return ncomplete, infl, self.cut_class(k, b, infl, torn)

    def cut_class(self, k, b, infl, torn=False):
        if infl is None:
            return "boundary"
        ops = self.ops
        if self.store == "json":
            return "cut-in-flush"
        if infl["kind"] == "open":
            return "recovery"
        if b > 0:
            role = ops[k]["f"]
            return {"log": "cut-in-log-append", "tmp": "compact:cut-in-snapshot-write"}.get(role, "cut-in-write-" + role)
        s, e = infl["ops"]
        before, after = ops[s:k], ops[k:e]
        mods = [o for o in before if o["mod"]]
        if torn and mods and mods[-1]["k"] == "w" and mods[-1]["f"] == "log":
            # a record issued as several writes (large values: header+payload, then the CRC) cut between them
            return "cut-in-log-append"
        compaction = any(o["f"] == "tmp" or o["k"] == "r" for o in ops[s:e])
        if not compaction:
            return "between-log-appends"
        tmp_open = any(o["f"] == "tmp" and o["k"] == "o" for o in before)
        if not tmp_open:
            if any(o["k"] == "w" and o["f"] == "log" for o in after):
                return "between-log-appends"
            return "compact:before-snapshot-open"
        renamed = any(o["k"] == "r" for o in before)
        if not renamed:
            if any(o["f"] == "tmp" and o["k"] == "c" for o in before):
                return "compact:between-snapshot-close-and-rename"
            if any(o["f"] == "tmp" and o["k"] == "w" for o in before):
                return "compact:between-snapshot-writes"
            return "compact:after-snapshot-open"
        # O_TRUNC = 0o1000
        ri = max(i for i, o in enumerate(before) if o["k"] == "r")
        truncated = any(o["k"] == "o" and o["f"] == "log" and (o["fl"] & 0o1000) for o in before[ri:]) or \
            any(o["k"] == "t" and o["f"] == "log" for o in before[ri:])
        if not truncated:
            return "compact:between-rename-and-truncate"
        return "compact:after-truncate"


# ------------------------------------------------------------------------------------ JSON model
class Js:
    @staticmethod
    def apply(mem, per, c):
        kind = c["kind"]
        if c.get("threw"):
            return mem, per
        if kind == "set":
            mem[c["keys"][0]] = c["vals"][0]
        elif kind == "remove":
            mem.pop(c["keys"][0], None)
        elif kind in ("flush", "close"):
            per = dict(mem)
        elif kind == "open":
            mem = dict(per)
        return mem, per

    @staticmethod
    def from_dump(d):
        return {e["k"]: e["v"] for e in d["keys"]}

    @staticmethod
    def to_python(st):
        out = {}
        for k, v in st.items():
            key = bytes.fromhex(k).decode("latin1")
            out[key] = v[2:] if v.startswith("s:") else int(v[2:])
        return out


# ------------------------------------------------------------------------------------ judge
class Judge:
    def __init__(self, log, final=False):
        self.log = log
        self.store = log["store"]
        self.final = final            # True: a hung child is a verdict (this is the isolated re-run)
        self.out = []
        self.obs = {}
        self.sigs = set()
        self.images = 0
        self.viol_count = {}
        self.samples = 0
        self._memo = {}
        self.l1 = {}                   # (k,b) -> lineage info of the most recent level-1 image (level-2 lines follow it)
        self.tl0 = Timeline(self.store, {}, log["calls"], log["ops"])

    # -- record helpers
    def o(self, name, n=1):
        self.obs[name] = self.obs.get(name, 0) + n

    def viol(self, key, what, detail):
        c = self.viol_count.get(key, 0) + 1
        self.viol_count[key] = c
        if c <= MAX_VIOL_PER_KEY:
            d = dict(store=self.store, seed=self.log["seed"], hist=self.log["hist"], variant=self.log.get("variant"),
                     maxlog=self.log.get("maxlog"), nops=self.log.get("nops"))
            d.update(detail)
            self.out.append(dict(t="viol", key=key, what=what, detail=d))
        else:
            self.o("violations_not_listed_individually")

    # -- KV comparison of an observed dump against per-key admissible sets
    def kv_compare(self, tl, exact, infl, dump, R=None):
        """-> (mismatches [(key, symptom, observed, admissible-at-R)], which, snapped)
        which in exact/old/new/mixed/same; snapped = observed state with exact reference deadlines where matched"""
        obs_state = Kv.from_dump(dump)
        new = None
        touched = set()
        if infl is not None:
            touched = Kv.touched(exact, infl)
            new = Kv.apply(dict(exact), infl)
        mism = []
        snapped = {}
        saw_old = saw_new = False
        for k in set(exact) | set(obs_state) | (set(new) if new else set()):
            o = obs_state.get(k)
            ref = [exact.get(k)]
            if new is not None and k in touched:
                ref.append(new.get(k))
            adm = []
            for r in ref:
                adm.extend(views_at(r, R))
            hit = next((a for a in adm if Kv.match(a, o)), "none")
            if hit != "none":
                if o is not None:
                    snapped[k] = hit
                if len(ref) == 2:
                    v0, v1 = views_at(ref[0], R), views_at(ref[1], R)
                    in0, in1 = any(Kv.match(a, o) for a in v0), any(Kv.match(a, o) for a in v1)
                    if in0 and not in1:
                        saw_old = True
                    elif in1 and not in0:
                        saw_new = True
                continue
            if o is not None:
                snapped[k] = o
            sym = self.kv_symptom(tl, k, o, adm)
            if o is not None and any(r is not None and Kv.match(r, o) for r in ref):
                sym = "expired-visible"          # the acknowledged entry, but its deadline is <= R
            mism.append((k, sym, o, adm))
        which = "exact" if infl is None else ("mixed" if saw_old and saw_new else "new" if saw_new else "old" if saw_old else "same")
        return mism, which, snapped

    @staticmethod
    def kv_symptom(tl, k, o, adm):
        if o is None:
            return "acked-lost"
        v = (o[0], o[1])
        if any(a is not None and (a[0], a[1]) == v for a in adm):
            return "wrong-expiry"
        if v in tl.hist_vals.get(k, ()):
            return "resurrected" if all(a is None for a in adm) else "acked-lost"
        if v in tl.all_vals:
            return "foreign"
        return "torn"

    # -- naming only: where the time of recovery R lies relative to the deadlines of the history
    def time_class(self, tl, nc, infl, exact, R):
        started = tl.calls[:nc + (1 if infl is not None else 0)]
        ds = set()
        for c in started:
            if c.get("threw"):
                continue
            if c["kind"] in ("setttl", "batchttl"):
                ds.add(c["t0"] + c["ttl"] * 1000)
            elif c["kind"] == "expireat":
                ds.add(c["when"])
        live = {e[2][0] for e in exact.values() if e[2] is not None}
        if infl is not None:
            live |= {e[2][0] for e in Kv.apply(dict(exact), infl).values() if e[2] is not None}
        for d in ds:
            if abs(R - d) <= 1:
                rel = "before" if R < d else ("at" if R == d else "after")
                return f"{rel}-{'live' if d in live else 'superseded'}-deadline"
        if ds and R > max(ds):
            return "after-all-deadlines"
        return "other-instant"

    # -- coverage only: is this image one where an expiry change (persist / expireAt) was acknowledged after the
    #    compaction that wrote the key's earlier deadline into the snapshot, with nothing but such value-less
    #    changes on that key since, and is it recovered at or after that earlier deadline while the key is alive?
    def expiry_change_after_snapshot(self, tl, nc, exact, R):
        cur = {}
        snap_deadline = {}
        xonly = {}
        for i, c in enumerate(tl.calls[:nc]):
            if c.get("threw"):
                continue
            before = dict(cur)
            cur = Kv.apply(cur, c)
            for key in Kv.touched(before, c):
                if c["kind"] in ("persist", "expireat") and key in before and key in snap_deadline:
                    xonly[key] = xonly.get(key, True) and True
                else:
                    xonly[key] = False
            s_, e_ = c["ops"]
            if any(o["k"] == "r" for o in tl.ops[s_:e_]):      # a compaction ran at the end of this call
                snap_deadline = {k: e[2][0] for k, e in cur.items() if e[2] is not None}
                xonly = {}
        for key, ok in xonly.items():
            if ok and key in snap_deadline and R >= snap_deadline[key]:
                e = exact.get(key)
                if e is not None and views_at(e, R) == [e]:
                    return True
        return False

    # -- coverage only: lengths of the keys the most recent completed compaction wrote into the snapshot
    def snapshot_key_lengths(self, tl, nc):
        key = ("snaplens", nc)
        if key in self._memo:
            return self._memo[key]
        cur, snap = {}, set()
        for c in tl.calls[:nc]:
            cur = Kv.apply(cur, c)
            s_, e_ = c["ops"]
            if any(o["k"] == "r" for o in tl.ops[s_:e_]):
                snap = {keylen(k) for k in cur}
        self._memo[key] = snap
        return snap

    # -- one observation line
    def line(self, ln):
        lvl = ln["lvl"]
        k, b = ln["k"], ln["b"]
        sec = {}
        for s in ln["res"]:
            sec[s["sec"]] = s
        pre = f"C11:{self.store}:"
        coords = dict(k=k, b=b)
        R = ln.get("R")
        if R is not None and R != T0_MS:
            coords["R"] = R
        if lvl == 1:
            tl = self.tl0
            nc, infl, cls = tl.position(k, b, bool(ln.get("torn")))
            exact = tl.states[nc]
            lineage = cls
            if self.store == "kv" and self.log.get("sizes"):
                for n in self.snapshot_key_lengths(tl, nc):
                    if n in (1, 255, 256, 65534, 65535):
                        self.o(f"kv_images_with_{n}_byte_key_in_snapshot")
            if self.store == "kv" and R is not None and R != T0_MS:
                lineage = cls + "@" + self.time_class(tl, nc, infl, exact, R)
                if self.expiry_change_after_snapshot(tl, nc, exact, R):
                    self.o("kv_expiry_change_after_compaction_recovered_after_old_deadline")
        else:
            parent = self.l1.get((k, b, R))
            if parent is None:
                return
            k2, b2 = ln["k2"], ln["b2"]
            coords.update(k2=k2, b2=b2)
            ptl, pnc, pinfl, pcls, psec, pbase = parent
            cont = psec["cont"]
            if self.store == "kv":
                base = pbase
            else:
                base = Js.from_dump(psec["d0"]["dump"])
            tl = Timeline(self.store, base, cont["calls"], cont["ops"], ptl.hist_vals, ptl.all_vals)
            nc, infl, cls = tl.position(k2, b2, bool(ln.get("torn")))
            lineage = pcls + ">" + cls
            if infl is not None and infl["kind"] == "open" or nc == 0:
                # crashed again while (or before) the first recovery ran: recovery touches no key, so
                # the admissible set is the one of the parent image
                tl_for_adm, nc_adm, infl_adm = ptl, pnc, pinfl
                exact = ptl.states[pnc]
                infl = pinfl
                tl = Timeline(self.store, {}, [], [], tl.hist_vals, tl.all_vals)
                tl.states = [exact]
                nc = 0
            else:
                exact = tl.states[nc]
        self.images += 1
        self.o(f"{self.store}_images_judged")
        self.o(f"{self.store}_class:{re.sub('@[a-z-]+', '', lineage)}")
        for t in re.findall('@([a-z-]+)', lineage)[:1]:
            self.o(f"{self.store}_time_of_recovery:{t}")
        inflkind = infl["kind"] if infl else "-"
        info = dict(coords, lineage=lineage, inflight=inflkind, level=lvl)

        st = ln["st"]
        if st == "hung":
            if self.final:
                phase = "reopen" if "open" not in sec else ("cont" if "cont" not in sec else "cont-reopen")
                self.viol(pre + lineage + ":" + phase + "-hung", f"child never finished ({phase} phase) on the image cut at {coords}", info)
            else:
                self.out.append(dict(t="retry", **coords))  # coords carry R when the recovery ran at a deadline instant
            return
        if st == "exit:86":
            # the child was stopped by a sanitizer report; vf.py keys the report itself from the judge's stderr
            # (more specific than "crashed"); the driver checks that a report really was captured
            phase = "reopen" if "open" not in sec else ("cont" if "cont" not in sec else "cont-reopen")
            self.o(f"{self.store}_child_stopped_by_sanitizer:{phase}")
            self.out.append(dict(t="sanexit", phase=phase, **coords))
            return
        if st != "ok":
            phase = "reopen" if "open" not in sec else ("cont" if "cont" not in sec else "cont-reopen")
            self.viol(pre + lineage + ":" + phase + "-crashed",
                      f"child died ({st}) in the {phase} phase on the image cut at {coords} (in-flight call: {inflkind})", info)
            return
        if sec["open"]["threw"]:
            self.viol(pre + lineage + ":reopen-failed",
                      f"fresh store failed to open the crash image: {sec['open']['err'][:200]} (in-flight call: {inflkind})", info)
            return

        if self.store == "kv":
            self.kv_image(tl, nc, infl, exact, sec, lineage, info, lvl, k, b, R)
        else:
            self.js_image(tl, nc, infl, exact, sec, lineage, info, lvl, k, b, R)

    def kv_image(self, tl, nc, infl, exact, sec, lineage, info, lvl, k, b, R=None):
        pre = "C11:kv:"
        d0 = sec["d0"]["dump"]
        mism, which, base = self.kv_compare(tl, exact, infl, d0, R)
        if R is not None and R != T0_MS:
            self.o("kv_recovered_at_a_deadline_instant")
            if any(e is not None and e[2] is not None and R >= e[2][1] for e in exact.values()):
                self.o("kv_recovered_with_some_acknowledged_deadline_passed")
        self.o("kv_recovered_" + which)
        if any(e.get("miss") for e in d0["keys"]):
            self.o("kv_dump_key_listed_but_get_empty")
        for key, sym, o, adm in mism:
            self.viol(pre + lineage + ":" + sym,
                      f"after recovery{'' if R in (None, T0_MS) else ' at instant T0+%d ms' % (R - T0_MS)} key {keyname(key)} shows "
                      f"{fmt_entry(o)}; admissible: {' | '.join(fmt_entry(a) for a in adm)} "
                      f"(in-flight call: {info['inflight']})",
                      dict(info, key=key, observed=fmt_entry(o), admissible=[fmt_entry(a) for a in adm]))
        if lvl == 1:
            self.l1 = {(k, b, R): (tl, nc, infl, lineage, sec, base)}
        # continuation on the recovered store (base: what recovery showed, with the exact reference deadlines)
        cont = sec.get("cont")
        if not cont:
            return
        ctl = Timeline("kv", base, cont["calls"], cont["ops"], tl.hist_vals, tl.all_vals)
        threw = [c for c in cont["calls"] if c.get("threw") and c["kind"] != "set-oversize"]
        for c in cont["calls"]:
            if c["kind"] == "set-oversize":
                self.o("kv_oversize_key_refused" if c.get("threw") else "kv_oversize_key_accepted")
        for c in threw:
            self.viol(pre + lineage + ":cont-op-threw", f"{c['kind']} on the recovered store threw: {c['err'][:160]}", dict(info, call=c["kind"]))
        if threw:
            return
        if "reopen" not in sec:
            return
        if sec["reopen"]["threw"]:
            self.viol(pre + lineage + ":cont-reopen-failed",
                      f"after continuing on the recovered store and a clean close, reopening failed: {sec['reopen']['err'][:200]}", info)
            return
        final = ctl.states[-1]
        touched = set()
        cur = dict(base)
        for c in cont["calls"]:
            touched |= Kv.touched(cur, c)
            cur = Kv.apply(cur, c)
        mism1, _, _ = self.kv_compare(ctl, final, None, sec["d1"]["dump"], R)
        compacted = any(o["k"] == "r" for o in cont["ops"])
        self.o("kv_continuations_checked")
        if compacted:
            self.o("kv_continuations_with_compaction")
        if not mism1:
            self.o("kv_continuation_ok")
        for key, sym, o, adm in mism1:
            if key in touched and sym in ("acked-lost", "resurrected", "wrong-expiry"):
                s2 = "acked-after-recovery-lost"
            elif key in touched:
                s2 = "cont-" + sym
            else:
                s2 = "cont-untouched-key-" + sym
            self.viol(pre + lineage + ":" + s2,
                      f"after recovery, {len(cont['calls']) - 2} more acknowledged calls, clean close and reopen, key {keyname(key)} shows "
                      f"{fmt_entry(o)}; required: {fmt_entry(adm[0])}",
                      dict(info, key=key, observed=fmt_entry(o), required=fmt_entry(adm[0]),
                           continuation=[c["kind"] for c in cont["calls"]]))
        sig = ("kv", lvl, lineage, info["inflight"], which, self.bclass(tl, k, b) if lvl == 1 else "l2",
               compacted, min(len(d0["keys"]), 6), bool(mism), bool(mism1))
        self.sigs.add(h64(json.dumps(sig)))
        if self.samples < 1 and infl is not None and len(d0["keys"]) >= 3 and which in ("old", "new", "mixed"):
            self.samples += 1
            self.out.append(dict(t="case", n=0, sample=dict(store="kv", seed=self.log["seed"], hist=self.log["hist"], cut=info,
                                                            recovered_keys=len(d0["keys"]), recovered=which,
                                                            continuation=[c["kind"] for c in cont["calls"]],
                                                            continuation_ok=not mism1)))

    def bclass(self, tl, k, b):
        if b == 0:
            return "op-boundary"
        n = tl.ops[k]["n"] if k < len(tl.ops) else 0
        if b == 1:
            return "first-byte"
        if b == n - 1:
            return "last-byte"
        if b < 4:
            return "in-length-prefix"
        if b == 4:
            return "after-length-prefix"
        if b >= n - 4:
            return "in-crc"
        return "interior"

    def js_image(self, tl, nc, infl, exact, sec, lineage, info, lvl, k, b, R=None):
        pre = "C11:json:"
        mem, per = exact
        adm = [per]
        if infl is not None and infl["kind"] in ("flush", "close"):
            adm.append(dict(mem))
        d0 = Js.from_dump(sec["d0"]["dump"])
        which = None
        for i, a in enumerate(adm):
            if a == d0:
                which = "exact" if len(adm) == 1 else ("old" if i == 0 else "new")
                break
        bad0 = which is None
        if bad0:
            if not d0 and all(a for a in adm):
                sym = "empty-store"
            elif any(st[1] == d0 for st in tl.states):
                sym = "stale-store"
            else:
                sym = "mixed-contents"
            self.viol(pre + lineage + ":" + sym,
                      f"store reopened with {len(d0)} keys; admissible: last completed flush ({len(adm[0])} keys)"
                      + (f" or flush in progress ({len(adm[1])} keys)" if len(adm) > 1 else "") + f" (in-flight call: {info['inflight']})",
                      dict(info, observed_keys=len(d0), admissible_keys=[len(a) for a in adm]))
        self.o("json_recovered_" + (which or "inadmissible"))
        if lvl == 1:
            self.l1 = {(k, b, R): (tl, nc, infl, lineage, sec, None)}
        cont = sec.get("cont")
        if not cont:
            return
        threw = [c for c in cont["calls"] if c.get("threw")]
        for c in threw:
            self.viol(pre + lineage + ":cont-op-threw", f"{c['kind']} on the recovered store threw: {c['err'][:160]}", dict(info, call=c["kind"]))
        if threw or "reopen" not in sec:
            return
        if sec["reopen"]["threw"]:
            self.viol(pre + lineage + ":cont-reopen-failed", f"reopen after continuation failed: {sec['reopen']['err'][:200]}", info)
            return
        ctl = Timeline("json", d0, cont["calls"], cont["ops"])
        fmem, fper = ctl.states[-1]
        d1 = Js.from_dump(sec["d1"]["dump"])
        self.o("json_continuations_checked")
        bad1 = d1 != fper
        if bad1:
            self.viol(pre + lineage + ":acked-after-recovery-lost",
                      f"after recovery, more calls, clean close and reopen the store shows {len(d1)} keys; required {len(fper)} keys",
                      dict(info, observed_keys=len(d1), required_keys=len(fper), continuation=[c["kind"] for c in cont["calls"]]))
        else:
            self.o("json_continuation_ok")
        # independent read of the file left by the clean close (Python json), if the continuation flushed
        flushed = any(o["k"] in ("w", "r") for o in cont["ops"])
        if flushed and "file" in sec:
            raw = bytes.fromhex(sec["file"]["hex"])
            try:
                parsed = json.loads(raw.decode("utf-8"))
                self.o("json_file_parsed_by_python")
                if parsed != Js.to_python(fper):
                    self.viol(pre + lineage + ":cont-file-contents-differ",
                              "file written by the clean close parses (Python json) to different contents than the acknowledged state",
                              dict(info, file_keys=sorted(parsed)[:12] if isinstance(parsed, dict) else str(type(parsed))))
            except ValueError as e:
                self.viol(pre + lineage + ":cont-file-unparseable", f"file written by the clean close is not JSON: {e}", info)
        sig = ("json", lvl, lineage, info["inflight"], which, "op-boundary" if b == 0 else "byte", min(len(d0), 5), bad0, bad1)
        self.sigs.add(h64(json.dumps(sig)))
        if self.samples < 1 and infl is not None and len(d0) >= 2:
            self.samples += 1
            self.out.append(dict(t="case", n=0, sample=dict(store="json", seed=self.log["seed"], hist=self.log["hist"], cut=info,
                                                            recovered=which or "inadmissible", recovered_keys=len(d0))))

    def finish(self):
        for name, n in sorted(self.obs.items()):
            self.out.append(dict(t="obs", name=name, n=n))
        self.out.append(dict(t="sigs", n=self.images, list=sorted(self.sigs)))
        return self.out


def judge_files(log_path, obs_path, final=False):
    with open(log_path) as fh:
        log = json.load(fh)
    J = Judge(log, final=final)
    for c in log["calls"]:
        if c["kind"] == "set-oversize":
            J.o("kv_oversize_key_refused" if c.get("threw") else "kv_oversize_key_accepted")
    for c in log["calls"]:
        if c.get("threw") and c["kind"] == "open" and c["i"] > 0:
            # the recorded history itself could not reopen its store after a clean close
            J.viol(f"C11:{log['store']}:clean-close:reopen-failed",
                   f"reopening after a clean close failed in the recorded history (call {c['i']}): {c['err'][:200]}",
                   dict(k=c["ops"][0], b=0, call=c["i"]))
    if any(c.get("threw") and c["kind"] not in ("set-oversize", "open") for c in log["calls"]):
        bad = [c for c in log["calls"] if c.get("threw") and c["kind"] not in ("set-oversize", "open")][0]
        J.out.append(dict(t="inconclusive",
                          what=f"recorded history seed={log['seed']} hist={log['hist']}: call {bad['i']} ({bad['kind']}) threw "
                               f"'{bad['err'][:120]}' - no reference outcome"))
    with open(obs_path, errors="replace") as fh:
        for line in fh:
            line = line.strip()
            if not line.startswith("{"):
                continue
            try:
                ln = json.loads(line)
            except ValueError:
                J.out.append(dict(t="inconclusive", what=f"unparseable observation line in {obs_path}"))
                continue
            J.line(ln)
    return J.finish()


def main():
    a = sys.argv[1:]
    final = "--final" in a
    a = [x for x in a if x != "--final"]
    log_path, obs_path, out_path = a[0], a[1], a[2]
    recs = judge_files(log_path, obs_path, final)
    with open(out_path, "w") as fh:
        for r in recs:
            fh.write(json.dumps(r) + "\n")
    return 0


if __name__ == "__main__":
    sys.exit(main())
